"""E5: the shipped maps, the index, dataele.xml and codes.xml as plain data.

The model mirrors what the `map_if` constructors read: every field is taken
"attribute first, child element second", children of a segment are ordered by
`seq`, children of a loop by (`pos`, loops before segments, document order).
Nothing here imports pyx12.  Rule C16.R8 checks that the field names read here
are the ones the constructors read (so a loader change is noticed).
"""
import os
import xml.etree.ElementTree as ET

from .core import AnalysisError

# field names the model reads per node kind -- compared with the loader's AST by C16.R8
MODEL_FIELDS = {
    'loop_if': {'xid', 'type', 'name', 'usage', 'pos', 'repeat'},
    'segment_if': {'xid', 'type', 'name', 'usage', 'pos', 'max_use', 'repeat', 'end_tag', 'seq'},
    'element_if': {'xid', 'data_ele', 'usage', 'name', 'seq', 'max_use', 'regex', 'external'},
    'composite_if': {'xid', 'refdes', 'data_ele', 'usage', 'seq', 'repeat', 'name'},
}


def g(e, k):
    v = e.get(k)
    return v if v else e.findtext(k)


class N(object):
    """a map node"""
    __slots__ = ('kind', 'id', 'name', 'usage', 'pos_raw', 'pos', 'repeat', 'max_use', 'seq_raw', 'seq',
                 'data_ele', 'codes', 'external', 'regex', 'syntax', 'children', 'parent', 'seg_suffix',
                 'type', 'refdes', 'file', 'line', 'has_codes_tag', 'end_tag', '_path')

    def __init__(self, kind, file):
        self.kind = kind
        self.file = file
        self.id = self.name = self.usage = self.pos_raw = self.repeat = self.max_use = None
        self.seq_raw = self.data_ele = self.external = self.regex = self.type = self.refdes = None
        self.pos = self.seq = None
        self.codes = []
        self.syntax = []
        self.children = []
        self.parent = None
        self.seg_suffix = None
        self.has_codes_tag = False
        self.end_tag = None
        self._path = None

    def is_loop(self):
        return self.kind == 'loop'

    def is_segment(self):
        return self.kind == 'segment'

    def ordered_children(self):
        """loops/map: children in the order `sorted(pos_map)` then insertion (loops first, then segments)."""
        if self.kind in ('map', 'loop'):
            return sorted(self.children, key=lambda c: (c.pos if c.pos is not None else -1))
        return self.children

    # path as computed by x12_node.get_path / element_if.get_path
    def path_component(self):
        if self.kind == 'segment':
            return self.id + ('[' + self.seg_suffix + ']' if self.seg_suffix else '')
        return self.id

    def get_path(self):
        if self._path is not None:
            return self._path
        if self.kind == 'map':
            self._path = '/'
        elif self.kind in ('loop', 'segment'):
            pp = self.parent.get_path()
            self._path = ('/' + self.path_component()) if pp == '/' else pp + '/' + self.path_component()
        elif self.kind == 'composite':
            # x12_node.get_path with path '' : parent_path + '/' + ''
            pp = self.parent.get_path()
            self._path = pp + '/'
        else:  # element: enclosing loop path + '/' + id
            seg = self.parent
            while seg.kind != 'segment':
                seg = seg.parent
            lp = seg.parent.get_path()
            self._path = ('/' + self.id) if lp == '/' else lp + '/' + self.id
        return self._path

    def segments(self):
        for c in self.ordered_children():
            if c.kind == 'segment':
                yield c
            elif c.kind == 'loop':
                for s in c.segments():
                    yield s

    def walk(self):
        yield self
        for c in self.children:
            for x in c.walk():
                yield x

    def __repr__(self):
        return '<%s %s %s>' % (self.kind, self.id, self.file)


def _int(s):
    try:
        return int(s)
    except (TypeError, ValueError):
        return None


class MapSet(object):
    def __init__(self, ctx):
        self.ctx = ctx
        self.dir = os.path.join(ctx.pkg, 'map')
        if not os.path.isdir(self.dir):
            raise AnalysisError('map directory vanished')
        self._maps = {}
        self._dataele = None
        self._codes = None
        self._index = None
        self.stats = {'maps_loaded': 0, 'map_nodes': 0}

    def _parse(self, fname):
        p = os.path.join(self.dir, fname)
        self.ctx.consulted.add(os.path.join('pyx12', 'map', fname))
        if not os.path.isfile(p):
            return None
        try:
            return ET.parse(p).getroot()
        except ET.ParseError as e:
            raise AnalysisError('%s is not well-formed XML: %s' % (fname, e))

    # -- index
    @property
    def index(self):
        if self._index is None:
            root = self._parse('maps.xml')
            if root is None:
                raise AnalysisError('maps.xml vanished')
            out = []
            for v in root.iter('version'):
                for m in v.iterfind('map'):
                    out.append({'icvn': v.get('icvn'), 'vriic': m.get('vriic'), 'fic': m.get('fic'),
                                'tspc': m.get('tspc'), 'file': m.text, 'abbr': m.get('abbr')})
            self._index = out
        return self._index

    def indexed_files(self):
        seen = []
        for e in self.index:
            if e['file'] not in seen:
                seen.append(e['file'])
        return seen

    def control_files(self):
        return ['x12.control.00401.xml', 'x12.control.00501.xml']

    def all_map_files(self):
        out = []
        for f in sorted(os.listdir(self.dir)):
            if not f.endswith('.xml') or f in ('maps.xml', 'dataele.xml', 'codes.xml'):
                continue
            out.append(f)
        return out

    # -- tables
    @property
    def dataele(self):
        if self._dataele is None:
            root = self._parse('dataele.xml')
            if root is None:
                raise AnalysisError('dataele.xml vanished')
            d = {}
            for e in root.iter('data_ele'):
                d[e.get('ele_num')] = {'data_type': e.get('data_type'), 'min_len': _int(e.get('min_len')),
                                       'max_len': _int(e.get('max_len')), 'name': e.get('name'),
                                       'min_raw': e.get('min_len'), 'max_raw': e.get('max_len')}
            self._dataele = d
        return self._dataele

    @property
    def codes(self):
        if self._codes is None:
            root = self._parse('codes.xml')
            if root is None:
                raise AnalysisError('codes.xml vanished')
            d = {}
            for c in root.iter('codeset'):
                d[c.findtext('id')] = [x.text for x in c.iterfind('version/code')]
            self._codes = d
        return self._codes

    def dtype(self, ele):
        d = self.dataele.get(ele.data_ele)
        return d['data_type'] if d else None

    # -- maps
    def map(self, fname):
        if fname in self._maps:
            return self._maps[fname]
        root = self._parse(fname)
        if root is None:
            self._maps[fname] = None
            return None
        m = N('map', fname)
        m.id = root.get('xid')
        m.name = g(root, 'name')
        m._path = '/'
        m.type = root.tag
        for e in root.findall('loop'):
            m.children.append(self._loop(e, m, fname))
        for e in root.findall('segment'):
            m.children.append(self._segment(e, m, fname))
        self._maps[fname] = m
        self.stats['maps_loaded'] += 1
        self.stats['map_nodes'] += sum(1 for _ in m.walk())
        return m

    def _loop(self, e, parent, fname):
        n = N('loop', fname)
        n.parent = parent
        n.id = e.get('xid')
        n.type = e.get('type')
        n.name = g(e, 'name')
        n.usage = g(e, 'usage')
        n.pos_raw = g(e, 'pos')
        n.pos = _int(n.pos_raw)
        n.repeat = g(e, 'repeat')
        for c in e.findall('loop'):
            n.children.append(self._loop(c, n, fname))
        for c in e.findall('segment'):
            n.children.append(self._segment(c, n, fname))
        # qualifier suffix on same-position segment siblings (loop_if.__init__)
        bypos = {}
        for c in n.children:
            bypos.setdefault(c.pos, []).append(c)
        for pos, lst in bypos.items():
            if len(lst) > 1:
                for s in lst:
                    if s.kind == 'segment':
                        k = self.key_element(s)
                        if k is not None and k.codes:
                            s.seg_suffix = k.codes[0]
        return n

    def _segment(self, e, parent, fname):
        n = N('segment', fname)
        n.parent = parent
        n.id = e.get('xid')
        n.type = e.get('type')
        n.name = g(e, 'name')
        n.usage = g(e, 'usage')
        n.pos_raw = g(e, 'pos')
        n.pos = _int(n.pos_raw)
        n.max_use = g(e, 'max_use')
        n.repeat = g(e, 'repeat')
        n.end_tag = g(e, 'end_tag')
        n.syntax = [s.text for s in e.findall('syntax')]
        cm = {}
        dup = []
        for c in list(e.findall('element')) + list(e.findall('composite')):
            seq = _int(g(c, 'seq'))
            if seq in cm:
                dup.append(seq)
            cm[seq] = c
        n.type = (n.type, tuple(dup)) if dup else n.type
        for seq in sorted(cm, key=lambda x: (x is None, x)):
            c = cm[seq]
            if c.tag == 'element':
                n.children.append(self._element(c, n, fname))
            else:
                n.children.append(self._composite(c, n, fname))
        return n

    def _element(self, e, parent, fname):
        n = N('element', fname)
        n.parent = parent
        n.id = e.get('xid')
        n.refdes = n.id
        n.data_ele = g(e, 'data_ele')
        n.usage = g(e, 'usage')
        n.name = g(e, 'name')
        n.seq_raw = g(e, 'seq')
        n.seq = _int(n.seq_raw)
        n.max_use = g(e, 'max_use')
        n.regex = e.findtext('regex')
        v = e.find('valid_codes')
        if v is not None:
            n.has_codes_tag = True
            n.external = v.get('external')
            n.codes = [c.text for c in v.findall('code')]
        return n

    def _composite(self, e, parent, fname):
        n = N('composite', fname)
        n.parent = parent
        n.id = e.get('xid')
        n.refdes = e.findtext('refdes') if e.findtext('refdes') else n.id
        n.data_ele = g(e, 'data_ele')
        n.usage = g(e, 'usage')
        n.seq_raw = g(e, 'seq')
        n.seq = _int(n.seq_raw)
        n.repeat = g(e, 'repeat')
        n.name = g(e, 'name')
        for c in e.findall('element'):
            n.children.append(self._element(c, n, fname))
        return n

    # -- the matching key of a segment node, as segment_if.guess_unique_key_id_element computes it
    def key_element(self, s):
        ch = s.children
        if not ch:
            return None
        c0 = ch[0]
        if c0.kind == 'element' and self.dtype(c0) == 'ID' and len(c0.codes) > 0:
            return c0
        if s.id == 'ENT' and len(ch) > 1 and ch[1].kind == 'element' and self.dtype(ch[1]) == 'ID' and len(ch[1].codes) > 0:
            return ch[1]
        if c0.kind == 'composite' and c0.children and self.dtype(c0.children[0]) == 'ID' and len(c0.children[0].codes) > 0:
            return c0.children[0]
        if s.id == 'HL' and len(ch) > 2 and ch[2].kind == 'element' and len(ch[2].codes) > 0:
            return ch[2]
        return None

    def match_key(self, s):
        """the discriminator segment_if.is_match applies: (label, frozenset(codes)) or None (= matches any
        segment with this id)."""
        ch = s.children
        if not ch:
            return None
        c0 = ch[0]
        if c0.kind == 'element' and self.dtype(c0) == 'ID' and c0.usage == 'R' and len(c0.codes) > 0:
            return ('01', frozenset(c0.codes))
        if s.id == 'ENT' and len(ch) > 1 and ch[1].kind == 'element' and self.dtype(ch[1]) == 'ID' and len(ch[1].codes) > 0:
            return ('02', frozenset(ch[1].codes))
        if s.id == 'CTX' and c0.kind == 'composite' and c0.children and self.dtype(c0.children[0]) == 'AN' \
                and len(c0.children[0].codes) > 0:
            return ('01-1', frozenset(c0.children[0].codes))
        if c0.kind == 'composite' and c0.children and self.dtype(c0.children[0]) == 'ID' and len(c0.children[0].codes) > 0:
            return ('01-1', frozenset(c0.children[0].codes))
        if s.id == 'HL' and len(ch) > 2 and ch[2].kind == 'element' and len(ch[2].codes) > 0:
            return ('03', frozenset(ch[2].codes))
        return None

    # -- path lookup as map_if.getnodebypath / loop_if.getnodebypath do it
    def getnodebypath(self, root, spath):
        pathl = spath.split('/')[1:]
        if not pathl:
            return None
        for child in root.ordered_children():
            if child.id is not None and child.id.lower() == pathl[0].lower():
                if len(pathl) == 1:
                    return child
                if child.kind == 'loop':
                    return self._loop_getnodebypath(child, pathl[1:])
                return None  # a segment has x12_node.getnodebypath: only element children; not modelled further
        return None

    def _loop_getnodebypath(self, loop, pathl):
        for child in loop.ordered_children():
            if child.kind == 'loop':
                if child.id.upper() == pathl[0].upper():
                    if len(pathl) == 1:
                        return child
                    return self._loop_getnodebypath(child, pathl[1:])
            elif child.kind == 'segment' and len(pathl) == 1:
                p = pathl[0]
                if p.find('[') == -1:
                    if p == child.id:
                        return child
                else:
                    seg_id = p[0:p.find('[')]
                    id_val = p[p.find('[') + 1:p.find(']')]
                    if seg_id == child.id and self.unique_key_has(child, id_val):
                        return child
        return None

    def unique_key_has(self, s, id_val):
        """segment_if.get_unique_key_id_element(id_val) is not None"""
        ch = s.children
        if not ch:
            return False
        c0 = ch[0]
        if c0.kind == 'element' and self.dtype(c0) == 'ID' and len(c0.codes) > 0 and id_val in c0.codes:
            return True
        if s.id == 'ENT' and len(ch) > 1 and ch[1].kind == 'element' and self.dtype(ch[1]) == 'ID' \
                and len(ch[1].codes) > 0 and id_val in ch[1].codes:
            return True
        if c0.kind == 'composite' and c0.children and self.dtype(c0.children[0]) == 'ID' \
                and len(c0.children[0].codes) > 0 and id_val in c0.children[0].codes:
            return True
        if s.id == 'HL' and len(ch) > 2 and ch[2].kind == 'element' and len(ch[2].codes) > 0 and id_val in ch[2].codes:
            return True
        return False
