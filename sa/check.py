#!/usr/bin/env python3
"""CLI:  python3 sa/check.py Cxx [--tier quick|thorough] [--repo DIR] [--only KEY]

exit 0  every obligation discharged (or only known findings)
exit 1  VIOLATION property=Cxx replay=<path>
exit 2  ANALYSIS-ERROR (vanished anchor, parse failure, instance floor not met, analyser crash)
"""
import argparse
import importlib
import os
import sys

HERE = os.path.dirname(os.path.abspath(__file__))
sys.path.insert(0, os.path.dirname(HERE))

from sa import core  # noqa: E402


def main(argv=None):
    ap = argparse.ArgumentParser()
    ap.add_argument('prop')
    ap.add_argument('--tier', default=os.environ.get('VERIF_TIER') or 'quick', choices=['quick', 'thorough'])
    ap.add_argument('--repo', default=core.DEFAULT_REPO)
    ap.add_argument('--only', default=None)
    ap.add_argument('--no-evidence', action='store_true')
    ap.add_argument('--evidence-dir', default=None)
    ap.add_argument('--no-selftest', action='store_true')
    ap.add_argument('--replay', default=None, help='re-check the single instance recorded in a replay file')
    ap.add_argument('--dump-fails', action='store_true', help='triage aid: print failing instances as JSON lines')
    args = ap.parse_args(argv)
    pid = args.prop.upper()
    if args.replay:
        import json
        try:
            with open(args.replay) as fd:
                rp = json.load(fd)
            args.only = '%s %s' % (rp['rule'], rp['key'])
            args.no_evidence = True
        except (OSError, ValueError, KeyError) as e:
            print('ANALYSIS-ERROR property=%s cannot read replay file: %s' % (pid, e))
            return 2
    try:
        seed = int(os.environ.get('VERIF_SEED', '0') or 0)
    except ValueError:
        seed = 0
    try:
        mod = importlib.import_module('sa.rules.%s' % pid.lower())
    except ImportError as e:
        print('ANALYSIS-ERROR property=%s no rule module: %s' % (pid, e))
        return 2
    try:
        ctx = core.Ctx(args.repo, args.tier)
    except core.AnalysisError as e:
        print('ANALYSIS-ERROR property=%s %s' % (pid, e))
        return 2
    extra = {}
    rc = 0
    if args.tier == 'thorough' and not args.no_selftest and args.only is None and args.repo == core.DEFAULT_REPO:
        # self-test of this property's rules on scratch variants (both directions)
        try:
            from selftest import run as st
            res = st.run_property(pid, jobs=int(os.environ.get('VERIF_JOBS', '16')))
            extra['selftest'] = res['summary']
            if res['failed']:
                for f in res['failed']:
                    print('ANALYSIS-ERROR property=%s self-test: %s' % (pid, f))
                rc = 2
        except ImportError:
            extra['selftest'] = 'not available'
    try:
        rc2 = core.run_property(pid, mod.RULES, mod.META, ctx, only=args.only, seed=seed,
                                write_evidence=not args.no_evidence, evidence_dir=args.evidence_dir,
                                extra=extra, dump_fails=args.dump_fails)
    except core.AnalysisError as e:
        print('ANALYSIS-ERROR property=%s %s' % (pid, e))
        return 2
    except Exception as e:  # noqa
        import traceback
        print('ANALYSIS-ERROR property=%s analyser crashed: %s' % (pid, ' / '.join(traceback.format_exc().strip().splitlines()[-3:])))
        return 2
    return max(rc, rc2) if rc2 != 1 else 1


if __name__ == '__main__':
    sys.exit(main())
