"""Constant-propagating reachability on the CFG (a small abstract interpreter).

State = (CFG node, environment of access paths with KNOWN constant values).  A test that is closed under the
environment is decided; any other test is non-deterministic (both edges).  Assignments of closed expressions
update the environment, any other assignment to a path forgets it.  Used to ask "starting from these abstract
inputs, can this node be reached?" without enumerating concrete inputs.
"""
import ast

from .cfg import path_of, kills
from . import astutil as A

_UNKNOWN = object()


class IterState(object):
    """an iterator over a closed sequence, as a value: the items and how many of them have been taken"""
    __slots__ = ('items', 'pos')

    def __init__(self, items, pos=0):
        self.items, self.pos = tuple(items), pos

    def __hash__(self):
        return hash(('iter', self.items, self.pos))

    def __eq__(self, o):
        return isinstance(o, IterState) and (o.items, o.pos) == (self.items, self.pos)


OPAQUE_NAMES = set()


def _opaque_call(cfg, nd, funcs):
    """a call, in this node, of a helper whose body was not expanded here and for which the caller gave no oracle"""
    if not OPAQUE_NAMES:
        return None
    for x in cfg.walk_exprs(nd):
        if isinstance(x, ast.Call):
            r, m = A.call_target(x)
            if m in OPAQUE_NAMES and not (funcs and (m in funcs or ((r + '.' + m) if r else m) in funcs)):
                return x
    return None


def _self_call(cfg, nd):
    """the call by which the function of this CFG calls itself in this node: the Call when the node is that call as a
    statement, False when the value is used (not supported), None when there is none"""
    if nd.ast is None or nd.kind in ('entry', 'exit'):
        return None
    nm = cfg.fn.name
    params = [a_.arg for a_ in cfg.fn.args.args]
    is_m = bool(params) and params[0] == 'self'
    for x in cfg.walk_exprs(nd):
        if isinstance(x, ast.Call):
            f = x.func
            hit = (isinstance(f, ast.Attribute) and isinstance(f.value, ast.Name) and f.value.id == 'self' and f.attr == nm) if is_m \
                else (isinstance(f, ast.Name) and f.id == nm)
            if hit:
                a = nd.ast.value if isinstance(nd.ast, ast.Expr) else nd.ast
                return x if (a is x and nd.kind in ('stmt', 'expr')) else False
    return None


def explore(cfg, env0, funcs=None, on_node=None, max_states=20000, start=None, unknown='both', on_unknown=None, pinned=(),
            concrete_exceptions=False, on_exception=None):
    """Explore all abstract states reachable from entry with environment `env0` (dict path -> constant).
    `on_node(node, env)` is called for every (node, env) visited; returns the set of visited node ids.
    `start`: node to start from (default entry).  `unknown`: 'both' follows both edges of a test that is not closed,
    'stop' does not follow it at all (the exploration leaves the region of interest there)."""
    start = ((start or cfg.entry).id, tuple(sorted(env0.items(), key=lambda x: x[0])))
    seen = {start}
    st = [start]
    visited = set()
    while st:
        nid, envt = st.pop()
        env = dict(envt)
        nd = cfg.nodes[nid]
        visited.add(nid)
        if on_node is not None:
            on_node(nd, env)
        if on_unknown is not None and nd.ast is not None and _opaque_call(cfg, nd, funcs) is not None:
            # closed evaluation: the effect of this helper on the state is not known here
            raise NotClosedTest('the call %s of a helper that was not expanded in place' % ast.unparse(_opaque_call(cfg, nd, funcs))[:60])
        succs = []
        rec = _self_call(cfg, nd) if on_unknown is not None else None
        if rec is not None and not (funcs and (cfg.fn.name in funcs or ('self.' + cfg.fn.name) in funcs)):
            # closed evaluation of a function that calls itself (as a statement): the call is run, to a bounded depth,
            # on the object's state of the moment; what it leaves behind is the state the caller continues with
            depth = env.get('@depth', 0)
            if depth >= 12 or rec is False:
                raise NotClosedTest('the recursive call in %s' % cfg.fn.name)
            params = [a_.arg for a_ in cfg.fn.args.args]
            is_m = bool(params) and params[0] == 'self'
            names = params[1:] if is_m else params
            if len(rec.args) > len(names) or rec.keywords:
                raise NotClosedTest('the recursive call in %s' % cfg.fn.name)
            local = set(params) | {n_.id for n_ in ast.walk(cfg.fn) if isinstance(n_, ast.Name) and isinstance(n_.ctx, ast.Store)}
            sub = {k_: v_ for k_, v_ in env.items() if k_.split('.')[0].split('[')[0] not in local or k_.startswith('self.')}
            sub = {k_: v_ for k_, v_ in sub.items() if not k_.startswith('@it')}
            try:
                for n_, a_ in zip(names, rec.args):
                    v_ = A.ev(a_, env, funcs)
                    sub[n_] = tuple(v_) if isinstance(v_, list) else v_
                    hash(sub[n_])
                nd_ = len(cfg.fn.args.defaults)
                for i_, n_ in enumerate(names[len(rec.args):], len(rec.args)):
                    k_ = i_ - (len(names) - nd_)
                    if k_ < 0:
                        raise A.NotClosed('missing argument')
                    sub[n_] = A.ev(cfg.fn.args.defaults[k_], {})
            except (A.NotClosed, TypeError, AttributeError, IndexError, KeyError, ValueError):
                raise NotClosedTest('the arguments of the recursive call in %s' % cfg.fn.name)
            sub['@depth'] = depth + 1
            finals = []

            def inner(n2, e2):
                if n2 is cfg.exit:
                    finals.append(dict(e2))
                elif on_node is not None:
                    on_node(n2, e2)
            explore(cfg, sub, funcs=funcs, on_node=inner, max_states=max_states, unknown=unknown, on_unknown=on_unknown, pinned=pinned,
                    concrete_exceptions=concrete_exceptions, on_exception=on_exception)
            uniq = []
            for f_ in finals:
                if f_ not in uniq:
                    uniq.append(f_)
            if len(uniq) != 1:
                raise NotClosedTest('the recursive call in %s has %d outcomes' % (cfg.fn.name, len(uniq)))
            env2 = {k_: v_ for k_, v_ in env.items() if not (k_.startswith('self.') or k_ == '@trace' or k_ == '@mut')}
            for k_, v_ in uniq[0].items():
                if k_.startswith('self.') or k_ in ('@trace', '@mut'):
                    env2[k_] = v_
            for s, l in nd.succ:
                if l != 'exc':
                    succs.append((s, env2))
        elif nd.kind == 'test':
            val = _decide(nd.ast, env, funcs)
            for s, l in nd.succ:
                if l == 'exc':
                    continue
                if val is _UNKNOWN and on_unknown is not None:
                    on_unknown(nd, env)
                if val is _UNKNOWN and unknown == 'stop':
                    continue
                if val is _UNKNOWN or (val and l == 'T') or (not val and l == 'F'):
                    succs.append((s, env))
        elif nd.kind == 'for' and isinstance(nd.stmt.iter, ast.Name) and isinstance(env.get(nd.stmt.iter.id), IterState):
            # the loop draws from an explicit iterator held in a variable (shared with next() calls)
            it = env[nd.stmt.iter.id]
            env2 = dict(env)
            if it.pos < len(it.items):
                if isinstance(nd.ast, ast.Name):
                    env2[nd.ast.id] = it.items[it.pos]
                env2[nd.stmt.iter.id] = IterState(it.items, it.pos + 1)
                for s, l in nd.succ:
                    if l == 'next':
                        succs.append((s, env2))
            else:
                for s, l in nd.succ:
                    if l == 'done':
                        succs.append((s, env2))
        elif nd.kind == 'for' and ('@it%d' % nd.id) in env:
            # iteration over an iterable that was closed when the loop was entered
            items, idx = env['@it%d' % nd.id]
            env2 = dict(env)
            tgt = nd.ast
            if idx < len(items):
                if isinstance(tgt, ast.Name):
                    env2[tgt.id] = items[idx]
                elif isinstance(tgt, ast.Tuple) and all(isinstance(t, ast.Name) for t in tgt.elts) and isinstance(items[idx], tuple) \
                        and len(items[idx]) == len(tgt.elts):
                    for t, v in zip(tgt.elts, items[idx]):
                        env2[t.id] = v
                env2['@it%d' % nd.id] = (items, idx + 1)
                for s, l in nd.succ:
                    if l == 'next':
                        succs.append((s, env2))
            else:
                del env2['@it%d' % nd.id]
                for s, l in nd.succ:
                    if l == 'done':
                        succs.append((s, env2))
        elif concrete_exceptions and nd.kind in ('stmt', 'return', 'expr') and _raises(nd, env, funcs) is not None:
            # every input of this statement is closed and evaluating it raises: control goes to the handlers that catch
            # that exception (innermost try), or leaves the function
            exc = _raises(nd, env, funcs)
            hs = [s_ for s_, l in nd.succ if l == 'exc' and s_.kind == 'handler']
            for h in hs:
                t = h.ast.type if isinstance(h.ast, ast.ExceptHandler) else None
                names = []
                if t is None:
                    names = ['BaseException']
                elif isinstance(t, ast.Tuple):
                    names = [path_of(x) or '' for x in t.elts]
                else:
                    names = [path_of(t) or '']
                mro = {c.__name__ for c in type(exc).__mro__}
                if any(n_.split('.')[-1] in mro for n_ in names):
                    succs.append((h, env))
                    break
            if on_exception is not None and not succs:
                on_exception(nd, env, exc)
        else:
            env2 = dict(env)
            ks = kills(nd)
            a0 = nd.ast
            if nd.kind == 'stmt' and isinstance(a0, ast.Assign) and len(a0.targets) == 1 and isinstance(a0.targets[0], ast.Subscript) \
                    and isinstance(a0.targets[0].value, ast.Subscript):
                # X[i][j] = v with X[i] a model container: the store goes into the model (below), X keeps its items
                try:
                    b0 = A.ev(a0.targets[0].value, env, funcs)
                    if getattr(b0, '_sa_model', False) and hasattr(type(b0), '__setitem__'):
                        ks = ()
                except (A.NotClosed, TypeError, AttributeError, IndexError, KeyError, ValueError):
                    pass
            for k in ks:
                for p in list(env2):
                    if (p == k or p.startswith(k + '.') or p.startswith(k + '[')) and p not in pinned:
                        del env2[p]
            a = nd.ast
            is_iter = nd.kind == 'stmt' and isinstance(a, ast.Assign) and len(a.targets) == 1 and isinstance(a.targets[0], ast.Name) \
                and isinstance(a.value, ast.Call) and isinstance(a.value.func, ast.Name) and a.value.func.id == 'iter' and len(a.value.args) == 1
            if is_iter:
                # x = iter(<closed sequence>)
                try:
                    seq = A.ev(a.value.args[0], env, funcs)
                    if isinstance(seq, (tuple, list, str)):
                        env2[a.targets[0].id] = IterState(seq)
                except (A.NotClosed, TypeError):
                    pass
            if nd.kind == 'stmt' and isinstance(a, ast.Assign) and len(a.targets) == 1 and not is_iter:
                p = path_of(a.targets[0])
                if p and p not in pinned:
                    try:
                        env2[p] = A.ev(a.value, env, funcs)
                        if isinstance(env2[p], list):
                            # a list can only come out of a model object of the rule: a plain name bound to it is another
                            # name for that very list (what is appended through it is seen through the model)
                            if isinstance(a.targets[0], ast.Name) and isinstance(a.value, (ast.Attribute, ast.Name)):
                                env2[p] = A.ListRef(env2[p])
                            else:
                                env2[p] = tuple(env2[p])
                        hash(env2[p])
                        t0 = a.targets[0]
                        if isinstance(t0, ast.Attribute) and isinstance(t0.value, ast.Name) and getattr(env.get(t0.value.id), '_sa_setattr', False):
                            # a model that takes attribute stores: the name is rebound to a copy that carries the new value
                            import copy as _copy
                            m_ = _copy.copy(env[t0.value.id])
                            setattr(m_, t0.attr, env2[p])
                            env2[t0.value.id] = m_
                    except (A.NotClosed, TypeError, AttributeError, IndexError, KeyError, ValueError):
                        env2.pop(p, None)
            if nd.kind == 'stmt' and isinstance(a, ast.Assign) and len(a.targets) == 1 and isinstance(a.targets[0], (ast.Tuple, ast.List)) \
                    and all(isinstance(t_, ast.Name) for t_ in a.targets[0].elts):
                # a, b = <closed sequence of that length>
                try:
                    v_ = A.ev(a.value, env, funcs)
                    if isinstance(v_, list):
                        v_ = tuple(v_)
                    if isinstance(v_, (tuple, str)) and len(v_) == len(a.targets[0].elts):
                        for t_, x_ in zip(a.targets[0].elts, v_):
                            if t_.id not in pinned:
                                hash(x_)
                                env2[t_.id] = x_
                except (A.NotClosed, TypeError, AttributeError, IndexError, KeyError, ValueError):
                    pass
            if nd.kind == 'stmt' and isinstance(nd.stmt, ast.For) and a is nd.stmt.iter:
                # entering a for loop: remember the iterable if it is closed (the loop head then iterates it)
                try:
                    items = A.model_seq(A.ev(a, env, funcs))
                    if isinstance(items, (range, list)) or isinstance(items, A.FrozenDict):
                        items = tuple(items)
                    if isinstance(items, (tuple, str)) and len(items) <= 200:
                        heads = [s_ for s_, _l in nd.succ if s_.kind == 'for']
                        if heads:
                            env2['@it%d' % heads[0].id] = (tuple(items), 0)
                except (A.NotClosed, TypeError, AttributeError, IndexError, KeyError, ValueError):
                    pass
            if nd.kind == 'stmt' and isinstance(a, ast.Expr) and isinstance(a.value, ast.Call) and isinstance(a.value.func, ast.Attribute) \
                    and a.value.func.attr in ('append', 'extend') and len(a.value.args) == 1:
                p = path_of(a.value.func.value)
                if p and p in env and isinstance(env[p], tuple) and p not in pinned:
                    try:
                        v_ = A.ev(a.value.args[0], env, funcs)
                        env2[p] = env[p] + ((v_,) if a.value.func.attr == 'append' else tuple(v_))
                        hash(env2[p])
                    except (A.NotClosed, TypeError, AttributeError, IndexError, KeyError, ValueError):
                        env2.pop(p, None)
            # stack operations on a closed tuple value:  x = L.pop() / L.pop() / del L[-1]
            popc = None
            if nd.kind == 'stmt' and isinstance(a, ast.Assign) and isinstance(a.value, ast.Call):
                popc = a.value
            elif nd.kind == 'stmt' and isinstance(a, ast.Expr) and isinstance(a.value, ast.Call):
                popc = a.value
            if popc is not None and isinstance(popc.func, ast.Attribute) and popc.func.attr == 'pop' and not popc.keywords \
                    and (not popc.args or (len(popc.args) == 1 and isinstance(popc.args[0], ast.UnaryOp) and A.const(popc.args[0].operand) == 1
                                           and isinstance(popc.args[0].op, ast.USub))):
                p = path_of(popc.func.value)
                if p and p in env and isinstance(env[p], tuple) and env[p] and p not in pinned:
                    env2[p] = env[p][:-1]
                    if isinstance(a, ast.Assign) and len(a.targets) == 1 and path_of(a.targets[0]):
                        env2[path_of(a.targets[0])] = env[p][-1]
            if nd.kind == 'stmt' and isinstance(a, ast.Delete) and len(a.targets) == 1 and isinstance(a.targets[0], ast.Subscript):
                p = path_of(a.targets[0].value)
                ix = a.targets[0].slice
                if p and p in env and isinstance(env[p], tuple) and p not in pinned:
                    try:
                        lst = list(env[p])
                        if isinstance(ix, ast.Slice):
                            lo = A.ev(ix.lower, env, funcs) if ix.lower is not None else None
                            hi = A.ev(ix.upper, env, funcs) if ix.upper is not None else None
                            del lst[lo:hi]
                        else:
                            del lst[A.ev(ix, env, funcs)]
                        env2[p] = tuple(lst)
                    except (A.NotClosed, TypeError, IndexError, ValueError):
                        env2.pop(p, None)
                elif p and isinstance(a.targets[0].value, ast.Attribute) and not isinstance(ix, ast.Slice):
                    # del obj.field[i] where obj is a model object of the rule: the model's own field is cut
                    try:
                        owner = A.ev(a.targets[0].value.value, env, funcs)
                        if getattr(owner, '_sa_model', False):
                            cur_ = getattr(owner, a.targets[0].value.attr)
                            lst = list(cur_)
                            del lst[A.ev(ix, env, funcs)]
                            setattr(owner, a.targets[0].value.attr, tuple(lst) if isinstance(cur_, tuple) else lst)
                    except (A.NotClosed, TypeError, IndexError, ValueError, AttributeError):
                        pass
            if nd.kind == 'stmt' and isinstance(a, ast.Assign) and len(a.targets) == 1 and isinstance(a.targets[0], ast.Subscript):
                # P[i] = v  /  P[a:b] = seq   on a closed tuple value
                p = path_of(a.targets[0].value)
                ix = a.targets[0].slice
                if p and p in env and isinstance(env[p], tuple) and p not in pinned:
                    try:
                        lst = list(env[p])
                        v_ = A.ev(a.value, env, funcs)
                        if isinstance(ix, ast.Slice):
                            lo = A.ev(ix.lower, env, funcs) if ix.lower is not None else None
                            hi = A.ev(ix.upper, env, funcs) if ix.upper is not None else None
                            lst[lo:hi] = list(v_)
                        else:
                            lst[A.ev(ix, env, funcs)] = v_
                        env2[p] = tuple(lst)
                        hash(env2[p])
                    except (A.NotClosed, TypeError, IndexError, ValueError):
                        env2.pop(p, None)
            if nd.kind == 'stmt' and isinstance(a, ast.Expr) and isinstance(a.value, ast.Call) and isinstance(a.value.func, ast.Attribute) \
                    and a.value.func.attr in ('remove', 'insert', 'reverse', 'clear') and not a.value.keywords:
                # list mutators on a closed tuple value
                p = path_of(a.value.func.value)
                if p and p in env and isinstance(env[p], tuple) and p not in pinned:
                    try:
                        lst = list(env[p])
                        args_ = [A.ev(x_, env, funcs) for x_ in a.value.args]
                        getattr(lst, a.value.func.attr)(*args_)
                        env2[p] = tuple(lst)
                        hash(env2[p])
                    except (A.NotClosed, TypeError, IndexError, ValueError):
                        env2.pop(p, None)
            # a closed set value:  S.add(v) / S.discard(v) / S.update(vs)
            if nd.kind == 'stmt' and isinstance(a, ast.Expr) and isinstance(a.value, ast.Call) and isinstance(a.value.func, ast.Attribute) \
                    and a.value.func.attr in ('add', 'discard', 'update') and len(a.value.args) == 1 and not a.value.keywords:
                p = path_of(a.value.func.value)
                if p and isinstance(env.get(p), frozenset) and p not in pinned:
                    try:
                        v_ = A.ev(a.value.args[0], env, funcs)
                        if a.value.func.attr == 'add':
                            hash(v_)
                            env2[p] = env[p] | {v_}
                        elif a.value.func.attr == 'discard':
                            env2[p] = env[p] - {v_}
                        else:
                            env2[p] = env[p] | frozenset(v_)
                    except (A.NotClosed, TypeError, AttributeError, IndexError, KeyError, ValueError):
                        env2.pop(p, None)
            # containers that live inside a model object of the rule (not in the environment): the model itself is changed
            #   model.items.append(v)      model_container[i] = v
            if nd.kind == 'stmt' and isinstance(a, ast.Expr) and isinstance(a.value, ast.Call) and isinstance(a.value.func, ast.Attribute) \
                    and a.value.func.attr in ('append', 'extend', 'insert') and not a.value.keywords:
                p = path_of(a.value.func.value)
                if not (p and p in env) or isinstance(env.get(p), A.ListRef):
                    try:
                        recv_ = A.ev(a.value.func.value, env, funcs)
                        if isinstance(recv_, list):
                            getattr(recv_, a.value.func.attr)(*[A.ev(x_, env, funcs) for x_ in a.value.args])
                            env2['@mut'] = env.get('@mut', 0) + 1        # (the state is a new one although no variable changed)
                    except (A.NotClosed, TypeError, AttributeError, IndexError, KeyError, ValueError):
                        pass
            if nd.kind == 'stmt' and isinstance(a, ast.Assign) and len(a.targets) == 1 and isinstance(a.targets[0], ast.Subscript):
                p = path_of(a.targets[0].value)
                if not (p and p in env):
                    try:
                        base_ = A.ev(a.targets[0].value, env, funcs)
                        if isinstance(base_, list) or (getattr(base_, '_sa_model', False) and hasattr(type(base_), '__setitem__')):
                            base_[A.ev(a.targets[0].slice, env, funcs)] = A.ev(a.value, env, funcs)
                            env2['@mut'] = env.get('@mut', 0) + 1
                    except (A.NotClosed, TypeError, AttributeError, IndexError, KeyError, ValueError):
                        pass
            # a closed table (FrozenDict value):  D[k] = v  /  D[k] op= v  /  del D[k]
            tgt_ = None
            if nd.kind == 'stmt' and isinstance(a, (ast.Assign, ast.AugAssign)):
                t0 = a.targets[0] if isinstance(a, ast.Assign) and len(a.targets) == 1 else (a.target if isinstance(a, ast.AugAssign) else None)
                if isinstance(t0, ast.Subscript):
                    tgt_ = t0
            elif nd.kind == 'stmt' and isinstance(a, ast.Delete) and len(a.targets) == 1 and isinstance(a.targets[0], ast.Subscript):
                tgt_ = a.targets[0]
            if tgt_ is not None:
                p = path_of(tgt_.value)
                if p and isinstance(env.get(p), A.FrozenDict) and p not in pinned:
                    try:
                        d_ = dict(env[p])
                        k_ = A.ev(tgt_.slice, env, funcs)
                        hash(k_)
                        if isinstance(a, ast.Delete):
                            del d_[k_]
                        elif isinstance(a, ast.Assign):
                            d_[k_] = A.ev(a.value, env, funcs)
                        else:
                            d_[k_] = A._BIN[type(a.op)](d_[k_], A.ev(a.value, env, funcs))
                        env2[p] = A.FrozenDict(d_)
                        hash(env2[p])
                    except (A.NotClosed, TypeError, AttributeError, IndexError, KeyError, ValueError):
                        env2.pop(p, None)
            if nd.kind == 'stmt' and isinstance(a, ast.AugAssign):
                p = path_of(a.target)
                if p and p not in pinned and p in env:
                    try:
                        env2[p] = A.ev(ast.BinOp(left=a.target.__class__(**{f: getattr(a.target, f) for f in a.target._fields if f != 'ctx'}, ctx=ast.Load()),
                                                 op=a.op, right=a.value), env, funcs)
                        hash(env2[p])
                    except (A.NotClosed, TypeError, AttributeError, IndexError, KeyError, ValueError):
                        env2.pop(p, None)
            for s, l in nd.succ:
                if l == 'exc' and not (nd.kind == 'raise' and s.kind == 'handler'):
                    continue
                succs.append((s, env2))
        for s, e in succs:
            try:
                k = (s.id, tuple(sorted(e.items(), key=lambda x: x[0])))
                hash(k)
            except TypeError:
                k = (s.id, ())
            if k not in seen:
                if len(seen) > max_states:
                    raise RuntimeError('abstract state space too large')
                seen.add(k)
                st.append(k)
    return visited


_PY_EXC = (ValueError, TypeError, IndexError, KeyError, AttributeError, ZeroDivisionError)


def _raises(nd, env, funcs):
    """the Python exception the evaluation of this statement's value raises under `env`, None if it evaluates (or is not closed)"""
    a = nd.ast
    v = None
    if nd.kind == 'return':
        v = a.value
    elif isinstance(a, (ast.Assign, ast.AugAssign)):
        v = a.value
    elif isinstance(a, ast.Expr):
        # a bare expression that is evaluated for its exception (`obj.attr` as a probe); calls are left alone
        v = a.value if isinstance(a.value, (ast.Attribute, ast.Subscript)) else None
    if v is None:
        return None
    try:
        A.ev(v, env, funcs)
    except A.NotClosed:
        return None
    except _PY_EXC as e:
        return e
    except Exception:
        return None
    return None


def _decide(e, env, funcs):
    try:
        return bool(A.ev(e, env, funcs))
    except (A.NotClosed, TypeError, AttributeError, IndexError, KeyError, ValueError):
        return _UNKNOWN


def derefs_of(cfg, node, name):
    """sub-expressions at this node that dereference the plain name `name`:
    name.attr, len(name), name[...], iteration over name"""
    out = []
    a = node.ast
    if a is None:
        return out
    for x in cfg.walk_exprs(node):
        if isinstance(x, ast.Attribute) and isinstance(x.value, ast.Name) and x.value.id == name and isinstance(x.ctx, ast.Load):
            out.append(x)
        elif isinstance(x, ast.Call) and isinstance(x.func, ast.Name) and x.func.id == 'len' and x.args and isinstance(x.args[0], ast.Name) and x.args[0].id == name:
            out.append(x)
        elif isinstance(x, ast.Subscript) and isinstance(x.value, ast.Name) and x.value.id == name and isinstance(x.ctx, ast.Load):
            out.append(x)
    if node.kind == 'stmt' and isinstance(node.stmt, ast.For) and node.ast is node.stmt.iter and isinstance(node.ast, ast.Name) and node.ast.id == name:
        out.append(node.ast)
    return out


class NotClosedTest(Exception):
    pass


def traces(cfg, env0, call_key, funcs=None, max_states=20000, returns=False, with_keywords=False):
    """Run a function from its entry under the closed environment `env0` and collect, for every way it can end, the
    sequence of calls of interest made on the way: `call_key(call)` names a call (or returns None to ignore it); its
    arguments are evaluated in the environment of the moment (text of the expression when not closed).  Returns the
    set of (trace, final-environment-items) - one element when the run is determined by `env0`.  A test that cannot be
    decided raises NotClosedTest: the caller must not guess."""
    results = set()

    def on_node(nd, env):
        tr = env.get('@trace', ())
        for x in cfg.walk_exprs(nd):
            if isinstance(x, ast.Call):
                k = call_key(x)
                if k is not None:
                    vals = []
                    if k.endswith('@recv') and isinstance(x.func, ast.Attribute):
                        # the receiver is part of what is recorded (which object was asked)
                        try:
                            v = A.ev(x.func.value, env, funcs)
                            hash(v)
                        except Exception:
                            v = ('expr', ast.unparse(x.func.value))
                        vals.append(v)
                    for a_ in x.args:
                        try:
                            v = A.ev(a_, env, funcs)
                            hash(v)
                        except Exception:
                            v = ('expr', ast.unparse(a_))
                        vals.append(v)
                    if with_keywords:
                        for kw_ in x.keywords:
                            try:
                                v = A.ev(kw_.value, env, funcs)
                                hash(v)
                            except Exception:
                                v = ('expr', ast.unparse(kw_.value))
                            vals.append((kw_.arg, v))
                    tr = tr + ((k, tuple(vals)),)
        if returns and nd.kind == 'return':
            try:
                rv = A.ev(nd.ast.value, env, funcs) if nd.ast.value is not None else None
                hash(rv)
            except Exception:
                rv = ('expr', ast.unparse(nd.ast.value))
            tr = tr + (('@return', (rv,)),)
        env['@trace'] = tr
        if nd is cfg.exit or nd.kind == 'return' and False:
            pass
        if nd is cfg.exit:
            results.add((tr, tuple(sorted((k_, v_) for k_, v_ in env.items() if not k_.startswith('@')))))

    def unk(nd, env):
        raise NotClosedTest(ast.unparse(nd.ast) if nd.ast is not None else '?')
    e0 = dict(env0)
    e0['@trace'] = ()
    explore(cfg, e0, funcs=funcs, on_node=on_node, on_unknown=unk, max_states=max_states)
    return results


def run_function(cfg, fn, args, funcs=None, env=None):
    """the value `fn` returns for the closed arguments `args`, by constant propagation through its CFG.  Raises
    NotClosedTest when a test cannot be decided and A.NotClosed when the outcome is not a single closed value."""
    params = [a.arg for a in fn.args.args]
    env0 = dict(env or {})
    if fn.args.vararg is not None:
        # def f(a, *rest): the surplus positional arguments are the tuple `rest`
        env0[fn.args.vararg.arg] = tuple(tuple(v) if isinstance(v, list) else v for v in args[len(params):])
        args = list(args[:len(params)])
    if len(args) > len(params):
        raise A.NotClosed('arity')
    nd_ = len(fn.args.defaults)
    for i, p_ in enumerate(params):
        if i < len(args):
            v = args[i]
        else:
            k = i - (len(params) - nd_)
            if k < 0:
                raise A.NotClosed('missing argument %s' % p_)
            v = A.ev(fn.args.defaults[k], {})
        if isinstance(v, list):
            v = tuple(v)
        env0[p_] = v
    outs = []

    fell_off = []

    def on_node(nd, e):
        if nd is cfg.exit and not e.get('@returned'):
            fell_off.append(True)
        if nd.kind == 'return':
            e['@returned'] = True
            if nd.ast.value is None:
                outs.append(None)
            else:
                try:
                    v = A.ev(nd.ast.value, e, funcs)
                except _PY_EXC:
                    return      # the exception edge is taken (explore, concrete_exceptions)
                outs.append(tuple(v) if isinstance(v, list) else v)
        if nd.kind == 'raise' and not any(s_.kind == 'handler' for s_, _l in nd.succ):
            # an explicit raise that no handler of the function catches is an outcome of the call
            x_ = nd.ast.exc if isinstance(nd.ast, ast.Raise) else getattr(nd.stmt, 'exc', None)
            if isinstance(x_, ast.Call):
                x_ = x_.func
            outs.append(('raises', (path_of(x_) or '?').split('.')[-1] if x_ is not None else '?'))
        if nd is cfg.exit and not any(l != 'exc' for p in cfg.nodes for s_, l in p.succ if s_ is nd and p.kind == 'return'):
            pass

    def unk(nd, e):
        raise NotClosedTest(ast.unparse(nd.ast) if nd.ast is not None else '?')
    escaped = []
    visited = explore(cfg, env0, funcs=funcs, on_node=on_node, on_unknown=unk, concrete_exceptions=True,
                      on_exception=lambda nd, e, exc: escaped.append(exc))
    if escaped:
        outs.append(('raises', type(escaped[0]).__name__))
    # falling off the end returns None
    if fell_off:
        outs.append(None)
    vals = []
    for o in outs:
        if o not in vals:
            vals.append(o)
    if len(vals) != 1:
        raise A.NotClosed('%s: %d outcomes' % (fn.name, len(vals)))
    return vals[0]


def run_generator(cfg, fn, args, funcs=None, env=None):
    """the tuple of values a generator function yields for the closed arguments `args`, by constant propagation (the run
    must be determined by the arguments: one path)"""
    params = [a.arg for a in fn.args.args]
    env0 = dict(env or {})
    for p_, v in zip(params, args):
        env0[p_] = tuple(v) if isinstance(v, list) else v
    env0['@yields'] = ()
    outs = []

    def on_node(nd, e):
        ys = e.get('@yields', ())
        for x in cfg.walk_exprs(nd):
            if isinstance(x, ast.Yield):
                v = A.ev(x.value, e, funcs) if x.value is not None else None
                hash(v)
                ys = ys + (v,)
            elif isinstance(x, ast.YieldFrom):
                v = A.model_seq(A.ev(x.value, e, funcs))
                ys = ys + tuple(v)
        e['@yields'] = ys
        if nd is cfg.exit:
            outs.append(ys)

    def unk(nd, e):
        raise NotClosedTest(ast.unparse(nd.ast) if nd.ast is not None else '?')
    explore(cfg, env0, funcs=funcs, on_node=on_node, on_unknown=unk)
    vals = []
    for o in outs:
        if o not in vals:
            vals.append(o)
    if len(vals) != 1:
        raise A.NotClosed('%s: %d outcomes' % (fn.name, len(vals)))
    return vals[0]


def _is_generator(f):
    return any(isinstance(x, (ast.Yield, ast.YieldFrom)) for x in ast.walk(f))


def helper_oracles(ctx, modname, funcs=None, all_methods_of=None):
    """funcs for ev/explore in which every module-level function of `modname` that is not in the reference list (a helper
    a refactoring introduced) is answered by constant propagation through its own body"""
    from . import normalize as NZ
    base = NZ.baseline_funcs().get(modname) or set()
    out = dict(funcs or {})
    m = ctx.mod(modname)
    for st in m.tree.body:
        if isinstance(st, ast.FunctionDef) and st.name not in base and st.name not in out:
            def call(*args, _f=st):
                if _is_generator(_f):
                    return run_generator(ctx.cfg(_f), _f, list(args), out)
                return run_function(ctx.cfg(_f), _f, list(args), out)
            out[st.name] = call
        elif isinstance(st, ast.ClassDef):
            # methods a refactoring added: answered through `self.<name>` / `Class.<name>`; an instance method reads
            # the fields of the caller's environment (same object)
            for f in st.body:
                if not isinstance(f, ast.FunctionDef) or ((st.name + '.' + f.name) in base and st.name != all_methods_of):
                    continue
                if f.name.startswith('__') and f.name.endswith('__'):
                    continue
                static = any(isinstance(d, ast.Name) and d.id == 'staticmethod' for d in f.decorator_list)

                def mcall(env, *args, _f=f, _static=static):
                    run = run_generator if _is_generator(_f) else run_function
                    if _static:
                        return run(ctx.cfg(_f), _f, list(args), out)
                    e2 = {k: v for k, v in env.items() if k.startswith('self.') or k == 'self'}
                    return run(ctx.cfg(_f), _f, [env.get('self')] + list(args), out, env=e2)
                mcall._wants_env = True
                mcall._static = static
                for key in ('self.' + f.name, st.name + '.' + f.name):
                    out.setdefault(key, mcall)
    return out
