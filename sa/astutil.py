"""E7/E8 helpers: constant-table extraction by role, canonical expressions,
finite evaluation of closed pure sub-expressions."""
import ast
import copy
import operator as O

from .cfg import path_of
from .core import AnalysisError


def calls_in(node):
    for n in ast.walk(node):
        if isinstance(n, ast.Call):
            yield n


def call_target(c):
    """(receiver path or None, name)"""
    f = c.func
    if isinstance(f, ast.Attribute):
        return path_of(f.value), f.attr
    if isinstance(f, ast.Name):
        return None, f.id
    return None, None


def is_call(n, recv, meth):
    if not isinstance(n, ast.Call):
        return False
    r, m = call_target(n)
    if m != meth:
        return False
    return recv is None or r == recv or (isinstance(recv, (set, tuple, frozenset)) and r in recv)


def const(node):
    if isinstance(node, ast.Constant):
        return node.value
    return None


def is_str(node):
    return isinstance(node, ast.Constant) and isinstance(node.value, str)


def parent(n):
    return getattr(n, '_parent', None)


def enclosing(n, types):
    p = parent(n)
    while p is not None and not isinstance(p, types):
        p = parent(p)
    return p


def enclosing_function(n):
    return enclosing(n, (ast.FunctionDef,))


def qualname(fn):
    q = getattr(fn, '_qual', None)
    if q:
        return q
    p = parent(fn)
    if isinstance(p, ast.ClassDef):
        return p.name + '.' + fn.name
    return fn.name


def all_functions(tree):
    """(qualname, FunctionDef) for module-level functions and methods (also nested classes one level)."""
    for n in tree.body:
        if isinstance(n, ast.FunctionDef):
            yield n.name, n
        elif isinstance(n, ast.ClassDef):
            for c in n.body:
                if isinstance(c, ast.FunctionDef):
                    yield n.name + '.' + c.name, c


# ---------------------------------------------------------------------------
# branch labels:  if v == 'A': ... elif v == 'B' ... elif cond and v == 'C'
# ---------------------------------------------------------------------------

def _labels_of_test(test, var_pred):
    """labels a (sub)test compares the variable with; returns (labels, extra_conditions) or None"""
    if isinstance(test, ast.BoolOp) and isinstance(test.op, ast.And):
        labels = None
        extra = []
        for v in test.values:
            r = _labels_of_test(v, var_pred)
            if r is not None and labels is None:
                labels = r[0]
                extra += r[1]
            else:
                extra.append(v)
        return (labels, extra) if labels is not None else None
    if isinstance(test, ast.Compare) and len(test.ops) == 1:
        l, op, r = test.left, test.ops[0], test.comparators[0]
        if var_pred(l) and isinstance(op, ast.Eq) and is_str(r):
            return [r.value], []
        if var_pred(r) and isinstance(op, ast.Eq) and is_str(l):
            return [l.value], []
        if var_pred(l) and isinstance(op, ast.In) and isinstance(r, (ast.Tuple, ast.List, ast.Set)) \
                and all(is_str(x) for x in r.elts):
            return [x.value for x in r.elts], []
    return None


def branch_chain(stmts, var_pred):
    """Find if/elif chains in `stmts` (top level only) that dispatch on a variable.
    Yields (label, body, extra_conditions, if_node) for every arm; the final else arm is yielded with
    label None."""
    for s in stmts:
        if not isinstance(s, ast.If):
            continue
        cur = s
        found = False
        arms = []
        while True:
            r = _labels_of_test(cur.test, var_pred)
            if r is not None:
                found = True
                body, extra = cur.body, list(r[1])
                # `elif K == 'X': if G: BODY` (nothing else in the arm): BODY runs under the extra condition G
                while len(body) == 1 and isinstance(body[0], ast.If) and not body[0].orelse and _labels_of_test(body[0].test, var_pred) is None:
                    extra.append(body[0].test)
                    body = body[0].body
                for lab in r[0]:
                    arms.append((lab, body, extra, cur))
            else:
                arms.append(('?', cur.body, [cur.test], cur))
            if len(cur.orelse) == 1 and isinstance(cur.orelse[0], ast.If):
                cur = cur.orelse[0]
            else:
                if cur.orelse:
                    arms.append((None, cur.orelse, [], cur))
                break
        if found:
            for a in arms:
                yield a


def branch_chain_all(fn, var_pred):
    """branch_chain over every statement list of a function (nested blocks included)"""
    seen = set()
    for owner in ast.walk(fn):
        for field in ('body', 'orelse', 'finalbody'):
            blk = getattr(owner, field, None)
            if isinstance(blk, list) and blk and isinstance(blk[0], ast.stmt):
                for arm in branch_chain(blk, var_pred):
                    if id(arm[3]) not in seen or True:
                        yield arm
                    seen.add(id(arm[3]))


def name_or_call_pred(*names):
    """predicate matching Name(id in names) or a path expression whose access path is in names"""
    s = set(names)

    def pred(e):
        p = path_of(e)
        return p in s
    return pred


# ---------------------------------------------------------------------------
# canonical form
# ---------------------------------------------------------------------------

class _Renamer(ast.NodeTransformer):
    def __init__(self, ren):
        self.ren = ren

    def visit_Name(self, n):
        if n.id in self.ren:
            return ast.copy_location(ast.Name(id=self.ren[n.id], ctx=n.ctx), n)
        return n


def canon(expr, rename=None):
    """canonical text of an expression: names renamed, commutative + and * sorted, redundant parens gone."""
    e = copy.deepcopy(expr)
    if rename:
        e = _Renamer(rename).visit(e)

    def c(n):
        if isinstance(n, ast.BinOp) and isinstance(n.op, (ast.Add, ast.Mult)):
            a, b = c(n.left), c(n.right)
            a, b = sorted([a, b])
            return '(%s%s%s)' % (a, '+' if isinstance(n.op, ast.Add) else '*', b)
        if isinstance(n, ast.BinOp):
            return '(%s %s %s)' % (c(n.left), type(n.op).__name__, c(n.right))
        if isinstance(n, ast.Call):
            return '%s(%s)' % (c(n.func), ','.join([c(a) for a in n.args] + ['%s=%s' % (k.arg, c(k.value)) for k in n.keywords]))
        if isinstance(n, ast.Attribute):
            return '%s.%s' % (c(n.value), n.attr)
        if isinstance(n, ast.Name):
            return n.id
        if isinstance(n, ast.Constant):
            return repr(n.value)
        return ast.unparse(n)
    return c(e)


# ---------------------------------------------------------------------------
# E8 finite evaluation of closed expressions
# ---------------------------------------------------------------------------

import re as _re_mod


class NotClosed(Exception):
    pass


class Model(object):
    """a stand-in for a run-time object in a closed environment: plain attributes, optional methods (callables given as
    keyword arguments are called without self), identity-hashed"""
    _sa_model = True

    def __init__(self, _name='obj', **attrs):
        self._name = _name
        for k, v in attrs.items():
            setattr(self, k, v)

    def __repr__(self):
        return '<%s>' % self._name


class FrozenDict(dict):
    """a constant table as a hashable value (abstract states are kept in sets)"""

    def __hash__(self):
        return hash(tuple(sorted((repr(k), repr(v)) for k, v in self.items())))


def module_regexes(tree):
    """{name: compiled pattern} of the module-level names bound once to re.compile(<literal>[, <flags>])"""
    out = {}
    env = {'re.S': _re_mod.S, 're.DOTALL': _re_mod.S, 're.ASCII': _re_mod.ASCII, 're.I': _re_mod.I, 're.IGNORECASE': _re_mod.I, 're.M': _re_mod.M}
    consts = module_constants(tree)
    env.update({k: v for k, v in consts.items() if isinstance(v, (int, str))})
    for st in tree.body:
        if isinstance(st, ast.Assign) and len(st.targets) == 1 and isinstance(st.targets[0], ast.Name) and isinstance(st.value, ast.Call) \
                and isinstance(st.value.func, ast.Attribute) and st.value.func.attr == 'compile' and st.value.args:
            try:
                pat = ev(st.value.args[0], env)
                flags = ev(st.value.args[1], env) if len(st.value.args) > 1 else 0
                out[st.targets[0].id] = _re_mod.compile(pat, int(flags))
            except Exception:
                continue
    return out


def module_constants(tree):
    """{name: value} of the module-level names bound exactly once to a literal that ev can evaluate (numbers, strings,
    tuples, frozensets/sets and dicts of such) and not stored to anywhere else in the module"""
    counts = {}
    for n in ast.walk(tree):
        if isinstance(n, ast.Name) and isinstance(n.ctx, (ast.Store, ast.Del)):
            counts[n.id] = counts.get(n.id, 0) + 1
    out = {}
    for st in tree.body:
        if isinstance(st, ast.Assign) and len(st.targets) == 1 and isinstance(st.targets[0], ast.Name) and counts.get(st.targets[0].id) == 1:
            try:
                v = ev(st.value, out)
                hash(v)
            except Exception:
                continue
            out[st.targets[0].id] = v
    return out


_BIN = {ast.Add: O.add, ast.Sub: O.sub, ast.Mult: O.mul, ast.Mod: O.mod, ast.FloorDiv: O.floordiv,
        ast.BitAnd: O.and_, ast.BitOr: O.or_}
_CMP = {ast.Eq: O.eq, ast.NotEq: O.ne, ast.Gt: O.gt, ast.GtE: O.ge, ast.Lt: O.lt, ast.LtE: O.le,
        ast.In: lambda a, b: a in b, ast.NotIn: lambda a, b: a not in b,
        ast.Is: lambda a, b: a is b, ast.IsNot: lambda a, b: a is not b}


_STR_METHODS = {'replace', 'strip', 'rstrip', 'lstrip', 'upper', 'lower', 'startswith', 'endswith', 'isdigit', 'count',
                'find', 'split', 'join', 'zfill', 'isalnum', 'isalpha', 'isupper', 'islower', 'isspace', 'isdecimal', 'isnumeric',
                'isascii', 'isprintable', 'isidentifier', 'istitle', 'rfind', 'index', 'rindex', 'partition', 'rpartition',
                'rsplit', 'splitlines', 'title', 'capitalize', 'swapcase', 'casefold', 'center', 'ljust', 'rjust',
                'expandtabs', 'removeprefix', 'removesuffix', 'encode', 'translate'}


def model_seq(v):
    """a model object that stands for a sequence (len() and [i]) as the tuple of its items; anything else unchanged"""
    if getattr(v, '_sa_model', False) and hasattr(type(v), '__len__') and hasattr(type(v), '__getitem__'):
        return tuple(v[i] for i in range(len(v)))
    return v


class ListRef(object):
    """environment value of a local that is another name for a list held inside a model object of a rule: the list
    itself (not a copy), so that what is appended through the local is seen through the model - as in the program"""
    __slots__ = ('lst',)

    def __init__(self, lst):
        self.lst = lst

    def __hash__(self):
        return hash(('listref', id(self.lst)))

    def __eq__(self, o):
        return isinstance(o, ListRef) and o.lst is self.lst

    def __repr__(self):
        return 'ListRef(%r)' % (self.lst,)


def ev(e, env, funcs=None):
    """evaluate a closed pure expression under `env` (name or access-path -> value).
    Supports arithmetic, comparisons, boolean operators, len(), int(), slicing/indexing of
    str/tuple values, %-formatting and str.format of ints, tuple/list literals.  Anything else
    raises NotClosed: the caller must treat that as 'idiom not recognised'."""
    p = path_of(e)
    if p is not None and p in env:
        v0 = env[p]
        return v0.lst if isinstance(v0, ListRef) else v0
    if isinstance(e, ast.Constant):
        return e.value
    if isinstance(e, ast.Name):
        if e.id in env:
            v0 = env[e.id]
            return v0.lst if isinstance(v0, ListRef) else v0
        raise NotClosed(e.id)
    if isinstance(e, (ast.Tuple, ast.List)):
        return tuple(ev(x, env, funcs) for x in e.elts)
    if isinstance(e, ast.Dict) and all(k is not None for k in e.keys):
        return FrozenDict((ev(k, env, funcs), ev(v, env, funcs)) for k, v in zip(e.keys, e.values))
    if isinstance(e, ast.Set):
        return frozenset(ev(x, env, funcs) for x in e.elts)
    if isinstance(e, ast.BinOp):
        if type(e.op) not in _BIN:
            raise NotClosed(ast.dump(e.op))
        return _BIN[type(e.op)](ev(e.left, env, funcs), ev(e.right, env, funcs))
    if isinstance(e, ast.UnaryOp):
        v = ev(e.operand, env, funcs)
        if isinstance(e.op, ast.Not):
            return not v
        if isinstance(e.op, ast.USub):
            return -v
        raise NotClosed('unary')
    if isinstance(e, ast.BoolOp):
        if isinstance(e.op, ast.And):
            r = True
            for v in e.values:
                r = ev(v, env, funcs)
                if not r:
                    return r
            return r
        r = False
        for v in e.values:
            r = ev(v, env, funcs)
            if r:
                return r
        return r
    if isinstance(e, ast.Compare):
        l = ev(e.left, env, funcs)
        for op, r in zip(e.ops, e.comparators):
            rv = ev(r, env, funcs)
            if type(op) not in _CMP:
                raise NotClosed('cmp')
            if not _CMP[type(op)](l, rv):
                return False
            l = rv
        return True
    if isinstance(e, ast.IfExp):
        return ev(e.body, env, funcs) if ev(e.test, env, funcs) else ev(e.orelse, env, funcs)
    if isinstance(e, ast.Subscript):
        v = ev(e.value, env, funcs)
        s = e.slice
        if isinstance(s, ast.Slice):
            lo = ev(s.lower, env, funcs) if s.lower is not None else None
            hi = ev(s.upper, env, funcs) if s.upper is not None else None
            st = ev(s.step, env, funcs) if s.step is not None else None
            return v[lo:hi:st]
        return v[ev(s, env, funcs)]
    if isinstance(e, (ast.ListComp, ast.GeneratorExp, ast.SetComp)) and e.generators and not any(g_.is_async for g_ in e.generators):
        out = []

        def gen_loop(k, env_k):
            if k == len(e.generators):
                out.append(ev(e.elt, env_k, funcs))
                return
            gen = e.generators[k]
            it = model_seq(ev(gen.iter, env_k, funcs))
            if isinstance(it, (range, FrozenDict)):
                it = tuple(it)
            if not isinstance(it, (tuple, str)) or len(it) > 200:
                raise NotClosed('comprehension iterable')
            for item in it:
                env2 = dict(env_k)
                if isinstance(gen.target, ast.Name):
                    env2[gen.target.id] = item
                elif isinstance(gen.target, ast.Tuple) and all(isinstance(t, ast.Name) for t in gen.target.elts) and isinstance(item, tuple) \
                        and len(item) == len(gen.target.elts):
                    for t, v in zip(gen.target.elts, item):
                        env2[t.id] = v
                else:
                    raise NotClosed('comprehension target')
                if all(ev(c, env2, funcs) for c in gen.ifs):
                    gen_loop(k + 1, env2)
        gen_loop(0, env)
        return frozenset(out) if isinstance(e, ast.SetComp) else tuple(out)
    if isinstance(e, ast.Attribute):
        # attribute of a model object (an instance a rule put into the environment to stand for a run-time object)
        try:
            base = ev(e.value, env, funcs)
        except NotClosed:
            raise NotClosed('Attribute')
        if getattr(base, '_sa_model', False) and hasattr(base, e.attr) and not callable(getattr(base, e.attr)):
            return getattr(base, e.attr)
        if getattr(base, '_sa_model', False) and callable(getattr(base, e.attr, None)) and getattr(getattr(base, e.attr), '__self__', None) is base:
            return getattr(base, e.attr)      # the bound method as a value
        if isinstance(base, (str, int, float, tuple, frozenset, type(None))) or getattr(base, '_sa_closed', False):
            # a constant (or a model declared complete): an attribute it does not have raises, as in Python
            if not hasattr(base, e.attr):
                raise AttributeError('%s object has no attribute %r' % (type(base).__name__, e.attr))
        raise NotClosed('Attribute')
    if isinstance(e, ast.JoinedStr):
        out = []
        for v in e.values:
            if isinstance(v, ast.Constant):
                out.append(str(v.value))
            elif isinstance(v, ast.FormattedValue):
                val = ev(v.value, env, funcs)
                spec = ev(v.format_spec, env, funcs) if v.format_spec is not None else ''
                if v.conversion == 114:
                    val = repr(val)
                elif v.conversion == 115:
                    val = str(val)
                out.append(format(val, spec))
            else:
                raise NotClosed('fstring part')
        return ''.join(out)
    if isinstance(e, ast.Call):
        if isinstance(e.func, ast.Name) and not e.keywords and getattr(getattr(env.get(e.func.id), '__self__', None), '_sa_model', False):
            # a bound method of a model object held in a local:  f = model.method; f(x)
            return env[e.func.id](*[ev(a, env, funcs) for a in e.args])
        if isinstance(e.func, ast.Name) and e.func.id == 'format' and len(e.args) == 2 and not e.keywords:
            return format(ev(e.args[0], env, funcs), ev(e.args[1], env, funcs))
        if isinstance(e.func, ast.Name) and e.func.id == 'next' and len(e.args) == 2 and not e.keywords:
            # first item of a closed sequence (a generator whose items were collected), else the default
            a0_ = e.args[0]
            if isinstance(a0_, ast.Call) and isinstance(a0_.func, ast.Name) and a0_.func.id == 'iter' and len(a0_.args) == 1 and not a0_.keywords:
                a0_ = a0_.args[0]       # next(iter(S), d): a fresh iterator over S
            seq = model_seq(ev(a0_, env, funcs))
            if isinstance(seq, tuple):
                return seq[0] if seq else ev(e.args[1], env, funcs)
            if type(seq).__name__ == 'IterState':
                # (the advance of the iterator is not recorded: sound where the value is returned at once)
                return seq.items[seq.pos] if seq.pos < len(seq.items) else ev(e.args[1], env, funcs)
            raise NotClosed('next')
        if isinstance(e.func, ast.Attribute) and e.func.attr in ('sub', 'subn', 'split', 'findall') and not e.keywords and 1 <= len(e.args) <= 2:
            try:
                recv_s = ev(e.func.value, env, funcs)
            except NotClosed:
                recv_s = None
            if isinstance(recv_s, _re_mod.Pattern):
                args_s = [ev(a_, env, funcs) for a_ in e.args]
                if all(isinstance(a_, str) for a_ in args_s):
                    r_s = getattr(recv_s, e.func.attr)(*args_s)
                    return tuple(r_s) if isinstance(r_s, list) else r_s
                raise NotClosed('regex ' + e.func.attr)
        if isinstance(e.func, ast.Attribute) and e.func.attr in ('search', 'match', 'fullmatch') and not e.keywords and len(e.args) == 1:
            # a compiled constant regex (put into the environment by a rule) applied to a constant string
            try:
                recv_p = ev(e.func.value, env, funcs)
            except NotClosed:
                recv_p = None
            if isinstance(recv_p, _re_mod.Pattern):
                arg_ = ev(e.args[0], env, funcs)
                if not isinstance(arg_, str):
                    raise TypeError('expected string')
                return getattr(recv_p, e.func.attr)(arg_)
        if isinstance(e.func, ast.Attribute) and e.func.attr in ('group', 'groups', 'groupdict', 'start', 'end', 'span') and not e.keywords:
            # result of a constant regex applied to a constant string (put into the environment by a rule's oracle)
            try:
                recv_x = ev(e.func.value, env, funcs)
            except NotClosed:
                recv_x = None
            if isinstance(recv_x, _re_mod.Match):
                return getattr(recv_x, e.func.attr)(*[ev(a, env, funcs) for a in e.args])
        if isinstance(e.func, ast.Name) and e.func.id in ('frozenset', 'set') and len(e.args) <= 1 and not e.keywords:
            return frozenset(ev(e.args[0], env, funcs)) if e.args else frozenset()
        if isinstance(e.func, ast.Attribute) and e.func.attr == 'get' and not e.keywords and 1 <= len(e.args) <= 2:
            try:
                recv_d = ev(e.func.value, env, funcs)
            except NotClosed:
                recv_d = None
            if isinstance(recv_d, FrozenDict):
                return recv_d.get(*[ev(a, env, funcs) for a in e.args])
        if isinstance(e.func, ast.Attribute) and e.func.attr in ('keys', 'values', 'items') and not e.args and not e.keywords:
            try:
                recv_d = ev(e.func.value, env, funcs)
            except NotClosed:
                recv_d = None
            if isinstance(recv_d, FrozenDict):
                return tuple(getattr(recv_d, e.func.attr)())
        if isinstance(e.func, ast.Name) and e.func.id in ('enumerate', 'zip') and not e.keywords:
            args = [ev(a, env, funcs) for a in e.args]
            args = [tuple(a) if isinstance(a, list) else model_seq(a) for a in args]
            if all(isinstance(a, (tuple, str)) for a in args[:1]) and (e.func.id == 'zip' or len(args) <= 2):
                if e.func.id == 'zip':
                    if all(isinstance(a, (tuple, str)) for a in args):
                        return tuple(zip(*args))
                else:
                    return tuple(enumerate(args[0], *(args[1:])))
            raise NotClosed(e.func.id)
        if isinstance(e.func, ast.Name) and e.func.id == 'next' and 1 <= len(e.args) <= 2 and not e.keywords \
                and (isinstance(e.args[0], ast.GeneratorExp) or (isinstance(e.args[0], ast.Call) and isinstance(e.args[0].func, ast.Name)
                     and e.args[0].func.id == 'iter' and len(e.args[0].args) == 1)):
            # next(iter(S) [, d]) / next((.. for ..) [, d]) on a fresh iterator: the first item, or the default
            seq_ = ev(e.args[0] if isinstance(e.args[0], ast.GeneratorExp) else e.args[0].args[0], env, funcs)
            seq_ = model_seq(seq_)
            if isinstance(seq_, (tuple, list, str)):
                if len(seq_):
                    return seq_[0]
                if len(e.args) == 2:
                    return ev(e.args[1], env, funcs)
            raise NotClosed('next')
        if isinstance(e.func, ast.Name) and e.func.id == 'sorted' and len(e.args) == 1 and e.keywords and 'sorted' not in env \
                and all(k.arg in ('key', 'reverse') for k in e.keywords):
            # sorted(seq, key=lambda x: <closed expression of x>, reverse=<constant>): stable, as in the program
            seq_ = model_seq(ev(e.args[0], env, funcs))
            kw_ = {k.arg: k.value for k in e.keywords}
            if not isinstance(seq_, (tuple, list)):
                raise NotClosed('sorted')
            keyf = None
            if 'key' in kw_:
                lam = kw_['key']
                if not (isinstance(lam, ast.Lambda) and len(lam.args.args) == 1 and not lam.args.defaults):
                    raise NotClosed('sorted key')
                an_ = lam.args.args[0].arg

                def keyf(item, lam=lam, an_=an_):
                    e2 = dict(env)
                    e2[an_] = item
                    return ev(lam.body, e2, funcs)
            rev_ = bool(ev(kw_['reverse'], env, funcs)) if 'reverse' in kw_ else False
            return tuple(sorted(seq_, key=keyf, reverse=rev_))
        if isinstance(e.func, ast.Name) and e.func.id == 'dict' and 'dict' not in env and len(e.args) <= 1:
            # dict(<closed pairs>) / dict(k=v, ..): a closed table
            pairs_ = []
            if e.args:
                src_ = ev(e.args[0], env, funcs)
                if isinstance(src_, FrozenDict):
                    pairs_ = list(src_.items())
                else:
                    src_ = model_seq(src_)
                    if not (isinstance(src_, (tuple, list)) and all(isinstance(p_, tuple) and len(p_) == 2 for p_ in src_)):
                        raise NotClosed('dict')
                    pairs_ = list(src_)
            for k in e.keywords:
                if k.arg is None:
                    raise NotClosed('dict **')
                pairs_.append((k.arg, ev(k.value, env, funcs)))
            return FrozenDict(pairs_)
        if isinstance(e.func, ast.Name) and e.func.id == 'reversed' and 'reversed' not in env and len(e.args) == 1 and not e.keywords:
            seq_ = model_seq(ev(e.args[0], env, funcs))
            if isinstance(seq_, (tuple, list, str)):
                return tuple(reversed(seq_))
            raise NotClosed('reversed')
        if isinstance(e.func, ast.Name) and e.func.id == 'isinstance' and len(e.args) == 2 and not e.keywords:
            # decided for scalar types only: a closed value that is a text / number / None against str, int, float, bool, bytes
            # (a tuple stands for a list or a tuple here, a model for an object of the program: neither is one of those)
            SC = {'str': str, 'int': int, 'float': float, 'bool': bool, 'bytes': bytes}
            tnode = e.args[1]
            tnames = [t_.id for t_ in tnode.elts if isinstance(t_, ast.Name)] if isinstance(tnode, ast.Tuple) else ([tnode.id] if isinstance(tnode, ast.Name) else [])
            n_t = len(tnode.elts) if isinstance(tnode, ast.Tuple) else 1
            if tnames and len(tnames) == n_t and all(t_ in SC for t_ in tnames):
                v_ = ev(e.args[0], env, funcs)
                if v_ is None or isinstance(v_, (str, int, float, bool, bytes, tuple, FrozenDict, frozenset)) or getattr(v_, '_sa_model', False):
                    return isinstance(v_, tuple(SC[t_] for t_ in tnames))
                raise NotClosed('isinstance')
        if isinstance(e.func, ast.Name) and e.func.id in ('len', 'int', 'min', 'max', 'str', 'range', 'tuple', 'list', 'sorted', 'sum', 'any', 'all', 'bool', 'abs',
                                                           'chr', 'ord', 'repr') and e.func.id not in env and not e.keywords:
            args = [ev(a, env, funcs) for a in e.args]
            if e.func.id == 'repr' and not all(a_ is None or isinstance(a_, (str, int, float, bool, bytes)) for a_ in args):
                raise NotClosed('repr')
            r_ = {'len': len, 'int': int, 'min': min, 'max': max, 'str': str, 'range': range, 'tuple': tuple, 'list': tuple,
                  'sorted': lambda x: tuple(sorted(x)), 'sum': sum, 'any': any, 'all': all, 'bool': bool, 'abs': abs,
                  'chr': chr, 'ord': ord, 'repr': repr}[e.func.id](*args)
            return tuple(r_) if isinstance(r_, range) and len(r_) <= 500 else r_
        if isinstance(e.func, ast.Attribute) and e.func.attr == 'format' and is_str(e.func.value):
            args = [ev(a, env, funcs) for a in e.args]
            kw = {k.arg: ev(k.value, env, funcs) for k in e.keywords}
            return e.func.value.value.format(*args, **kw)
        if isinstance(e.func, ast.Attribute) and e.func.attr == 'format' and isinstance(e.func.value, (ast.BinOp, ast.Name, ast.JoinedStr, ast.IfExp)):
            # a template that is computed: decided when it evaluates to a text
            try:
                tmpl = ev(e.func.value, env, funcs)
            except NotClosed:
                tmpl = None
            if isinstance(tmpl, str):
                args = [ev(a, env, funcs) for a in e.args]
                kw = {k.arg: ev(k.value, env, funcs) for k in e.keywords}
                return tmpl.format(*args, **kw)
        if isinstance(e.func, ast.Attribute) and not e.keywords:
            try:
                recv_m = ev(e.func.value, env, funcs)
            except NotClosed:
                recv_m = None
            if getattr(recv_m, '_sa_model', False) and callable(getattr(recv_m, e.func.attr, None)):
                return getattr(recv_m, e.func.attr)(*[ev(a, env, funcs) for a in e.args])
        if isinstance(e.func, ast.Name) is False and isinstance(e.func, ast.Attribute) and isinstance(e.func.value, ast.Name) \
                and funcs and (e.func.value.id + '.' + e.func.attr) in funcs and e.func.value.id[:1].isupper() and not e.keywords:
            # Class.method(obj) style with an oracle
            f_ = funcs[e.func.value.id + '.' + e.func.attr]
            if getattr(f_, '_wants_env', False):
                return f_(env, *[ev(a, env, funcs) for a in e.args][(0 if getattr(f_, '_static', True) else 1):])
            return f_(*[ev(a, env, funcs) for a in e.args])
        if isinstance(e.func, ast.Attribute) and e.func.attr in _STR_METHODS and not e.keywords:
            try:
                recv = ev(e.func.value, env, funcs)
            except NotClosed:
                recv = None
            if isinstance(recv, str):
                r_m = getattr(recv, e.func.attr)(*[ev(a, env, funcs) for a in e.args])
                return tuple(r_m) if isinstance(r_m, list) else r_m
        if funcs:
            r, m = call_target(e)
            key = (r + '.' + m) if r else m
            if key in funcs:
                if getattr(funcs[key], '_ignores_args', False):
                    return funcs[key]()          # an oracle whose answer does not depend on the (possibly open) arguments
                args_ = []
                for a in e.args:
                    if isinstance(a, ast.Starred):
                        sv_ = ev(a.value, env, funcs)       # f(*seq): the items of a closed sequence
                        if not isinstance(sv_, (tuple, list)):
                            raise NotClosed('starred argument')
                        args_.extend(sv_)
                    else:
                        args_.append(ev(a, env, funcs))
                if getattr(funcs[key], '_wants_env', False):
                    return funcs[key](env, *args_)
                return funcs[key](*args_)
        raise NotClosed('call ' + ast.unparse(e)[:40])
    raise NotClosed(type(e).__name__)


def free_paths(e):
    """access paths read by an expression (maximal ones)."""
    out = set()

    def w(n):
        p = path_of(n)
        if p is not None and not isinstance(n, ast.Call):
            out.add(p)
            return
        if isinstance(n, ast.Call):
            if isinstance(n.func, ast.Attribute):
                w(n.func.value)
            for a in n.args:
                w(a)
            for k in n.keywords:
                w(k.value)
            return
        for c in ast.iter_child_nodes(n):
            w(c)
    w(e)
    return out


def require(cond, msg):
    if not cond:
        raise AnalysisError(msg)


def abstract(expr, table):
    """copy of `expr` in which every sub-expression whose source text is a key of `table` is replaced by the name
    table[text] - lets a rule evaluate a test over named quantities whether or not the code keeps them in locals"""
    class T(ast.NodeTransformer):
        def visit(self, n):
            if isinstance(n, ast.expr):
                try:
                    t = ast.unparse(n)
                except Exception:
                    t = None
                if t in table:
                    return ast.copy_location(ast.Name(id=table[t], ctx=ast.Load()), n)
            return self.generic_visit(n)
    from .normalize import clone
    return ast.fix_missing_locations(T().visit(clone(expr)))


def named_view(fn, table):
    """A copy of function `fn` in which the quantities of `table` (source text -> name) carry their names wherever they
    are read, with parent links and the module reference of the original: rules that speak about named quantities
    ("the declared minimum length", "the element value") work on this view, so that it makes no difference whether the
    code keeps such a quantity in a local variable or re-reads it.  Returns (view, set of table keys that occur)."""
    found = set()
    for n in ast.walk(fn):
        if isinstance(n, ast.expr):
            try:
                t = ast.unparse(n)
            except Exception:
                continue
            if t in table:
                found.add(t)
    v = abstract(fn, table)
    for n in ast.walk(v):
        for c in ast.iter_child_nodes(n):
            if not isinstance(c, (ast.expr_context, ast.operator, ast.unaryop, ast.boolop, ast.cmpop)):
                c._parent = n
    for a in ('_mod', '_qual'):
        if hasattr(fn, a):
            setattr(v, a, getattr(fn, a))
    return v, found


def alpha_text(fn):
    """source text of a function with every bound local (assignment, loop and comprehension targets, `as` names)
    renamed L1, L2, .. in order of first binding - text comparisons on it do not depend on the names chosen"""
    from .normalize import clone
    f = clone(fn)
    params = {a.arg for a in f.args.args + f.args.kwonlyargs + f.args.posonlyargs}
    order = []

    class V(ast.NodeVisitor):
        def visit_Name(self, n):
            if isinstance(n.ctx, (ast.Store, ast.Del)) and n.id not in params and n.id not in order:
                order.append(n.id)

        def visit_ExceptHandler(self, n):
            if n.name and n.name not in order:
                order.append(n.name)
            self.generic_visit(n)
    V().visit(f)
    ren = {nm: 'L%d' % (i + 1) for i, nm in enumerate(order)}

    class R(ast.NodeTransformer):
        def visit_Name(self, n):
            if n.id in ren:
                n.id = ren[n.id]
            return n

        def visit_ExceptHandler(self, n):
            if n.name in ren:
                n.name = ren[n.name]
            self.generic_visit(n)
            return n
    R().visit(f)
    return ast.unparse(f)


def _stored_paths(stmts):
    out = set()
    for st in stmts:
        for n in ast.walk(st):
            tg = []
            if isinstance(n, ast.Assign):
                tg = n.targets
            elif isinstance(n, (ast.AugAssign, ast.AnnAssign)):
                tg = [n.target]
            elif isinstance(n, ast.Delete):
                tg = n.targets
            for t in tg:
                for tt in ast.walk(t):
                    b = tt
                    while isinstance(b, (ast.Subscript, ast.Starred)):
                        b = b.value
                    p = path_of(b)
                    if p:
                        out.add(p)
            if isinstance(n, ast.Call) and isinstance(n.func, ast.Attribute) and n.func.attr in ('pop', 'append', 'insert', 'remove', 'clear', 'extend'):
                p = path_of(n.func.value)
                if p:
                    out.add(p)
    return out


def path_condition(node, fn):
    """[(test expr, polarity)] of the If statements enclosing `node` inside `fn` (innermost last) that still hold at
    `node`: a condition is dropped when something it reads is stored to between the test and the node"""
    out = []
    child = node
    p = parent(node)
    stored = set()
    while p is not None and p is not fn:
        for field in ('body', 'orelse', 'finalbody'):
            b_ = getattr(p, field, None)
            if isinstance(b_, list) and child in b_:
                stored |= _stored_paths(b_[:b_.index(child)])
        if isinstance(p, ast.If):
            blk = p.body if child in p.body else (p.orelse if child in p.orelse else None)
            if blk is not None:
                fp = free_paths(p.test)
                if not any(a == b or a.startswith(b + '.') or b.startswith(a + '.') for a in fp for b in stored):
                    out.append((p.test, blk is p.body))
        elif isinstance(p, (ast.For, ast.While, ast.Try, ast.With)):
            pass
        child = p
        p = parent(p)
    out.reverse()
    return out


def current_node_var(fn, seg='seg'):
    """the name of the variable that holds the map node of the current segment in a driver loop: the receiver of the one
    `<var>.is_valid(<seg>, ...)` call (None when there is no such call or the receiver is not a plain name)"""
    rec = {c.func.value.id for c in ast.walk(fn) if isinstance(c, ast.Call) and isinstance(c.func, ast.Attribute) and c.func.attr == 'is_valid'
           and isinstance(c.func.value, ast.Name) and c.args and isinstance(c.args[0], ast.Name) and c.args[0].id == seg}
    return next(iter(rec)) if len(rec) == 1 else None


def preorder(fn):
    """{id(node): index} in source order (depth-first, fields in syntax order) - unlike line numbers this stays
    meaningful for statements that the normal form moved in from a helper"""
    idx = {}

    def w(n):
        idx[id(n)] = len(idx)
        for c in ast.iter_child_nodes(n):
            w(c)
    w(fn)
    return idx
