"""F-GUARD helpers: reads of emptiable lists / optional values must hold a must-fact."""
import ast

from .cfg import path_of, must_facts, has, mod_summaries
from . import astutil as A
from .core import AnalysisError


def class_chain(ctx, modname, clsname):
    """ClassDef of the class and of its bases defined in the same module (most derived first)."""
    m = ctx.mod(modname)
    byname = {n.name: n for n in m.tree.body if isinstance(n, ast.ClassDef)}
    out = []
    cur = byname.get(clsname)
    if cur is None:
        raise AnalysisError('class %s.%s vanished' % (modname, clsname))
    while cur is not None:
        out.append(cur)
        nxt = None
        for b in cur.bases:
            bn = path_of(b)
            if bn and bn.split('.')[-1] in byname and byname[bn.split('.')[-1]] not in out:
                nxt = byname[bn.split('.')[-1]]
                break
        cur = nxt
    return out


def emptiable_attrs(classes):
    """self attributes assigned `[]` (or list()) anywhere in the class chain"""
    out = set()
    for c in classes:
        for n in ast.walk(c):
            if isinstance(n, ast.Assign):
                for t in n.targets:
                    p = path_of(t)
                    if p and p.startswith('self.') and p.count('.') == 1:
                        v = n.value
                        if (isinstance(v, ast.List) and not v.elts) or (isinstance(v, ast.Call) and path_of(v.func) == 'list' and not v.args):
                            out.add(p.split('.')[1])
    return out


def optional_attrs(classes):
    """self attributes assigned None in an __init__ of the chain"""
    out = set()
    for c in classes:
        for f in c.body:
            if isinstance(f, ast.FunctionDef) and f.name == '__init__':
                for n in ast.walk(f):
                    if isinstance(n, ast.Assign) and isinstance(n.value, ast.Constant) and n.value.value is None:
                        for t in n.targets:
                            p = path_of(t)
                            if p and p.startswith('self.') and p.count('.') == 1:
                                out.add(p.split('.')[1])
    return out


def top_reads(g, node, paths):
    """(sub-ast, path, kind) for reads of the top/bottom of a list at this CFG node:
    p[-1], p[0], p[k], del p[-1], p.pop()"""
    a = node.ast
    if a is None:
        return
    if node.kind in ('handler', 'for') and not isinstance(a, ast.expr):
        return
    stmt_is_del = isinstance(a, ast.Delete)
    for x in g.walk_exprs(node):
        if isinstance(x, ast.Subscript):
            p = path_of(x.value)
            if p in paths:
                idx = x.slice
                if isinstance(idx, ast.UnaryOp) and isinstance(idx.op, ast.USub) and isinstance(idx.operand, ast.Constant):
                    yield x, p, 'del' if stmt_is_del and isinstance(x.ctx, ast.Del) else 'read'
                elif isinstance(idx, ast.Constant) and isinstance(idx.value, int):
                    yield x, p, 'del' if stmt_is_del and isinstance(x.ctx, ast.Del) else 'read'
        elif isinstance(x, ast.Call) and isinstance(x.func, ast.Attribute) and x.func.attr == 'pop' and not x.args:
            p = path_of(x.func.value)
            if p in paths:
                yield x, p, 'pop'


def nonempty_obligations(ctx, fn, classes, attrs=None):
    """yield (subnode, path, kind, guarded) for every top/bottom read of an emptiable self attribute in fn"""
    g = ctx.cfg(fn)
    ms = mod_summaries(classes)
    IN = must_facts(g, ms)
    em = attrs if attrs is not None else emptiable_attrs(classes)
    paths = {'self.' + a for a in em}
    for nd in g.nodes:
        if nd.kind in ('entry', 'exit', 'raise_exit'):
            continue
        for sub, p, kind in top_reads(g, nd, paths):
            facts = IN[nd.id]
            if facts is None:
                continue   # unreachable code
            yield nd, sub, p, kind, has(facts, 'NonEmpty', p)


def deref_sites(g, node, paths):
    """attribute loads / method calls on an optional access path at this node: p.attr"""
    for x in g.walk_exprs(node):
        if isinstance(x, ast.Attribute) and isinstance(x.ctx, ast.Load):
            p = path_of(x.value)
            if p in paths:
                yield x, p
