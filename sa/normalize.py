"""Normal form of the analysed program.

The rules recognise structure (tests, stores, calls) in the source.  A behaviour-preserving rewrite - a hoisted local,
an extracted private helper, `not a == b` for `a != b`, a reordered membership tuple - must not change any verdict, so
every module is brought into a normal form BEFORE the rules look at it:

 N1  expression canonicalisation:  not (a OP b) -> a OP' b ;  CONST + x -> x + CONST ;  constant membership tuples sorted
 N2  helper inlining: a function that is NOT part of the reference function list (sa/baseline_funcs.json, the functions
     the rules were confirmed against) and is called from the same module is expanded at its call sites
     (expression-bodied helpers anywhere, statement helpers at statement level with tail-return conversion)
 N3  copy propagation: a local that is assigned exactly once from a pure expression is replaced by that expression at
     every use that the definition dominates and that no write to one of the expression's inputs can reach

All three are semantics-preserving for the program fragments they apply to (purity is decided by an explicit whitelist;
anything else is left alone), line numbers of the original nodes are kept.  What was rewritten is counted in the
evidence (`normalisation`).
"""
import ast
import copy
import json
import os

from . import cfg as C


def clone(n):
    """structural copy of an AST (fields and positions only; no foreign attributes such as parent links)"""
    if isinstance(n, list):
        return [clone(x) for x in n]
    if not isinstance(n, ast.AST):
        return n
    if isinstance(n, (ast.expr_context, ast.operator, ast.unaryop, ast.boolop, ast.cmpop)):
        return n
    new = type(n)()
    for f in n._fields:
        if hasattr(n, f):
            setattr(new, f, clone(getattr(n, f)))
    for a in ('lineno', 'col_offset', 'end_lineno', 'end_col_offset'):
        if hasattr(n, a):
            setattr(new, a, getattr(n, a))
    return new

# calls that neither change state nor depend on anything but their receiver and arguments.  Deliberately short: only
# results of these are propagated (N3) and only these are not counted as writes to their receiver/arguments.
PURE_FUNCS = {'len', 'int', 'str', 'min', 'max', 'abs', 'bool', 'repr', 'isinstance', 'format', 'tuple', 'sorted'}
PURE_METHODS = {'get_value', 'get_seg_id', 'strip', 'rstrip', 'lstrip', 'upper', 'lower', 'format', 'startswith',
                'endswith', 'count', 'find', '_int', 'get_path', 'is_empty', 'is_seg_id_valid', 'split', 'join',
                'get_term', 'keys', 'values', 'items', 'get_child_count', 'get_count', 'get_max_repeat'}
# reads that are not propagated but are known not to write (used only to limit what counts as a write)
READONLY_METHODS = PURE_METHODS | {'get', 'group', 'groups', 'match', 'search', 'fullmatch', 'get_parent',
                                   'get_child_count', 'get_child_node_by_idx', 'ele_len', 'is_composite', 'is_element',
                                   'isdigit', 'isalpha', 'replace', 'index', 'rfind', 'get_max_repeat', 'get_usage',
                                   'is_loop', 'is_segment', 'is_map_root', 'is_first_seg_in_loop', 'get_error_count',
                                   'findtext', 'copy', 'is_match', 'is_valid_code', 'get_name', 'debug', 'info',
                                   'warning', 'error', 'title', 'zfill', 'encode', 'decode', 'isspace'}

# what a getter reads of its receiver (anything else about the receiver may change without affecting its result)
GETTER_READS = {'get_child_count': ('children',), 'get_seg_id': ('seg_id',), 'is_seg_id_valid': ('seg_id',)}

_NEG = {ast.Eq: ast.NotEq, ast.NotEq: ast.Eq, ast.In: ast.NotIn, ast.NotIn: ast.In, ast.Is: ast.IsNot,
        ast.IsNot: ast.Is, ast.Lt: ast.GtE, ast.GtE: ast.Lt, ast.Gt: ast.LtE, ast.LtE: ast.Gt}


# ---------------------------------------------------------------------------
# N1 canonical expressions
# ---------------------------------------------------------------------------

def _may_raise_expr(e):
    """conservative: anything but constants, names, attributes of names and empty displays may raise"""
    if isinstance(e, (ast.Constant, ast.Name)):
        return False
    if isinstance(e, (ast.List, ast.Tuple)) and not e.elts:
        return False
    if isinstance(e, ast.Attribute) and isinstance(e.value, ast.Name) and e.value.id == 'self':
        return False
    return True


class _Canon(ast.NodeTransformer):
    def __init__(self, stats):
        self.stats = stats

    def visit_UnaryOp(self, n):
        self.generic_visit(n)
        if isinstance(n.op, ast.Not) and isinstance(n.operand, ast.Compare) and len(n.operand.ops) == 1 \
                and type(n.operand.ops[0]) in _NEG:
            c = n.operand
            new = ast.Compare(left=c.left, ops=[_NEG[type(c.ops[0])]()], comparators=c.comparators)
            self.stats['canon_not_compare'] = self.stats.get('canon_not_compare', 0) + 1
            return ast.copy_location(new, n)
        # De Morgan over comparisons:  not (a == x and b == y)  ->  a != x or b != y   (same evaluation order, same short circuit)
        if isinstance(n.op, ast.Not) and isinstance(n.operand, ast.BoolOp) and len(n.operand.values) >= 2 and all(
                (isinstance(v, ast.Compare) and len(v.ops) == 1 and type(v.ops[0]) in _NEG)
                or (isinstance(v, ast.UnaryOp) and isinstance(v.op, ast.Not)) for v in n.operand.values):
            vals = []
            for v in n.operand.values:
                if isinstance(v, ast.Compare):
                    vals.append(ast.copy_location(ast.Compare(left=v.left, ops=[_NEG[type(v.ops[0])]()], comparators=v.comparators), v))
                else:
                    vals.append(v.operand)
            new = ast.BoolOp(op=ast.Or() if isinstance(n.operand.op, ast.And) else ast.And(), values=vals)
            self.stats['canon_de_morgan'] = self.stats.get('canon_de_morgan', 0) + 1
            return ast.copy_location(new, n)
        return n

    def visit_Call(self, n):
        self.generic_visit(n)
        # 'literal {a}'.format(a=x, b=y)  ->  'literal {a}'.format(a=x)    (a pure keyword the template does not mention)
        if isinstance(n.func, ast.Attribute) and n.func.attr == 'format' and isinstance(n.func.value, ast.Constant) and isinstance(n.func.value.value, str) \
                and n.keywords and all(k.arg is not None for k in n.keywords):
            import string as _string
            try:
                parts_ = list(_string.Formatter().parse(n.func.value.value))
                named = None if any(_s and '{' in _s for _l, f_, _s, _c in parts_) else {f_.split('.')[0].split('[')[0] for _l, f_, _s, _c in parts_ if f_}
            except ValueError:
                named = None
            if named is not None:
                keep = [k for k in n.keywords if k.arg in named or not is_pure(k.value)]
                if len(keep) != len(n.keywords):
                    self.stats['canon_format_unused_kw'] = self.stats.get('canon_format_unused_kw', 0) + 1
                    n.keywords = keep
        # 'SEP'.join([a, b, c])  ->  a + 'SEP' + b + 'SEP' + c      (a literal list of pieces written as one text)
        if isinstance(n.func, ast.Attribute) and n.func.attr == 'join' and isinstance(n.func.value, ast.Constant) and isinstance(n.func.value.value, str) \
                and len(n.args) == 1 and not n.keywords and isinstance(n.args[0], (ast.List, ast.Tuple)) and 1 <= len(n.args[0].elts) <= 40 \
                and not any(isinstance(x_, ast.Starred) for x_ in n.args[0].elts):
            sep = n.func.value.value
            out = None
            for x_ in n.args[0].elts:
                if out is None:
                    out = x_
                else:
                    if sep:
                        out = ast.copy_location(ast.BinOp(left=out, op=ast.Add(), right=ast.Constant(value=sep)), n)
                    out = ast.copy_location(ast.BinOp(left=out, op=ast.Add(), right=x_), n)
            self.stats['canon_join_literal'] = self.stats.get('canon_join_literal', 0) + 1
            return ast.copy_location(out, n)
        # (lambda a, b: E)(x, y)  ->  E[a := x, b := y]   for pure arguments
        if isinstance(n.func, ast.Lambda) and not n.keywords and not n.func.args.defaults and not n.func.args.vararg and not n.func.args.kwarg \
                and not n.func.args.kwonlyargs and len(n.func.args.args) == len(n.args) and all(is_pure(a) and not isinstance(a, ast.Starred) for a in n.args):
            amap = {p_.arg: a for p_, a in zip(n.func.args.args, n.args)}

            class B(ast.NodeTransformer):
                def visit_Name(self, nm):
                    if nm.id in amap and isinstance(nm.ctx, ast.Load):
                        return ast.copy_location(clone(amap[nm.id]), nm)
                    return nm

                def visit_Lambda(self, inner):
                    return inner
            self.stats['canon_beta'] = self.stats.get('canon_beta', 0) + 1
            return ast.copy_location(B().visit(clone(n.func.body)), n)
        # getattr(obj, 'name')  ->  obj.name
        if isinstance(n.func, ast.Name) and n.func.id == 'getattr' and len(n.args) == 2 and not n.keywords \
                and isinstance(n.args[1], ast.Constant) and isinstance(n.args[1].value, str) and n.args[1].value.isidentifier():
            self.stats['getattr_const'] = self.stats.get('getattr_const', 0) + 1
            return ast.copy_location(ast.Attribute(value=n.args[0], attr=n.args[1].value, ctx=ast.Load()), n)
        if any(isinstance(a, ast.Starred) and isinstance(a.value, (ast.Tuple, ast.List)) for a in n.args):
            args = []
            for a in n.args:
                if isinstance(a, ast.Starred) and isinstance(a.value, (ast.Tuple, ast.List)):
                    args.extend(a.value.elts)
                else:
                    args.append(a)
            n.args = args
            self.stats['canon_unstar'] = self.stats.get('canon_unstar', 0) + 1
        return n

    def _fold_percent(self, n):
        """'%s*%i*%s' % ('GE', a, b)  ->  'GE*%i*%s' % (a, b): constant string arguments of plain %s fields are
        written into the template"""
        import re as _re
        if not (isinstance(n.op, ast.Mod) and isinstance(n.left, ast.Constant) and isinstance(n.left.value, str)
                and isinstance(n.right, ast.Tuple)):
            return n
        parts = _re.split(r'(%%|%[-#0 +]*[0-9*]*(?:\.[0-9*]+)?[a-zA-Z])', n.left.value)
        specs = [p_ for p_ in parts if p_.startswith('%') and p_ != '%%' and len(p_) > 1]
        if len(specs) != len(n.right.elts):
            return n
        out, args, k, folded = [], [], 0, 0
        for p_ in parts:
            if p_.startswith('%') and p_ != '%%' and len(p_) > 1:
                a = n.right.elts[k]
                k += 1
                if p_ == '%s' and isinstance(a, ast.Constant) and isinstance(a.value, str):
                    out.append(a.value.replace('%', '%%'))
                    folded += 1
                else:
                    out.append(p_)
                    args.append(a)
            else:
                out.append(p_)
        if not folded or not args:
            return n
        n.left = ast.copy_location(ast.Constant(value=''.join(out)), n.left)
        n.right = ast.copy_location(ast.Tuple(elts=args, ctx=ast.Load()), n.right)
        self.stats['canon_fold_percent'] = self.stats.get('canon_fold_percent', 0) + 1
        return n

    def visit_BinOp(self, n):
        self.generic_visit(n)
        # x + 0  ->  x   (an offset column of a constant table)
        if isinstance(n.op, ast.Add):
            for a_, b_ in ((n.left, n.right), (n.right, n.left)):
                if isinstance(b_, ast.Constant) and type(b_.value) is int and b_.value == 0 and not isinstance(a_, ast.Constant):
                    self.stats['canon_plus_zero'] = self.stats.get('canon_plus_zero', 0) + 1
                    return a_
        n = self._fold_percent(n)
        # ('20' if c else '19') + x   ->   '20' + x if c else '19' + x     (a constant prefix chosen by a test: one reading)
        if isinstance(n.op, ast.Add) and isinstance(n.left, ast.IfExp) and isinstance(n.left.body, ast.Constant) and isinstance(n.left.orelse, ast.Constant) \
                and isinstance(n.left.body.value, str) and isinstance(n.left.orelse.value, str) and isinstance(n.right, ast.Name):
            self.stats['canon_distribute_prefix'] = self.stats.get('canon_distribute_prefix', 0) + 1
            return ast.copy_location(ast.IfExp(test=n.left.test,
                                               body=ast.copy_location(ast.BinOp(left=n.left.body, op=ast.Add(), right=clone(n.right)), n),
                                               orelse=ast.copy_location(ast.BinOp(left=n.left.orelse, op=ast.Add(), right=clone(n.right)), n)), n)
        if isinstance(n.op, (ast.Add, ast.Mult)) and isinstance(n.left, ast.Constant) and type(n.left.value) is int \
                and not isinstance(n.right, ast.Constant):
            n.left, n.right = n.right, n.left
            self.stats['canon_commute'] = self.stats.get('canon_commute', 0) + 1
        return n

    def visit_Subscript(self, n):
        self.generic_visit(n)
        # (a, b, c)[1]  ->  b     (a row of a constant table after the table lookup was expanded)
        if isinstance(n.ctx, ast.Load) and isinstance(n.value, (ast.Tuple, ast.List)) and isinstance(n.slice, ast.Constant) \
                and isinstance(n.slice.value, int) and not isinstance(n.slice.value, bool) \
                and -len(n.value.elts) <= n.slice.value < len(n.value.elts) and all(is_pure(e) for e in n.value.elts) \
                and not any(isinstance(e, ast.Starred) for e in n.value.elts):
            self.stats['canon_const_index'] = self.stats.get('canon_const_index', 0) + 1
            return n.value.elts[n.slice.value]
        return n

    def _expand_comp(self, n):
        """(E(x) for x in (a, b, c))  ->  (E(a), E(b), E(c))   for a short literal of pure items, no filter"""
        if len(n.generators) != 1 or n.generators[0].ifs or n.generators[0].is_async:
            return n
        g = n.generators[0]
        if not isinstance(g.iter, (ast.Tuple, ast.List)) or not (1 <= len(g.iter.elts) <= 8) or not isinstance(g.target, ast.Name):
            return n
        if not all(isinstance(e, ast.Constant) for e in g.iter.elts):
            return n
        var = g.target.id
        if any(isinstance(x, ast.Name) and x.id == var and isinstance(x.ctx, ast.Store) for x in ast.walk(n.elt)):
            return n
        elts = []
        for e in g.iter.elts:
            class S(ast.NodeTransformer):
                def visit_Name(self, nm, e=e):
                    if nm.id == var and isinstance(nm.ctx, ast.Load):
                        return ast.copy_location(clone(e), nm)
                    return nm
            elts.append(S().visit(clone(n.elt)))
        self.stats['canon_comp_expanded'] = self.stats.get('canon_comp_expanded', 0) + 1
        new = ast.Tuple(elts=elts, ctx=ast.Load()) if isinstance(n, ast.GeneratorExp) else ast.List(elts=elts, ctx=ast.Load())
        return self.visit(ast.copy_location(new, n))

    def visit_GeneratorExp(self, n):
        self.generic_visit(n)
        return self._expand_comp(n)

    def visit_ListComp(self, n):
        self.generic_visit(n)
        return self._expand_comp(n)

    def visit_IfExp(self, n):
        self.generic_visit(n)
        # a conditional expression whose test is a literal (left behind by inlining a helper called with a constant flag)
        if isinstance(n.test, ast.Constant):
            self.stats['canon_const_ifexp'] = self.stats.get('canon_const_ifexp', 0) + 1
            return n.body if n.test.value else n.orelse
        return n

    def visit_Expr(self, n):
        self.generic_visit(n)
        # setattr(obj, 'name', v)  ->  obj.name = v
        c = n.value
        if isinstance(c, ast.Call) and isinstance(c.func, ast.Name) and c.func.id == 'setattr' and len(c.args) == 3 and not c.keywords \
                and isinstance(c.args[1], ast.Constant) and isinstance(c.args[1].value, str) and c.args[1].value.isidentifier():
            self.stats['setattr_const'] = self.stats.get('setattr_const', 0) + 1
            new = ast.Assign(targets=[ast.Attribute(value=c.args[0], attr=c.args[1].value, ctx=ast.Store())], value=c.args[2])
            return ast.copy_location(new, n)
        return n

    def visit_Assign(self, n):
        self.generic_visit(n)
        # (a, b) = (x, y)  ->  a = x; b = y   when no target name is read on the right-hand side
        if len(n.targets) == 1 and isinstance(n.targets[0], (ast.Tuple, ast.List)) and isinstance(n.value, (ast.Tuple, ast.List)) \
                and len(n.targets[0].elts) == len(n.value.elts) and all(isinstance(t, ast.Name) for t in n.targets[0].elts) \
                and not any(isinstance(e, ast.Starred) for e in n.value.elts):
            tn = {t.id for t in n.targets[0].elts}
            if not any(isinstance(x, ast.Name) and x.id in tn for e in n.value.elts for x in ast.walk(e)) and len(tn) == len(n.targets[0].elts):
                self.stats['canon_unpack_literal'] = self.stats.get('canon_unpack_literal', 0) + 1
                return [ast.copy_location(ast.Assign(targets=[ast.Name(id=t.id, ctx=ast.Store())], value=e), n) for t, e in zip(n.targets[0].elts, n.value.elts)]
        # the same with attributes of self among the targets: (self.a, b) = (x, y)  ->  self.a = x; b = y  when the later
        # values are plain reads (no call, no subscript) of something no earlier target stores
        if len(n.targets) == 1 and isinstance(n.targets[0], (ast.Tuple, ast.List)) and isinstance(n.value, (ast.Tuple, ast.List)) \
                and len(n.targets[0].elts) == len(n.value.elts) and not any(isinstance(e, ast.Starred) for e in n.value.elts):
            def tpath(t):
                if isinstance(t, ast.Name):
                    return t.id
                if isinstance(t, ast.Attribute) and isinstance(t.value, ast.Name) and t.value.id == 'self':
                    return 'self.' + t.attr
                return None

            def plain(e):
                return isinstance(e, ast.Constant) or isinstance(e, ast.Name) or (isinstance(e, (ast.List, ast.Tuple)) and not e.elts) \
                    or (isinstance(e, ast.Attribute) and isinstance(e.value, ast.Name) and e.value.id == 'self')
            tps = [tpath(t) for t in n.targets[0].elts]
            vals = n.value.elts
            if all(tps) and len(set(tps)) == len(tps) and all(plain(e) for e in vals[1:]) and not _may_raise_expr(vals[0]):
                reads_ok = True
                for j, e in enumerate(vals):
                    rp = tpath(e) if isinstance(e, (ast.Name, ast.Attribute)) else None
                    if rp is not None and rp in tps[:j]:
                        reads_ok = False
                if reads_ok and 'self' not in tps:
                    self.stats['canon_unpack_literal'] = self.stats.get('canon_unpack_literal', 0) + 1
                    import copy as _copy
                    return [ast.copy_location(ast.Assign(targets=[_copy.deepcopy(t)], value=e), n) for t, e in zip(n.targets[0].elts, vals)]
        # a = b = <constant>  ->  a = <constant>; b = <constant>
        if len(n.targets) > 1 and isinstance(n.value, ast.Constant) and isinstance(n.value.value, (int, str, bool, type(None), float, bytes)) \
                and all(isinstance(t, ast.Name) or (isinstance(t, ast.Attribute) and isinstance(t.value, ast.Name)) for t in n.targets):
            self.stats['canon_chained_constant'] = self.stats.get('canon_chained_constant', 0) + 1
            return [ast.copy_location(ast.Assign(targets=[t], value=ast.copy_location(ast.Constant(value=n.value.value), n.value)), n) for t in n.targets]
        return n

    def visit_If(self, n):
        self.generic_visit(n)
        # a test that is a literal (left behind by unrolling / inlining with constant arguments): keep the live arm
        if isinstance(n.test, ast.Constant) and isinstance(n.test.value, (bool, int, str, type(None))):
            self.stats['canon_const_if'] = self.stats.get('canon_const_if', 0) + 1
            live = n.body if n.test.value else n.orelse
            return live if live else ast.copy_location(ast.Pass(), n)
        # a literal tuple / list as a test is decided by its length (its items are pure)
        if isinstance(n.test, (ast.Tuple, ast.List)) and all(is_pure(e) and not isinstance(e, ast.Starred) for e in n.test.elts):
            self.stats['canon_const_if'] = self.stats.get('canon_const_if', 0) + 1
            live = n.body if n.test.elts else n.orelse
            return live if live else ast.copy_location(ast.Pass(), n)
        # if not not c:  ->  if c:   (only the truth value of a test is used)
        while isinstance(n.test, ast.UnaryOp) and isinstance(n.test.op, ast.Not) and isinstance(n.test.operand, ast.UnaryOp) \
                and isinstance(n.test.operand.op, ast.Not):
            n.test = n.test.operand.operand
            self.stats['canon_not_not'] = self.stats.get('canon_not_not', 0) + 1
        # else: pass   ->   (no else)
        if n.orelse and all(isinstance(x, ast.Pass) for x in n.orelse) and not all(isinstance(x, ast.Pass) for x in n.body):
            n.orelse = []
        # if c: pass else: B   ->   if not c: B
        if n.orelse and all(isinstance(x, ast.Pass) for x in n.body):
            if isinstance(n.test, ast.UnaryOp) and isinstance(n.test.op, ast.Not):
                n.test = n.test.operand
            else:
                neg = ast.UnaryOp(op=ast.Not(), operand=n.test)
                ast.copy_location(neg, n.test)
                n.test = self.visit(neg)
            n.body, n.orelse = n.orelse, []
            self.stats['canon_if_pass_else'] = self.stats.get('canon_if_pass_else', 0) + 1
            return n
        # a pure guard around a dispatch chain on one key (no else anywhere):
        #     if G:                                   if G and K == 'a': A
        #         if K == 'a': A            ->        elif G and K == 'b': B
        #         elif K == 'b': B
        if len(n.body) == 1 and isinstance(n.body[0], ast.If) and is_pure(n.test) and not isinstance(n.test, ast.Compare):
            arms, cur, keys = [], n.body[0], set()
            final_else = []
            while True:
                t = cur.test
                if not (isinstance(t, ast.Compare) and len(t.ops) == 1 and isinstance(t.ops[0], ast.Eq) and isinstance(t.comparators[0], ast.Constant)
                        and isinstance(t.comparators[0].value, str) and is_pure(t.left)):
                    arms = None
                    break
                keys.add(_unparse(t.left))
                arms.append(cur)
                if len(cur.orelse) == 1 and isinstance(cur.orelse[0], ast.If):
                    cur = cur.orelse[0]
                elif cur.orelse:
                    # (with an else: the guard's own else must be the same statements - then every way out of the chain
                    # and out of the guard ends in them)
                    final_else = cur.orelse
                    break
                else:
                    break
            if arms is not None and (bool(final_else) != bool(n.orelse) or (final_else and
                                     [ast.dump(x_) for x_ in final_else] != [ast.dump(x_) for x_ in n.orelse])):
                arms = None
            if arms and len(arms) >= 2 and len(keys) == 1:
                for a_ in arms:
                    a_.test = ast.copy_location(ast.BoolOp(op=ast.And(), values=[clone(n.test), a_.test]), a_.test)
                self.stats['canon_guard_distributed'] = self.stats.get('canon_guard_distributed', 0) + 1
                return ast.copy_location(arms[0], n)
        # if not c: A else: B   ->   if c: B else: A     (an elif chain in the else arm is left alone)
        if isinstance(n.test, ast.UnaryOp) and isinstance(n.test.op, ast.Not) and n.orelse \
                and not (len(n.orelse) == 1 and isinstance(n.orelse[0], ast.If)):
            n.test = n.test.operand
            n.body, n.orelse = n.orelse, n.body
            self.stats['canon_if_not_else'] = self.stats.get('canon_if_not_else', 0) + 1
        return n

    def _iter_keys(self, it):
        # iterating d.keys() is iterating d
        if isinstance(it, ast.Call) and isinstance(it.func, ast.Attribute) and it.func.attr == 'keys' and not it.args and not it.keywords:
            self.stats['canon_iter_keys'] = self.stats.get('canon_iter_keys', 0) + 1
            return it.func.value
        return it

    def visit_For(self, n):
        self.generic_visit(n)
        n.iter = self._iter_keys(n.iter)
        return n

    def visit_comprehension(self, n):
        self.generic_visit(n)
        n.iter = self._iter_keys(n.iter)
        return n

    def visit_Compare(self, n):
        self.generic_visit(n)
        if len(n.ops) == 1 and isinstance(n.ops[0], (ast.In, ast.NotIn)) and isinstance(n.comparators[0], ast.Call) \
                and isinstance(n.comparators[0].func, ast.Attribute) and n.comparators[0].func.attr == 'keys' \
                and not n.comparators[0].args:
            n.comparators[0] = n.comparators[0].func.value
        if len(n.ops) == 1 and isinstance(n.ops[0], (ast.In, ast.NotIn)) and isinstance(n.comparators[0], (ast.Tuple, ast.List)):
            t = n.comparators[0]
            if t.elts and all(isinstance(e, ast.Constant) and type(e.value) is str for e in t.elts):
                srt = sorted(t.elts, key=lambda e: e.value)
                if [e.value for e in srt] != [e.value for e in t.elts]:
                    t.elts = srt
                    self.stats['canon_member_order'] = self.stats.get('canon_member_order', 0) + 1
        return n


# ---------------------------------------------------------------------------
# purity
# ---------------------------------------------------------------------------

def is_pure(e):
    if isinstance(e, (ast.Constant, ast.Name)):
        return True
    if isinstance(e, ast.Lambda):
        return True      # (creating the function object has no effect; it is applied elsewhere)
    if isinstance(e, ast.Attribute):
        return is_pure(e.value)
    if isinstance(e, ast.Subscript):
        return is_pure(e.value) and is_pure(e.slice)
    if isinstance(e, ast.Slice):
        return all(x is None or is_pure(x) for x in (e.lower, e.upper, e.step))
    if isinstance(e, ast.BinOp):
        return is_pure(e.left) and is_pure(e.right)
    if isinstance(e, ast.UnaryOp):
        return is_pure(e.operand)
    if isinstance(e, ast.BoolOp):
        return all(is_pure(v) for v in e.values)
    if isinstance(e, ast.Compare):
        return is_pure(e.left) and all(is_pure(c) for c in e.comparators)
    if isinstance(e, ast.IfExp):
        return is_pure(e.test) and is_pure(e.body) and is_pure(e.orelse)
    if isinstance(e, ast.Tuple):
        return all(is_pure(x) for x in e.elts)
    if isinstance(e, ast.JoinedStr):
        return all(is_pure(v) for v in e.values)
    if isinstance(e, ast.FormattedValue):
        return is_pure(e.value) and (e.format_spec is None or is_pure(e.format_spec))
    if isinstance(e, ast.Call):
        if any(isinstance(a, ast.Starred) for a in e.args) or any(k.arg is None for k in e.keywords):
            return False
        okf = (isinstance(e.func, ast.Name) and e.func.id in PURE_FUNCS) or \
              (isinstance(e.func, ast.Attribute) and e.func.attr in PURE_METHODS and is_pure(e.func.value))
        return okf and all(is_pure(a) for a in e.args) and all(is_pure(k.value) for k in e.keywords)
    return False


def input_paths(e):
    """access paths read by a pure expression (names, attribute chains; a subscripted or called path counts as its base)"""
    out = set()

    def w(n):
        p = C.path_of(n)
        if p and not isinstance(n, ast.Call):
            out.add(p)
            return
        if isinstance(n, ast.Call):
            if isinstance(n.func, ast.Attribute):
                rp = C.path_of(n.func.value)
                if rp and n.func.attr in GETTER_READS:
                    for fld in GETTER_READS[n.func.attr]:
                        out.add(rp + '.' + fld)
                else:
                    w(n.func.value)
            for a in n.args:
                w(a)
            for k in n.keywords:
                w(k.value)
            return
        for c in ast.iter_child_nodes(n):
            w(c)
    w(e)
    return out


def _writes(node, modsum):
    """paths (prefixes) that may change at this CFG node - a superset of cfg.kills: any call of a method that is not
    whitelisted as pure counts as a write to its receiver, any non-pure call as a write to every path it is given"""
    k = set(C.kills(node, modsum))
    a = node.ast
    if a is None or node.kind in ('handler',):
        return k
    if isinstance(a, ast.withitem):
        a = a.context_expr
    for n in ast.walk(a):
        if not isinstance(n, ast.Call):
            continue
        pure_call = (isinstance(n.func, ast.Name) and n.func.id in PURE_FUNCS) or \
                    (isinstance(n.func, ast.Attribute) and n.func.attr in READONLY_METHODS)
        if pure_call:
            continue
        if isinstance(n.func, ast.Attribute):
            p = C.path_of(n.func.value)
            if p:
                if p == 'self':
                    if modsum is not None and n.func.attr in modsum:
                        for attr in modsum[n.func.attr]:
                            k.add('self.' + attr)
                    else:
                        k.add('self')
                else:
                    k.add(p)
        for arg in list(n.args) + [kw.value for kw in n.keywords]:
            p = C.path_of(arg)
            if p and p != 'self':
                k.add(p)
            elif p == 'self':
                k.add('self')
    return k


def _hits(write, path):
    """does a write to `write` invalidate a value read through `path`?"""
    return path == write or path.startswith(write + '.') or write.startswith(path + '.')


# ---------------------------------------------------------------------------
# N3 copy propagation
# ---------------------------------------------------------------------------

def _store_counts(fn):
    cnt = {}
    bad = set()
    for a in fn.args.args + fn.args.kwonlyargs + fn.args.posonlyargs:
        bad.add(a.arg)
    if fn.args.vararg:
        bad.add(fn.args.vararg.arg)
    if fn.args.kwarg:
        bad.add(fn.args.kwarg.arg)

    def walk(n, top):
        for c in ast.iter_child_nodes(n):
            if isinstance(c, (ast.FunctionDef, ast.AsyncFunctionDef, ast.Lambda, ast.ClassDef)) and not top:
                # names stored in nested scopes: treat any same-named outer variable as not propagatable
                for x in ast.walk(c):
                    if isinstance(x, ast.Name):
                        bad.add(x.id)
                continue
            if isinstance(c, (ast.Global, ast.Nonlocal)):
                bad.update(c.names)
            if isinstance(c, ast.Name) and isinstance(c.ctx, (ast.Store, ast.Del)):
                cnt[c.id] = cnt.get(c.id, 0) + 1
            if isinstance(c, ast.ExceptHandler) and c.name:
                cnt[c.name] = cnt.get(c.name, 0) + 2
            if isinstance(c, (ast.ListComp, ast.SetComp, ast.DictComp, ast.GeneratorExp)):
                for g in c.generators:
                    for x in ast.walk(g.target):
                        if isinstance(x, ast.Name):
                            bad.add(x.id)
            walk(c, False)
    walk(fn, True)
    return cnt, bad


def _candidates(fn, cnt, bad):
    """[(name, rhs expression, defining statement)] for single-assignment locals with a pure right-hand side"""
    out = []
    for s in ast.walk(fn):
        if isinstance(s, (ast.FunctionDef, ast.Lambda)) and s is not fn:
            continue
        if not isinstance(s, ast.Assign) or len(s.targets) != 1:
            continue
        t = s.targets[0]
        if isinstance(t, ast.Name):
            if cnt.get(t.id) == 1 and t.id not in bad and is_pure(s.value) and t.id not in input_paths(s.value):
                out.append((t.id, s.value, s))
        elif isinstance(t, ast.Tuple) and all(isinstance(x, ast.Name) for x in t.elts):
            v = s.value
            if isinstance(v, ast.Tuple) and len(v.elts) == len(t.elts) and all(is_pure(x) for x in v.elts):
                names = {x.id for x in t.elts}
                if any(names & input_paths(x) for x in v.elts):
                    continue
                for x, e in zip(t.elts, v.elts):
                    if cnt.get(x.id) == 1 and x.id not in bad:
                        out.append((x.id, e, s))
            elif C.path_of(v) or (isinstance(v, ast.Subscript) and is_pure(v)):
                # (a, b) = self.loops[-1]   ->   a := self.loops[-1][0]
                for i, x in enumerate(t.elts):
                    if cnt.get(x.id) == 1 and x.id not in bad:
                        e = ast.Subscript(value=clone(v), slice=ast.Constant(value=i), ctx=ast.Load())
                        ast.copy_location(e, v)
                        ast.fix_missing_locations(e)
                        out.append((x.id, e, s))
    return out


class _Subst(ast.NodeTransformer):
    def __init__(self, allowed):
        self.allowed = allowed     # id(Name node) -> expression
        self.n = 0

    def visit_Name(self, n):
        e = self.allowed.get(id(n))
        if e is None:
            return n
        new = clone(e)
        for x in ast.walk(new):
            if hasattr(x, 'lineno'):
                x.lineno = n.lineno
                x.end_lineno = getattr(n, 'end_lineno', n.lineno)
                x.col_offset = n.col_offset
                x.end_col_offset = getattr(n, 'end_col_offset', n.col_offset)
        self.n += 1
        return new

    def visit_Lambda(self, n):
        return n

    def visit_FunctionDef(self, n):
        if getattr(self, '_top', None) is None:
            self._top = n
            self.generic_visit(n)
            return n
        return n


def _may_raise(e):
    """can evaluating this (pure) expression raise?  anything beyond names, constants and displays of them can"""
    for x in ast.walk(e):
        if isinstance(x, (ast.Attribute, ast.Subscript, ast.Call, ast.BinOp, ast.UnaryOp, ast.Compare, ast.JoinedStr, ast.IfExp, ast.BoolOp)):
            if isinstance(x, ast.UnaryOp) and isinstance(x.op, ast.Not):
                continue
            return True
    return False


def _in_try_body(fn, stmt):
    for t in ast.walk(fn):
        if isinstance(t, ast.Try) and t.handlers:
            for b in t.body:
                if any(x is stmt for x in ast.walk(b)):
                    return True
    return False


def _replace_stmt(fn, old, new):
    for owner in ast.walk(fn):
        for field in ('body', 'orelse', 'finalbody'):
            blk = getattr(owner, field, None)
            if isinstance(blk, list):
                for i, s in enumerate(blk):
                    if s is old:
                        if new is None:
                            if len(blk) > 1:
                                del blk[i]
                            else:
                                blk[i] = ast.copy_location(ast.Pass(), old)
                        else:
                            blk[i] = new
                        return True
    return False


def _cand_defs(fn, bad):
    """[(name, rhs expression, defining statement)] for `name = pure expr` definitions (any number per name)"""
    out = []
    for s in ast.walk(fn):
        if isinstance(s, (ast.FunctionDef, ast.Lambda)) and s is not fn:
            continue
        if not isinstance(s, ast.Assign) or len(s.targets) != 1:
            continue
        t = s.targets[0]
        if isinstance(t, ast.Name):
            if t.id not in bad and is_pure(s.value) and t.id not in input_paths(s.value):
                out.append((t.id, s.value, s))
        elif isinstance(t, ast.Tuple) and all(isinstance(x, ast.Name) for x in t.elts):
            v = s.value
            names = {x.id for x in t.elts}
            if names & bad:
                continue
            if isinstance(v, ast.Tuple) and len(v.elts) == len(t.elts) and all(is_pure(x) for x in v.elts):
                if any(names & input_paths(x) for x in v.elts):
                    continue
                for x, e in zip(t.elts, v.elts):
                    out.append((x.id, e, s))
            elif (C.path_of(v) or (isinstance(v, ast.Subscript) and is_pure(v))) and not (names & input_paths(v)):
                # (a, b) = self.loops[-1]   ->   a := self.loops[-1][0]
                for i, x in enumerate(t.elts):
                    e = ast.Subscript(value=clone(v), slice=ast.Constant(value=i), ctx=ast.Load())
                    ast.copy_location(e, v)
                    ast.fix_missing_locations(e)
                    out.append((x.id, e, s))
    return out


def _nested_names(fn):
    """names that occur in nested scopes or are declared global/nonlocal: never propagated"""
    bad = set()

    def walk(n):
        for c in ast.iter_child_nodes(n):
            if isinstance(c, (ast.FunctionDef, ast.AsyncFunctionDef, ast.Lambda, ast.ClassDef)):
                for x in ast.walk(c):
                    if isinstance(x, ast.Name):
                        bad.add(x.id)
                continue
            if isinstance(c, (ast.Global, ast.Nonlocal)):
                bad.update(c.names)
            if isinstance(c, (ast.ListComp, ast.SetComp, ast.DictComp, ast.GeneratorExp)):
                for g in c.generators:
                    for x in ast.walk(g.target):
                        if isinstance(x, ast.Name):
                            bad.add(x.id)
            walk(c)
    walk(fn)
    return bad


def copy_propagate(fn, modsum, stats):
    """A use of a local is replaced by the pure expression it was assigned when that assignment is the ONLY definition
    reaching the use and nothing the expression reads can have been written in between."""
    for _round in range(4):
        bad = _nested_names(fn)
        cands = _cand_defs(fn, bad)
        if not cands:
            return
        g = C.CFG(fn)
        RD, DEFS = C.reaching_defs(g)
        node_of = {}
        for nd in g.nodes:
            for x in g.walk_exprs(nd):
                node_of.setdefault(id(x), nd)
            if nd.kind == 'stmt' and isinstance(nd.ast, ast.stmt):
                node_of.setdefault(id(nd.ast), nd)
        writes = {nd.id: _writes(nd, modsum) for nd in g.nodes}
        by_def = {}
        for name, rhs, stmt in cands:
            d = node_of.get(id(stmt))
            if d is not None:
                by_def[(d.id, name)] = (rhs, d)
        dirty_cache = {}

        def dirty_of(d, rhs):
            k = (d.id, id(rhs))
            if k not in dirty_cache:
                inputs = input_paths(rhs)
                killers = [nd for nd in g.nodes if nd is not d and any(_hits(w, p) for w in writes[nd.id] for p in inputs)]
                dirty = set()
                st = [s_ for k_ in killers for s_, _l in k_.succ]
                while st:
                    n = st.pop()
                    if n.id in dirty or n is d:
                        continue
                    dirty.add(n.id)
                    for s_, _l in n.succ:
                        st.append(s_)
                dirty_cache[k] = dirty
            return dirty_cache[k]
        # the try blocks a node stands in: an expression that can raise is not moved across the boundary of one
        try_ctx = {}

        def mark(n, ctxt):
            try_ctx[id(n)] = ctxt
            if isinstance(n, ast.Try):
                for fld in ('body', 'handlers', 'orelse', 'finalbody'):
                    for c in getattr(n, fld):
                        mark(c, ctxt + ((id(n), fld),))
            else:
                for c in ast.iter_child_nodes(n):
                    mark(c, ctxt)
        mark(fn, ())

        def may_raise(e):
            return any(isinstance(y, (ast.Call, ast.Subscript, ast.BinOp, ast.Attribute)) for y in ast.walk(e))
        allowed = {}
        for x in ast.walk(fn):
            if not (isinstance(x, ast.Name) and isinstance(x.ctx, ast.Load)) or x.id in bad:
                continue
            u = node_of.get(id(x))
            if u is None:
                continue
            rd = (RD.get(u.id) or {}).get(x.id)
            if not rd or len(rd) != 1:
                continue
            did = next(iter(rd))
            ent = by_def.get((did, x.id))
            if ent is None:
                continue
            rhs, d = ent
            if u is d:
                continue
            if u.id in dirty_of(d, rhs):
                continue
            if may_raise(rhs) and try_ctx.get(id(x), ()) != try_ctx.get(id(d.ast) if d.ast is not None else None, try_ctx.get(id(x), ())):
                continue
            allowed[id(x)] = rhs
        if not allowed:
            return
        sub = _Subst(allowed)
        sub.visit(fn)
        stats['copyprop_uses'] = stats.get('copyprop_uses', 0) + sub.n
        ast.fix_missing_locations(fn)
        # a definition that reaches no use any more is a dead store of a pure value: drop it
        g2 = C.CFG(fn)
        RD2, DEFS2 = C.reaching_defs(g2)
        used = set()
        for nd in g2.nodes:
            names = set()
            for x in g2.walk_exprs(nd):
                if isinstance(x, ast.Name) and isinstance(x.ctx, ast.Load):
                    names.add(x.id)
            if nd.kind == 'stmt' and isinstance(nd.ast, ast.AugAssign) and isinstance(nd.ast.target, ast.Name):
                names.add(nd.ast.target.id)
            for nm in names:
                for d_ in (RD2.get(nd.id) or {}).get(nm, ()):
                    used.add((d_, nm))
        stmt_node = {}
        for nd in g2.nodes:
            if nd.kind == 'stmt' and isinstance(nd.ast, ast.stmt):
                stmt_node[id(nd.ast)] = nd
        done = set()
        for name, _rhs, stmt in cands:
            if id(stmt) in done:
                continue
            nd = stmt_node.get(id(stmt))
            if nd is None:
                continue
            tnames = [x.id for x in ast.walk(stmt.targets[0]) if isinstance(x, ast.Name)]
            if any((nd.id, t) in used for t in tnames) or any(t in bad for t in tnames):
                continue
            done.add(id(stmt))
            keep = None
            if _may_raise(stmt.value) and _in_try_body(fn, stmt):
                # inside a try the evaluation itself is observable (`res = obj.closed` probes for AttributeError): the
                # binding goes, the evaluation stays
                keep = ast.copy_location(ast.Expr(value=stmt.value), stmt)
            if _replace_stmt(fn, stmt, keep):
                stats['copyprop_dead_defs'] = stats.get('copyprop_dead_defs', 0) + 1
        ast.fix_missing_locations(fn)


# ---------------------------------------------------------------------------
# N2 helper inlining
# ---------------------------------------------------------------------------

def _doc_stripped(body):
    if body and isinstance(body[0], ast.Expr) and isinstance(body[0].value, ast.Constant) and isinstance(body[0].value.value, str):
        return body[1:]
    return body


def _has(node_list, types):
    for s in node_list:
        for x in ast.walk(s):
            if isinstance(x, types):
                return True
    return False


def _definitely_returns(stmts):
    if not stmts:
        return False
    last = stmts[-1]
    if isinstance(last, (ast.Return, ast.Raise)):
        return True
    if isinstance(last, ast.If):
        return _definitely_returns(last.body) and bool(last.orelse) and _definitely_returns(last.orelse)
    return False


class _NotInlinable(Exception):
    pass


def _convert_returns(stmts, resvar):
    """statement list in which every `return e` (all in tail position) became `resvar = e`"""
    out = []
    for i, s in enumerate(stmts):
        if isinstance(s, ast.Return):
            v = s.value if s.value is not None else ast.Constant(value=None)
            a = ast.Assign(targets=[ast.Name(id=resvar, ctx=ast.Store())], value=v)
            out.append(ast.copy_location(a, s))
            return out
        if not _has([s], ast.Return):
            out.append(s)
            continue
        if isinstance(s, ast.If):
            rest = stmts[i + 1:]
            then = list(s.body) + ([] if _definitely_returns(s.body) else clone(rest))
            els = list(s.orelse) + ([] if (s.orelse and _definitely_returns(s.orelse)) else clone(rest))
            new = ast.If(test=s.test, body=_convert_returns(then, resvar) or [ast.Pass()],
                         orelse=_convert_returns(els, resvar))
            out.append(ast.copy_location(new, s))
            return out
        if isinstance(s, ast.Try) and not stmts[i + 1:] and not s.finalbody:
            # a try statement in tail position: every part is itself in tail position
            new = ast.Try(body=_convert_returns(list(s.body), resvar) or [ast.Pass()],
                          handlers=[ast.copy_location(ast.ExceptHandler(type=h.type, name=h.name,
                                                                         body=_convert_returns(list(h.body), resvar) or [ast.Pass()]), h)
                                    for h in s.handlers],
                          orelse=_convert_returns(list(s.orelse), resvar), finalbody=[])
            out.append(ast.copy_location(new, s))
            return out
        if isinstance(s, (ast.While, ast.For)) and not s.orelse:
            # returns from inside one loop level:  `return e`  ->  `res = e; break`, and what follows the loop runs only when
            # the loop ends without such a break - the loop's else clause
            out.append(ast.copy_location(_loop_with_returns(s, resvar, _convert_returns(clone(stmts[i + 1:]), resvar)), s))
            return out
        raise _NotInlinable('return inside %s' % type(s).__name__)
    return out


def _loop_with_returns(loop, resvar, orelse):
    def conv(stmts):
        res = []
        for st in stmts:
            if isinstance(st, ast.Return):
                v = st.value if st.value is not None else ast.Constant(value=None)
                res.append(ast.copy_location(ast.Assign(targets=[ast.Name(id=resvar, ctx=ast.Store())], value=v), st))
                res.append(ast.copy_location(ast.Break(), st))
                return res
            if isinstance(st, (ast.Break,)):
                raise _NotInlinable('break and return in one loop')
            if isinstance(st, (ast.While, ast.For, ast.FunctionDef, ast.With)):
                if _has([st], ast.Return):
                    raise _NotInlinable('return inside a nested %s' % type(st).__name__)
                res.append(st)
                continue
            if isinstance(st, ast.If):
                st = ast.copy_location(ast.If(test=st.test, body=conv(st.body) or [ast.Pass()], orelse=conv(st.orelse)), st)
            elif isinstance(st, ast.Try):
                if st.finalbody and _has(st.finalbody, ast.Return):
                    raise _NotInlinable('return in finally')
                st = ast.copy_location(ast.Try(body=conv(st.body) or [ast.Pass()],
                                               handlers=[ast.copy_location(ast.ExceptHandler(type=h.type, name=h.name, body=conv(h.body) or [ast.Pass()]), h)
                                                         for h in st.handlers],
                                               orelse=conv(st.orelse), finalbody=st.finalbody), st)
            res.append(st)
        return res
    new = clone(loop)
    new.body = conv(new.body)
    new.orelse = orelse
    return new


class _Rename(ast.NodeTransformer):
    def __init__(self, ren):
        self.ren = ren

    def visit_Name(self, n):
        if n.id in self.ren:
            return ast.copy_location(ast.Name(id=self.ren[n.id], ctx=n.ctx), n)
        return n

    def visit_ExceptHandler(self, n):
        if n.name in self.ren:
            n.name = self.ren[n.name]
        self.generic_visit(n)
        return n


class _ReplaceNode(ast.NodeTransformer):
    def __init__(self, target, new):
        self.target = target
        self.new = new
        self.done = False

    def visit(self, n):
        if n is self.target:
            self.done = True
            return self.new
        return super().visit(n)


def _bind(helper, call, is_method):
    """[(param, arg expr)] or None"""
    params = [a.arg for a in helper.args.args]
    if helper.args.kwonlyargs or helper.args.posonlyargs:
        return None
    kwarg = helper.args.kwarg.arg if helper.args.kwarg else None
    vararg = helper.args.vararg.arg if helper.args.vararg else None
    if any(isinstance(a, ast.Starred) for a in call.args) or any(k.arg is None for k in call.keywords):
        return None
    if is_method:
        if not params:
            return None
        params = params[1:]
    defaults = helper.args.defaults
    dmap = {}
    all_params = [a.arg for a in helper.args.args]
    for p, d in zip(all_params[len(all_params) - len(defaults):], defaults):
        dmap[p] = d
    bound = {}
    extra = []
    if len(call.args) > len(params):
        if vararg is None:
            return None
        extra = list(call.args[len(params):])
    for p, a in zip(params, call.args):
        bound[p] = a
    kw_extra = []
    for k in call.keywords:
        if k.arg not in params and kwarg is not None and k.arg not in bound:
            kw_extra.append(k)        # collected by **kwarg: a dict display in call order
            continue
        if k.arg not in params or k.arg in bound:
            return None
        bound[k.arg] = k.value
    out = []
    for p in params:
        if p in bound:
            out.append((p, bound[p]))
        elif p in dmap:
            out.append((p, dmap[p]))
        else:
            return None
    if vararg is not None:
        t = ast.Tuple(elts=extra, ctx=ast.Load())
        out.append((vararg, t))
    if kwarg is not None:
        out.append((kwarg, ast.Dict(keys=[ast.Constant(value=k.arg) for k in kw_extra], values=[k.value for k in kw_extra])))
    return out


def _locals_of(helper):
    names = set()
    for x in ast.walk(helper):
        if isinstance(x, ast.Name) and isinstance(x.ctx, (ast.Store, ast.Del)):
            names.add(x.id)
        if isinstance(x, ast.ExceptHandler) and x.name:
            names.add(x.name)
    for a in helper.args.args:
        names.add(a.arg)
    if helper.args.vararg:
        names.add(helper.args.vararg.arg)
    if helper.args.kwarg:
        names.add(helper.args.kwarg.arg)
    return names


class Inliner(object):
    def __init__(self, tree, new_funcs, stats):
        self.tree = tree
        self.stats = stats
        self.k = 0
        self.expanded = {}
        # name -> (FunctionDef, is_method)
        self.helpers = {}
        dup = set()
        for qual, fn, is_method in new_funcs:
            nm = fn.name
            if nm in self.helpers:
                dup.add(nm)
            self.helpers[nm] = (fn, is_method)
        for nm in dup:
            del self.helpers[nm]
        for nm in list(self.helpers):
            fn, _m = self.helpers[nm]
            static_only = all(isinstance(d, ast.Name) and d.id == 'staticmethod' for d in fn.decorator_list)
            if not static_only or _has(fn.body, (ast.Yield, ast.YieldFrom, ast.FunctionDef, ast.Lambda, ast.Global, ast.Nonlocal)):
                del self.helpers[nm]
        # a helper that (directly or through other helpers) calls itself has no finite expansion: it stays a call
        def callees(fn):
            out = set()
            for n in ast.walk(fn):
                if isinstance(n, ast.Call):
                    f = n.func
                    nm = f.attr if isinstance(f, ast.Attribute) else (f.id if isinstance(f, ast.Name) else None)
                    if nm in self.helpers:
                        out.add(nm)
            return out
        graph = {nm: callees(fn) for nm, (fn, _m) in self.helpers.items()}
        changed = True
        reach = {nm: set(v) for nm, v in graph.items()}
        while changed:
            changed = False
            for nm in reach:
                add = set()
                for m in reach[nm]:
                    add |= reach.get(m, set())
                if not add <= reach[nm]:
                    reach[nm] |= add
                    changed = True
        for nm in [nm for nm in reach if nm in reach[nm]]:
            del self.helpers[nm]
        self.static = {nm for nm, (fn, _m) in self.helpers.items() if fn.decorator_list}

    def _resolve(self, call):
        f = call.func
        if isinstance(f, ast.Attribute) and isinstance(f.value, ast.Name) and f.value.id == 'self' and f.attr in self.helpers \
                and self.helpers[f.attr][1]:
            return self.helpers[f.attr]
        # static helper: self.h(..) or Cls.h(..) - nothing is bound to a first parameter
        if isinstance(f, ast.Attribute) and isinstance(f.value, ast.Name) and f.attr in self.helpers and f.attr in self.static:
            return (self.helpers[f.attr][0], False)
        if isinstance(f, ast.Name) and f.id in self.helpers and not self.helpers[f.id][1]:
            return self.helpers[f.id]
        return None

    def _own_exprs(self, s):
        if isinstance(s, (ast.If,)):
            return [s.test]
        if isinstance(s, ast.For):
            return [s.iter]
        if isinstance(s, (ast.While, ast.Try, ast.With, ast.FunctionDef, ast.ClassDef)):
            return []
        return [s]

    def _expr_bodied(self, helper):
        body = _doc_stripped(helper.body)
        if len(body) == 1 and isinstance(body[0], ast.Return) and body[0].value is not None:
            return body[0].value
        # `if c: return X` ... `return Y`  is the conditional expression  X if c else Y  (same order, same laziness)

        def chain(stmts):
            if not stmts:
                return None
            s0 = stmts[0]
            if isinstance(s0, ast.Return) and s0.value is not None and len(stmts) == 1:
                return s0.value
            if isinstance(s0, ast.If) and len(s0.body) == 1 and isinstance(s0.body[0], ast.Return) and s0.body[0].value is not None:
                rest = chain(s0.orelse) if s0.orelse and len(stmts) == 1 else (chain(stmts[1:]) if not s0.orelse else None)
                if rest is None:
                    return None
                return ast.copy_location(ast.IfExp(test=s0.test, body=s0.body[0].value, orelse=rest), s0)
            return None
        return chain(body)

    def run(self, fn):
        """expand helper calls inside fn (in place); returns number of expansions"""
        total = 0
        for _depth in range(6):
            n = self._pass_expr(fn) + self._pass_stmt(fn)
            total += n
            if not n:
                break
        return total

    # expression-bodied helpers: anywhere
    def _pass_expr(self, fn):
        n = 0
        outer = self

        class T(ast.NodeTransformer):
            def visit_Call(self, c):
                self.generic_visit(c)
                r = outer._resolve(c)
                if r is None or r[0] is fn:
                    return c
                helper, is_method = r
                e = outer._expr_bodied(helper)
                if e is None:
                    return c
                b = _bind(helper, c, is_method)
                if b is None:
                    return c
                if any(not is_pure(a) for _p, a in b):
                    return c
                new = clone(e)
                amap = dict(b)

                class S(ast.NodeTransformer):
                    def visit_Name(self, nm):
                        if nm.id in amap and isinstance(nm.ctx, ast.Load):
                            return clone(amap[nm.id])
                        return nm
                new = S().visit(new)
                for x in ast.walk(new):
                    if hasattr(x, 'lineno'):
                        ast.copy_location(x, c)
                nonlocal n
                n += 1
                outer.expanded[helper.name] = outer.expanded.get(helper.name, 0) + 1
                return new
        T().visit(fn)
        if n:
            ast.fix_missing_locations(fn)
            self.stats['inlined_expr_helpers'] = self.stats.get('inlined_expr_helpers', 0) + n
        return n

    def _pass_stmt(self, fn):
        n = 0
        changed = True
        while changed:
            changed = False
            for blk_owner in ast.walk(fn):
                for field in ('body', 'orelse', 'finalbody'):
                    blk = getattr(blk_owner, field, None)
                    if not isinstance(blk, list) or not blk or not isinstance(blk[0], ast.stmt):
                        continue
                    for i, s in enumerate(blk):
                        rep = self._expand_stmt(s, fn)
                        if rep is not None:
                            blk[i:i + 1] = rep
                            n += 1
                            changed = True
                            break
                    if changed:
                        break
                if changed:
                    break
            if n > 200:
                break
        if n:
            ast.fix_missing_locations(fn)
            self.stats['inlined_stmt_helpers'] = self.stats.get('inlined_stmt_helpers', 0) + n
        return n

    def _expand_stmt(self, s, fn):
        for root in self._own_exprs(s):
            for c in ast.walk(root):
                if not isinstance(c, ast.Call):
                    continue
                r = self._resolve(c)
                if r is None or r[0] is fn:
                    continue
                helper, is_method = r
                if self._expr_bodied(helper) is not None:
                    continue
                # the call must be evaluated unconditionally by the statement - unless the helper is a pure function
                # of its arguments (only tests, local assignments and returns of pure expressions), which may be
                # evaluated early without any observable difference
                if not self._unconditional(root, c) and not (_pure_helper(helper) and self._liftable(root, c)):
                    continue
                b = _bind(helper, c, is_method)
                if b is None:
                    continue
                self.k += 1
                suffix = '__i%d' % self.k
                # a local of the helper keeps its name unless the caller already uses that name; a parameter that is passed
                # the caller's variable of the same name (and is not rebound in the helper) IS that variable
                caller_names = {x.id for x in ast.walk(fn) if isinstance(x, ast.Name)} | {a_.arg for a_ in fn.args.args}
                stored_in_helper = {x.id for x in ast.walk(helper) if isinstance(x, ast.Name) and isinstance(x.ctx, (ast.Store, ast.Del))}
                same = {p for p, a in b if isinstance(a, ast.Name) and a.id == p and p not in stored_in_helper}
                ren = {nm: (nm + suffix if (nm in caller_names and nm not in same) else nm) for nm in _locals_of(helper) if nm != 'self'}
                body = clone(_doc_stripped(helper.body))
                res = '__ret' + suffix
                whole = isinstance(s, ast.Expr) and s.value is c
                try:
                    if _has(body, ast.Return):
                        body = _convert_returns(body, res)
                        needs_init = not _definitely_assigns(body, res)
                    else:
                        needs_init = True
                except _NotInlinable:
                    self.k -= 1
                    self.stats['not_inlinable'] = self.stats.get('not_inlinable', 0) + 1
                    continue
                pre = []
                for p, a in b:
                    if p in same:
                        continue
                    asg = ast.Assign(targets=[ast.Name(id=ren[p], ctx=ast.Store())], value=clone(a))
                    pre.append(ast.copy_location(asg, s))
                if needs_init and not whole:
                    asg = ast.Assign(targets=[ast.Name(id=res, ctx=ast.Store())], value=ast.Constant(value=None))
                    pre.append(ast.copy_location(asg, s))
                rn = _Rename(ren)
                body = [rn.visit(x) for x in body]
                self.expanded[helper.name] = self.expanded.get(helper.name, 0) + 1
                if whole:
                    out = pre + body
                    return out or [ast.copy_location(ast.Pass(), s)]
                rp = _ReplaceNode(c, ast.copy_location(ast.Name(id=res, ctx=ast.Load()), c))
                rp.visit(s)
                return pre + body + [s]
        return None

    @staticmethod
    def _liftable(root, call):
        """not inside a lambda or comprehension (their variables are not in scope at the statement)"""
        def find(n, inside):
            if n is call:
                return not inside
            for ch in ast.iter_child_nodes(n):
                r = find(ch, inside or isinstance(n, (ast.Lambda, ast.ListComp, ast.SetComp, ast.DictComp, ast.GeneratorExp)))
                if r is not None:
                    return r
            return None
        return bool(find(root, False))

    @staticmethod
    def _unconditional(root, call):
        """no BoolOp (beyond its first operand), IfExp branch, comprehension or lambda between root and call"""
        path = []

        def find(n):
            if n is call:
                return True
            for ch in ast.iter_child_nodes(n):
                if find(ch):
                    path.append((n, ch))
                    return True
            return False
        if not find(root):
            return False
        for par, ch in path:
            if isinstance(par, ast.BoolOp) and par.values[0] is not ch:
                return False
            if isinstance(par, ast.IfExp) and par.test is not ch:
                return False
            if isinstance(par, (ast.Lambda, ast.ListComp, ast.SetComp, ast.DictComp, ast.GeneratorExp)):
                return False
            if isinstance(par, (ast.If, ast.For, ast.While)) and ch not in (getattr(par, 'test', None), getattr(par, 'iter', None)):
                return False
        return True


def _pure_helper(helper):
    """only if/return/local assignment with pure expressions: no effect, cannot raise on the paths that matter"""
    params = {a.arg for a in helper.args.args}

    def ok(stmts):
        for s_ in stmts:
            if isinstance(s_, ast.Return):
                if s_.value is not None and not is_pure(s_.value):
                    return False
            elif isinstance(s_, ast.If):
                if not is_pure(s_.test) or not ok(s_.body) or not ok(s_.orelse):
                    return False
            elif isinstance(s_, ast.Assign):
                if not all(isinstance(t, ast.Name) for t in s_.targets) or not is_pure(s_.value):
                    return False
            elif isinstance(s_, (ast.Pass,)):
                pass
            else:
                return False
        return True
    return ok(_doc_stripped(helper.body))


def _definitely_assigns(stmts, name):
    for s in stmts:
        if isinstance(s, ast.Assign) and any(isinstance(t, ast.Name) and t.id == name for t in s.targets):
            return True
        if isinstance(s, ast.If) and s.orelse and _definitely_assigns(s.body, name) and _definitely_assigns(s.orelse, name):
            return True
    return False


# ---------------------------------------------------------------------------
# N4 dispatch through a constant table
# ---------------------------------------------------------------------------

def _const_dict(d):
    return isinstance(d, ast.Dict) and d.keys and all(isinstance(k, ast.Constant) and isinstance(k.value, (str, int)) for k in d.keys) \
        and all(is_pure(v) for v in d.values)


def _table_defs(tree, cls, fn):
    """{reference text: Dict} for constant tables visible in fn: module globals, class attributes (self.X / Cls.X),
    single-assignment locals - each only if nothing in the module stores into it or calls a method on it other than
    get/keys/values/items"""
    tabs = {}

    def mutated(name_pred, scope):
        for n in ast.walk(scope):
            if isinstance(n, (ast.Subscript, ast.Attribute)) and isinstance(n.ctx, (ast.Store, ast.Del)) and name_pred(n.value):
                return True
            if isinstance(n, ast.Call) and isinstance(n.func, ast.Attribute) and name_pred(n.func.value) \
                    and n.func.attr not in ('get', 'keys', 'values', 'items'):
                return True
            if isinstance(n, ast.AugAssign) and name_pred(n.target):
                return True
        return False
    for st in tree.body:
        if isinstance(st, ast.Assign) and len(st.targets) == 1 and isinstance(st.targets[0], ast.Name) and _const_dict(st.value):
            nm = st.targets[0].id
            n_assign = sum(1 for x in ast.walk(tree) if isinstance(x, ast.Name) and x.id == nm and isinstance(x.ctx, ast.Store))
            if n_assign == 1 and not mutated(lambda e: isinstance(e, ast.Name) and e.id == nm, tree):
                tabs[nm] = st.value
    if cls is not None:
        for st in cls.body:
            if isinstance(st, ast.Assign) and len(st.targets) == 1 and isinstance(st.targets[0], ast.Name) and _const_dict(st.value):
                nm = st.targets[0].id
                pred = lambda e, nm=nm: isinstance(e, ast.Attribute) and e.attr == nm
                stored = any(isinstance(x, ast.Attribute) and x.attr == nm and isinstance(x.ctx, (ast.Store, ast.Del)) for x in ast.walk(tree))
                if not stored and not mutated(pred, tree):
                    tabs['self.' + nm] = st.value
                    tabs[cls.name + '.' + nm] = st.value
    cnt = {}
    for x in ast.walk(fn):
        if isinstance(x, ast.Name) and isinstance(x.ctx, ast.Store):
            cnt[x.id] = cnt.get(x.id, 0) + 1
    for st in ast.walk(fn):
        if isinstance(st, ast.Assign) and len(st.targets) == 1 and isinstance(st.targets[0], ast.Name) and _const_dict(st.value):
            nm = st.targets[0].id
            if cnt.get(nm) == 1 and not mutated(lambda e, nm=nm: isinstance(e, ast.Name) and e.id == nm, fn):
                tabs[nm] = st.value
    return tabs


def _unparse(e):
    try:
        return ast.unparse(e)
    except Exception:
        return None


def unguard_continue(fn, stats):
    """N5: in a loop body,  if c: continue ; REST   becomes   if not c: REST"""
    changed = True
    while changed:
        changed = False
        for owner in ast.walk(fn):
            if not isinstance(owner, (ast.For, ast.While)):
                continue
            # the loop body and every block that stands at its end (the body of a trailing `if`, recursively): `continue`
            # there skips exactly the rest of that block
            tail_blocks = [owner.body]
            cur = owner.body
            while cur and isinstance(cur[-1], ast.If):
                tail_blocks.append(cur[-1].body)
                if cur[-1].orelse:
                    tail_blocks.append(cur[-1].orelse)
                cur = cur[-1].body
            for blk in tail_blocks:
                for i, s in enumerate(blk):
                    if isinstance(s, ast.If) and not s.orelse and len(s.body) == 1 and isinstance(s.body[0], ast.Continue) and blk[i + 1:]:
                        neg = ast.UnaryOp(op=ast.Not(), operand=s.test)
                        ast.copy_location(neg, s.test)
                        new = ast.If(test=neg, body=blk[i + 1:], orelse=[])
                        ast.copy_location(new, s)
                        blk[i:] = [new]
                        stats['guard_continue'] = stats.get('guard_continue', 0) + 1
                        changed = True
                        break
                if changed:
                    break
            if changed:
                break
    ast.fix_missing_locations(fn)


def unroll_constant_loops(fn, stats):
    """N7: `for x in (a, b, c): BODY` over a short literal tuple/list without break/continue/else becomes
    x = a; BODY; x = b; BODY; ...  and `for x in A if c else B` is split on c first"""
    changed = True
    rounds = 0
    while changed and rounds < 30:
        changed = False
        rounds += 1
        for owner in ast.walk(fn):
            for field in ('body', 'orelse', 'finalbody'):
                blk = getattr(owner, field, None)
                if not isinstance(blk, list) or not blk or not isinstance(blk[0], ast.stmt):
                    continue
                for i, s in enumerate(blk):
                    if not isinstance(s, ast.For) or s.orelse:
                        continue
                    if isinstance(s.iter, ast.IfExp) and is_pure(s.iter.test):
                        a = ast.For(target=clone(s.target), iter=s.iter.body, body=clone(s.body), orelse=[])
                        b = ast.For(target=clone(s.target), iter=s.iter.orelse, body=clone(s.body), orelse=[])
                        new = ast.If(test=s.iter.test, body=[ast.copy_location(a, s)], orelse=[ast.copy_location(b, s)])
                        blk[i] = ast.copy_location(new, s)
                        changed = True
                        break
                    if not isinstance(s.iter, (ast.Tuple, ast.List)) or not (1 <= len(s.iter.elts) <= 8):
                        continue
                    if not all(is_pure(e) for e in s.iter.elts) or any(isinstance(e, ast.Starred) for e in s.iter.elts):
                        continue
                    inner = [x for st in s.body for x in ast.walk(st)]
                    # search loop over constant rows:  for ROW in (r1, r2, ..): if COND: BODY; break   ->  if COND[r1]: BODY[r1] elif COND[r2]: ...
                    if len(s.body) == 1 and isinstance(s.body[0], ast.If) and not s.body[0].orelse and s.body[0].body \
                            and isinstance(s.body[0].body[-1], ast.Break) \
                            and sum(1 for x in inner if isinstance(x, (ast.Break, ast.Continue, ast.Yield, ast.YieldFrom, ast.For, ast.While))) == 1:
                        tnames = [s.target] if isinstance(s.target, ast.Name) else (list(s.target.elts) if isinstance(s.target, ast.Tuple) else None)
                        rows = []
                        okr = tnames is not None and all(isinstance(t_, ast.Name) for t_ in tnames)
                        if okr:
                            for e in s.iter.elts:
                                if isinstance(s.target, ast.Name):
                                    rows.append([e])
                                elif isinstance(e, ast.Tuple) and len(e.elts) == len(tnames):
                                    rows.append(list(e.elts))
                                else:
                                    okr = False
                        if okr:
                            nm = {t_.id for t_ in tnames}
                            stored_in = any(isinstance(x, ast.Name) and x.id in nm and isinstance(x.ctx, ast.Store) for x in inner)
                            used_after = sum(1 for x in ast.walk(fn) if isinstance(x, ast.Name) and x.id in nm) != \
                                sum(1 for x in ast.walk(s) if isinstance(x, ast.Name) and x.id in nm)
                            if not stored_in and not used_after and sum(1 for _ in inner) <= 150:
                                chain = []
                                for row in reversed(rows):
                                    amap = {t_.id: v_ for t_, v_ in zip(tnames, row)}

                                    class S(ast.NodeTransformer):
                                        def visit_Name(self, n_):
                                            if n_.id in amap and isinstance(n_.ctx, ast.Load):
                                                return ast.copy_location(clone(amap[n_.id]), n_)
                                            return n_
                                    test = S().visit(clone(s.body[0].test))
                                    body = [S().visit(x) for x in clone(s.body[0].body[:-1])] or [ast.Pass()]
                                    node = ast.If(test=test, body=body, orelse=chain)
                                    chain = [ast.copy_location(node, s)]
                                blk[i:i + 1] = chain
                                stats['search_loops_unrolled'] = stats.get('search_loops_unrolled', 0) + 1
                                changed = True
                                break
                    if any(isinstance(x, (ast.Break, ast.Continue, ast.Yield, ast.YieldFrom)) for x in inner):
                        continue
                    if sum(1 for _ in inner) > 120:
                        continue
                    out = []
                    for e in s.iter.elts:
                        asg = ast.Assign(targets=[clone(s.target)], value=clone(e))
                        out.append(ast.copy_location(asg, s))
                        out.extend(clone(s.body))
                    blk[i:i + 1] = out
                    stats['loops_unrolled'] = stats.get('loops_unrolled', 0) + 1
                    changed = True
                    break
                if changed:
                    break
            if changed:
                break
    ast.fix_missing_locations(fn)


def expand_tables(tree, cls, fn, stats):
    tabs = _table_defs(tree, cls, fn)
    if not tabs:
        return
    # a lookup with a constant key is the row itself:  T.get('ISA') / T['ISA']  ->  the value (None when get() misses)

    class K(ast.NodeTransformer):
        def visit_Call(self, n):
            self.generic_visit(n)
            if isinstance(n.func, ast.Attribute) and n.func.attr == 'get' and len(n.args) in (1, 2) and not n.keywords \
                    and _unparse(n.func.value) in tabs and isinstance(n.args[0], ast.Constant):
                d = tabs[_unparse(n.func.value)]
                for k, v in zip(d.keys, d.values):
                    if k.value == n.args[0].value and type(k.value) is type(n.args[0].value):
                        stats['const_key_lookups'] = stats.get('const_key_lookups', 0) + 1
                        return ast.copy_location(clone(v), n)
                stats['const_key_lookups'] = stats.get('const_key_lookups', 0) + 1
                return ast.copy_location(clone(n.args[1]) if len(n.args) == 2 else ast.Constant(value=None), n)
            return n

        def visit_Subscript(self, n):
            self.generic_visit(n)
            if isinstance(n.ctx, ast.Load) and _unparse(n.value) in tabs and isinstance(n.slice, ast.Constant):
                d = tabs[_unparse(n.value)]
                for k, v in zip(d.keys, d.values):
                    if k.value == n.slice.value and type(k.value) is type(n.slice.value):
                        stats['const_key_lookups'] = stats.get('const_key_lookups', 0) + 1
                        return ast.copy_location(clone(v), n)
            return n
    K().visit(fn)
    ast.fix_missing_locations(fn)
    changed = True
    rounds = 0
    while changed and rounds < 20:
        changed = False
        rounds += 1
        for owner in ast.walk(fn):
            for field in ('body', 'orelse', 'finalbody'):
                blk = getattr(owner, field, None)
                if not isinstance(blk, list) or not blk or not isinstance(blk[0], ast.stmt):
                    continue
                for i, s in enumerate(blk):
                    if not isinstance(s, ast.If) or not isinstance(s.test, ast.Compare) or len(s.test.ops) != 1:
                        continue
                    t = s.test
                    ref = _unparse(t.comparators[0])
                    if ref not in tabs or not is_pure(t.left):
                        continue
                    d = tabs[ref]
                    if isinstance(t.ops[0], ast.NotIn) and not s.orelse and len(s.body) == 1 \
                            and isinstance(s.body[0], (ast.Continue, ast.Return)) and field == 'body' \
                            and ((isinstance(s.body[0], ast.Continue) and isinstance(owner, (ast.For, ast.While)))
                                 or (isinstance(s.body[0], ast.Return) and s.body[0].value is None and owner is fn)):
                        # guard form:  if x not in T: continue ; REST   ==   if x in T: REST
                        rest = blk[i + 1:]
                        if not rest:
                            continue
                        new = ast.If(test=ast.Compare(left=t.left, ops=[ast.In()], comparators=t.comparators), body=rest, orelse=[])
                        ast.copy_location(new, s)
                        blk[i:] = [new]
                        changed = True
                        break
                    if not isinstance(t.ops[0], ast.In):
                        continue
                    key_txt = _unparse(t.left)
                    # the key must not be rebound inside the body
                    if any(isinstance(x, ast.Name) and isinstance(x.ctx, ast.Store) and x.id == key_txt for b in s.body for x in ast.walk(b)):
                        continue
                    chain = None
                    for k, v in reversed(list(zip(d.keys, d.values))):
                        body = clone(s.body)

                        class R(ast.NodeTransformer):
                            def visit_Subscript(self, n, v=v):
                                self.generic_visit(n)
                                if isinstance(n.ctx, ast.Load) and _unparse(n.value) == ref and _unparse(n.slice) == key_txt:
                                    return ast.copy_location(clone(v), n)
                                return n
                        body = [R().visit(b) for b in body]
                        test = ast.Compare(left=clone(t.left), ops=[ast.Eq()], comparators=[ast.Constant(value=k.value)])
                        node = ast.If(test=test, body=body, orelse=[chain] if chain is not None else clone(s.orelse))
                        ast.copy_location(node, s)
                        chain = node
                    blk[i] = chain
                    stats['table_dispatch_expanded'] = stats.get('table_dispatch_expanded', 0) + 1
                    changed = True
                    break
                if changed:
                    break
            if changed:
                break
    ast.fix_missing_locations(fn)


def resolve_name_dispatch(tree, cls, fn, stats):
    """N8: dynamic dispatch through a constant table of method names,

        h = T.get(K)                      if K in T:
        if h is not None:        or           getattr(obj, T[K])(...)
            getattr(obj, h)(...)

    is turned into the if-chain over the keys of T with the attribute spelled out (`obj._parse_isa(...)`), so that the
    callee is visible to the inliner and to every rule that follows calls.  Runs before inlining."""
    tabs = _table_defs(tree, cls, fn)
    if not tabs or not any(isinstance(x, ast.Call) and isinstance(x.func, ast.Attribute) and x.func.attr == 'get' for x in ast.walk(fn)):
        return
    did = False
    for owner in ast.walk(fn):
        for field in ('body', 'orelse', 'finalbody'):
            blk = getattr(owner, field, None)
            if not isinstance(blk, list) or len(blk) < 2 or not isinstance(blk[0], ast.stmt):
                continue
            i = 0
            while i + 1 < len(blk):
                a, b = blk[i], blk[i + 1]
                i += 1
                if not (isinstance(a, ast.Assign) and len(a.targets) == 1 and isinstance(a.targets[0], ast.Name) and isinstance(a.value, ast.Call)
                        and isinstance(a.value.func, ast.Attribute) and a.value.func.attr == 'get' and len(a.value.args) == 1
                        and _unparse(a.value.func.value) in tabs and is_pure(a.value.args[0])):
                    continue
                h = a.targets[0].id
                key = a.value.args[0]
                # fallback tables tried when the first has no entry:   if h is None [and C]: h = T2.get(K)
                fallbacks = []
                j = i
                while j < len(blk):
                    fb = blk[j]
                    if not (isinstance(fb, ast.If) and not fb.orelse and len(fb.body) == 1):
                        break
                    t_, cond_ = fb.test, None
                    if isinstance(t_, ast.BoolOp) and isinstance(t_.op, ast.And) and len(t_.values) == 2:
                        t_, cond_ = t_.values[0], t_.values[1]
                    st_ = fb.body[0]
                    if not (isinstance(t_, ast.Compare) and len(t_.ops) == 1 and isinstance(t_.ops[0], ast.Is) and isinstance(t_.left, ast.Name) and t_.left.id == h
                            and isinstance(t_.comparators[0], ast.Constant) and t_.comparators[0].value is None
                            and (cond_ is None or (is_pure(cond_) and not any(isinstance(x, ast.Name) and x.id == h for x in ast.walk(cond_))))
                            and isinstance(st_, ast.Assign) and len(st_.targets) == 1 and isinstance(st_.targets[0], ast.Name) and st_.targets[0].id == h
                            and isinstance(st_.value, ast.Call) and isinstance(st_.value.func, ast.Attribute) and st_.value.func.attr == 'get'
                            and len(st_.value.args) == 1 and _unparse(st_.value.func.value) in tabs and _unparse(st_.value.args[0]) == _unparse(key)):
                        break
                    fallbacks.append((cond_, st_.value.func.value))
                    j += 1
                if j >= len(blk):
                    continue
                b = blk[j]
                if not (isinstance(b, ast.If) and not b.orelse and isinstance(b.test, ast.Compare) and len(b.test.ops) == 1
                        and isinstance(b.test.ops[0], ast.IsNot) and isinstance(b.test.left, ast.Name) and b.test.left.id == h
                        and isinstance(b.test.comparators[0], ast.Constant) and b.test.comparators[0].value is None):
                    continue
                uses = [x for x in ast.walk(fn) if isinstance(x, ast.Name) and x.id == h]
                inside = [x for st in b.body for x in ast.walk(st) if isinstance(x, ast.Name) and x.id == h]
                if len(uses) != len(inside) + 2 + 2 * len(fallbacks) or any(isinstance(x.ctx, ast.Store) for x in inside):
                    continue
                # the key expression must not be changed by the body before the use (pure expression over names the body does not store)
                stored = {x.id for st in b.body for x in ast.walk(st) if isinstance(x, ast.Name) and isinstance(x.ctx, ast.Store)}
                if stored & {x.id for x in ast.walk(key) if isinstance(x, ast.Name)}:
                    continue
                tref = a.value.func.value

                def arm(tref_, cond_):
                    class R(ast.NodeTransformer):
                        def visit_Name(self, n):
                            if n.id == h and isinstance(n.ctx, ast.Load):
                                return ast.copy_location(ast.Subscript(value=clone(tref_), slice=clone(key), ctx=ast.Load()), n)
                            return n
                    body = [R().visit(clone(st)) for st in b.body]
                    test = ast.Compare(left=clone(key), ops=[ast.In()], comparators=[clone(tref_)])
                    node = ast.copy_location(ast.If(test=test, body=body, orelse=[]), b)
                    if cond_ is not None:
                        # (kept as its own level: the table test below it is then expanded like any other)
                        node = ast.copy_location(ast.If(test=clone(cond_), body=[node], orelse=[]), b)
                    return node
                new = arm(tref, None)
                cur_ = new
                for cond_, tref_ in fallbacks:
                    nxt = arm(tref_, cond_)
                    cur_.orelse = [nxt]
                    cur_ = nxt
                blk[i - 1:j + 1] = [new]
                did = True
    if did:
        ast.fix_missing_locations(fn)
    expand_tables(tree, cls, fn, stats)

    class G(ast.NodeTransformer):
        def visit_Call(self, n):
            self.generic_visit(n)
            if isinstance(n.func, ast.Name) and n.func.id == 'getattr' and len(n.args) == 2 and not n.keywords \
                    and isinstance(n.args[1], ast.Constant) and isinstance(n.args[1].value, str) and n.args[1].value.isidentifier():
                stats['getattr_const'] = stats.get('getattr_const', 0) + 1
                return ast.copy_location(ast.Attribute(value=n.args[0], attr=n.args[1].value, ctx=ast.Load()), n)
            return n
    G().visit(fn)
    ast.fix_missing_locations(fn)


def _tails(stmts):
    """the last statements of every way through a statement list that ends in (nested) if/else: [(list, index)] or None
    when some way does not end in a plain statement of this list (loops, try, empty else ...)"""
    if not stmts:
        return None
    last = stmts[-1]
    if isinstance(last, ast.If):
        if not last.orelse:
            return None
        a, b = _tails(last.body), _tails(last.orelse)
        if a is None or b is None:
            return None
        return a + b
    if isinstance(last, (ast.For, ast.While, ast.Try, ast.With, ast.Return, ast.Raise, ast.Break, ast.Continue)):
        return None
    return [(stmts, len(stmts) - 1)]


def thread_flags(fn, stats):
    """N9 (jump threading on constant flags):

        if c: A; r = K1                      if c: A; <S with r := K1, if TEST(K1)>
        else: B; r = K2            ==>       else: B; <S with r := K2, if TEST(K2)>
        if TEST(r): S [else: T]

    where every way through the first statement ends by binding the local r to a constant, r is read nowhere but in
    the second statement, and TEST is decided by the constant.  This is what is left when a helper that reports and
    returns True/False has been inlined; threading puts the consequence (`valid = False`, `return False`) back next to
    the report it belongs to, so that path rules see the correlation."""
    changed = True
    rounds = 0
    while changed and rounds < 50:
        changed = False
        rounds += 1
        for owner in ast.walk(fn):
            for field in ('body', 'orelse', 'finalbody'):
                blk = getattr(owner, field, None)
                if not isinstance(blk, list) or len(blk) < 2 or not isinstance(blk[0], ast.stmt):
                    continue
                for i in range(len(blk) - 1):
                    s1, s2 = blk[i], blk[i + 1]
                    fwd = None
                    if isinstance(s2, ast.Assign) and len(s2.targets) == 1 and isinstance(s2.targets[0], ast.Name) and isinstance(s2.value, ast.Name) \
                            and isinstance(s1, ast.If):
                        fwd, r = ('=', s2.targets[0].id), s2.value.id
                    elif isinstance(s2, ast.AugAssign) and isinstance(s2.op, ast.BitAnd) and isinstance(s2.target, ast.Name) and isinstance(s2.value, ast.Name) \
                            and isinstance(s1, ast.If):
                        fwd, r = ('&=', s2.target.id), s2.value.id
                    elif isinstance(s2, ast.If):
                        names = {x.id for x in ast.walk(s2.test) if isinstance(x, ast.Name)}
                        if len(names) != 1:
                            continue
                        r = next(iter(names))
                    else:
                        continue
                    if fwd is not None and fwd[1] == r:
                        continue
                    if isinstance(s1, ast.If):
                        tails = _tails([s1])
                    elif isinstance(s1, ast.Assign):
                        tails = [(blk, i)]
                    else:
                        continue
                    if not tails:
                        continue
                    consts = []
                    _NC = object()
                    for lst, k in tails:
                        st = lst[k]
                        if isinstance(st, ast.Assign) and len(st.targets) == 1 and isinstance(st.targets[0], ast.Name) and st.targets[0].id == r \
                                and isinstance(st.value, ast.Constant):
                            consts.append(st.value.value)
                        elif isinstance(st, ast.Assign) and len(st.targets) == 1 and isinstance(st.targets[0], ast.Name) and st.targets[0].id == r \
                                and fwd is None and isinstance(s2, ast.If):
                            consts.append(_NC)      # a non-constant end keeps the test (a copy of it) behind it
                        else:
                            consts = None
                            break
                    if consts is None or all(c is _NC for c in consts):
                        continue
                    # r is read only inside s2, stored only at the tails
                    n_load = sum(1 for x in ast.walk(fn) if isinstance(x, ast.Name) and x.id == r and isinstance(x.ctx, ast.Load))
                    n_load2 = sum(1 for x in ast.walk(s2) if isinstance(x, ast.Name) and x.id == r and isinstance(x.ctx, ast.Load))
                    n_store = sum(1 for x in ast.walk(fn) if isinstance(x, ast.Name) and x.id == r and isinstance(x.ctx, (ast.Store, ast.Del)))
                    if n_load != n_load2 or n_store != len(tails):
                        # the same flag name may serve several (first statement, test) pairs - one per arm of a dispatch:
                        # fine when every read of it stands in such a test statement right behind a statement that
                        # binds it on every way through
                        covered = 0
                        total_st = 0
                        for o2 in ast.walk(fn):
                            for f2 in ('body', 'orelse', 'finalbody'):
                                b2 = getattr(o2, f2, None)
                                if not isinstance(b2, list) or len(b2) < 2 or not isinstance(b2[0], ast.stmt):
                                    continue
                                for j2 in range(len(b2) - 1):
                                    t2 = _tails([b2[j2]]) if isinstance(b2[j2], ast.If) else ([(b2, j2)] if isinstance(b2[j2], ast.Assign) else None)
                                    if not t2 or not isinstance(b2[j2 + 1], ast.If):
                                        continue
                                    if all(isinstance(l_[k_], ast.Assign) and len(l_[k_].targets) == 1 and isinstance(l_[k_].targets[0], ast.Name)
                                           and l_[k_].targets[0].id == r for l_, k_ in t2):
                                        covered += sum(1 for x in ast.walk(b2[j2 + 1]) if isinstance(x, ast.Name) and x.id == r and isinstance(x.ctx, ast.Load))
                                        total_st += len(t2)
                        if covered != n_load or total_st != n_store:
                            continue
                    if any(c is _NC for c in consts) and sum(1 for _x in ast.walk(s2)) > 80:
                        continue      # (the test is duplicated behind the non-constant ends: only when it is small)
                    if any(isinstance(x, ast.Name) and x.id == r and isinstance(x.ctx, ast.Store) for x in ast.walk(s2)):
                        continue
                    if isinstance(s1, ast.Assign) and len(tails) == 1 and tails[0][0] is blk:
                        pass
                    if fwd is not None:
                        if fwd[0] == '&=' and not all(isinstance(c, bool) for c in consts):
                            continue
                        if any(isinstance(x, ast.Name) and x.id == fwd[1] for x in ast.walk(s1)):
                            continue
                        for (lst, k), c in zip(tails, consts):
                            if fwd[0] == '=' or c is False:
                                new_st = ast.Assign(targets=[ast.Name(id=fwd[1], ctx=ast.Store())], value=ast.Constant(value=c))
                            else:
                                new_st = ast.Pass()
                            lst[k] = ast.copy_location(new_st, lst[k])
                        blk.remove(s2)
                        stats['flags_threaded'] = stats.get('flags_threaded', 0) + 1
                        changed = True
                        break
                    from . import astutil as _A
                    decided = []
                    try:
                        for c in consts:
                            decided.append(None if c is _NC else bool(_A.ev(s2.test, {r: c})))
                    except Exception:
                        continue

                    def subst(stmts, c):
                        class R(ast.NodeTransformer):
                            def visit_Name(self, n):
                                if n.id == r and isinstance(n.ctx, ast.Load):
                                    return ast.copy_location(ast.Constant(value=c), n)
                                return n
                        return [R().visit(x) for x in clone(stmts)]
                    for (lst, k), c, d in zip(tails, consts, decided):
                        if d is None:
                            lst[k + 1:k + 1] = [clone(s2)]
                            continue
                        repl = subst(s2.body if d else s2.orelse, c)
                        lst[k:k + 1] = repl if repl or len(lst) > 1 else [ast.copy_location(ast.Pass(), lst[k])]
                    blk.remove(s2)
                    stats['flags_threaded'] = stats.get('flags_threaded', 0) + 1
                    changed = True
                    break
                if changed:
                    break
            if changed:
                break
    if rounds > 1:
        ast.fix_missing_locations(fn)


def scalarise_tuple_results(fn, stats):
    """the tuple an inlined helper "returns" (`__ret__iN = (a, b)` at the end of every way through it) and that the caller
    unpacks at once (`x, y = __ret__iN`) is bound component by component: `x = a; y = b` at each of those ends"""
    import re as _re
    changed = True
    while changed:
        changed = False
        for owner in ast.walk(fn):
            for field in ('body', 'orelse', 'finalbody'):
                blk = getattr(owner, field, None)
                if not isinstance(blk, list) or len(blk) < 2 or not isinstance(blk[0], ast.stmt):
                    continue
                for i in range(len(blk) - 1):
                    s1, s2 = blk[i], blk[i + 1]
                    if not (isinstance(s2, ast.Assign) and len(s2.targets) == 1 and isinstance(s2.targets[0], (ast.Tuple, ast.List))
                            and all(isinstance(t, ast.Name) for t in s2.targets[0].elts) and isinstance(s2.value, ast.Name)
                            and _re.match(r'^__ret__i[0-9]+$', s2.value.id)):
                        continue
                    r = s2.value.id
                    k = len(s2.targets[0].elts)
                    if isinstance(s1, ast.If):
                        tails = _tails([s1])
                    elif isinstance(s1, ast.Assign):
                        tails = [(blk, i)]
                    else:
                        continue
                    if not tails:
                        continue
                    okt = all(isinstance(l_[j], ast.Assign) and len(l_[j].targets) == 1 and isinstance(l_[j].targets[0], ast.Name) and l_[j].targets[0].id == r
                              and isinstance(l_[j].value, (ast.Tuple, ast.List)) and len(l_[j].value.elts) == k
                              and not any(isinstance(e, ast.Starred) for e in l_[j].value.elts) for l_, j in tails)
                    if not okt:
                        continue
                    if sum(1 for x in ast.walk(fn) if isinstance(x, ast.Name) and x.id == r and isinstance(x.ctx, ast.Load)) != 1:
                        continue
                    if sum(1 for x in ast.walk(fn) if isinstance(x, ast.Name) and x.id == r and isinstance(x.ctx, ast.Store)) != len(tails):
                        continue
                    tn = [t.id for t in s2.targets[0].elts]
                    # the components must not read the names being bound (a, b = b, a)
                    if any(isinstance(x, ast.Name) and x.id in tn for l_, j in tails for e in l_[j].value.elts for x in ast.walk(e)):
                        continue
                    for l_, j in tails:
                        st = l_[j]
                        l_[j:j + 1] = [ast.copy_location(ast.Assign(targets=[ast.Name(id=n_, ctx=ast.Store())], value=e), st) for n_, e in zip(tn, st.value.elts)]
                    blk.remove(s2)
                    stats['tuple_results_scalarised'] = stats.get('tuple_results_scalarised', 0) + 1
                    changed = True
                    break
                if changed:
                    break
            if changed:
                break
    ast.fix_missing_locations(fn)


def forward_temps(fn, stats):
    """the result variable of an inlined helper that is handed to a named local exactly once,

        __ret__i3 = E ... ; args = __ret__i3

    takes that local's name (the name the source gave the value), instead of the local taking the temporary's."""
    import re as _re
    changed = True
    while changed:
        changed = False
        po = {}

        def w(n):
            po[id(n)] = len(po)
            for c in ast.iter_child_nodes(n):
                w(c)
        w(fn)
        for owner in ast.walk(fn):
            for field in ('body', 'orelse', 'finalbody'):
                blk = getattr(owner, field, None)
                if not isinstance(blk, list) or not blk or not isinstance(blk[0], ast.stmt):
                    continue
                for j, c in enumerate(blk):
                    if not (isinstance(c, ast.Assign) and len(c.targets) == 1 and isinstance(c.targets[0], ast.Name) and isinstance(c.value, ast.Name)
                            and _re.search(r'__i[0-9]+$', c.value.id) and not _re.search(r'__i[0-9]+$', c.targets[0].id)):
                        continue
                    v, a = c.targets[0].id, c.value.id
                    loads = [x for x in ast.walk(fn) if isinstance(x, ast.Name) and x.id == a and isinstance(x.ctx, ast.Load)]
                    stores = [x for x in ast.walk(fn) if isinstance(x, ast.Name) and x.id == a and isinstance(x.ctx, ast.Store)]
                    if len(loads) != 1 or not stores:
                        continue
                    lo = min(po[id(x)] for x in stores)
                    hi = po[id(c)]
                    if any(isinstance(x, ast.Name) and x.id == v and lo < po[id(x)] < hi for x in ast.walk(fn)):
                        continue
                    if any(po[id(x)] > hi for x in stores):
                        continue
                    for x in stores:
                        x.id = v
                    blk.remove(c)
                    if not blk:
                        blk.append(ast.copy_location(ast.Pass(), c))
                    stats['temps_forwarded'] = stats.get('temps_forwarded', 0) + 1
                    changed = True
                    break
                if changed:
                    break
            if changed:
                break


def coalesce_aliases(fn, stats):
    """a parameter of an inlined helper that was bound to a plain local of the caller (`state__i4 = state`) and is never
    rebound is that local: its name is used instead (also inside comprehensions and attribute stores)"""
    import re as _re
    changed = True
    while changed:
        changed = False
        po = {}

        def w(n):
            po[id(n)] = len(po)
            for c in ast.iter_child_nodes(n):
                w(c)
        w(fn)
        params = {a_.arg for a_ in fn.args.args}
        for owner in ast.walk(fn):
            for field in ('body', 'orelse', 'finalbody'):
                blk = getattr(owner, field, None)
                if not isinstance(blk, list) or not blk or not isinstance(blk[0], ast.stmt):
                    continue
                for c in blk:
                    if not (isinstance(c, ast.Assign) and len(c.targets) == 1 and isinstance(c.targets[0], ast.Name) and isinstance(c.value, ast.Name)
                            and _re.search(r'__i[0-9]+$', c.targets[0].id) and c.targets[0].id != c.value.id):
                        continue
                    a, b = c.targets[0].id, c.value.id
                    if sum(1 for x in ast.walk(fn) if isinstance(x, ast.Name) and x.id == a and isinstance(x.ctx, (ast.Store, ast.Del))) != 1:
                        continue
                    # b is not rebound after this point (loops: not rebound anywhere inside an enclosing loop either)
                    b_stores = [x for x in ast.walk(fn) if isinstance(x, ast.Name) and x.id == b and isinstance(x.ctx, (ast.Store, ast.Del))]
                    lp = getattr(c, '_parent', None)
                    in_loop = None
                    q = owner
                    while q is not None and q is not fn:
                        if isinstance(q, (ast.For, ast.While)):
                            in_loop = q
                        q = getattr(q, '_parent', None)
                    if any(po[id(x)] > po[id(c)] for x in b_stores):
                        continue
                    if in_loop is not None and any(any(y is x for y in ast.walk(in_loop)) for x in b_stores):
                        continue
                    if any(po[id(x)] < po[id(c)] for x in ast.walk(fn) if isinstance(x, ast.Name) and x.id == a and x is not c.targets[0]):
                        continue
                    for x in ast.walk(fn):
                        if isinstance(x, ast.Name) and x.id == a:
                            x.id = b
                    blk.remove(c)
                    if not blk:
                        blk.append(ast.copy_location(ast.Pass(), c))
                    stats['aliases_coalesced'] = stats.get('aliases_coalesced', 0) + 1
                    changed = True
                    break
                if changed:
                    break
            if changed:
                break


def merge_accumulators(fn, stats):
    """N10: a boolean accumulator local to an inlined helper,

        a = True ; ... a &= E ... a = False ... ; v &= a        (or  v = a)

    that is consumed exactly once, by the caller's accumulator v, is the same accumulator under another name: the
    stores to a become stores to v (`v &= E`, `v = False`), the initialisation and the hand-over disappear.  Requires
    that a is read nowhere else, `a = True` is its first store and stands in the same block as the hand-over, and v
    does not occur between the two."""
    changed = True
    while changed:
        changed = False
        po = {}

        def w(n):
            po[id(n)] = len(po)
            for c in ast.iter_child_nodes(n):
                w(c)
        w(fn)
        for owner in ast.walk(fn):
            for field in ('body', 'orelse', 'finalbody'):
                blk = getattr(owner, field, None)
                if not isinstance(blk, list) or not blk or not isinstance(blk[0], ast.stmt):
                    continue
                for j, c in enumerate(blk):
                    kind = None
                    if isinstance(c, ast.AugAssign) and isinstance(c.op, ast.BitAnd) and isinstance(c.target, ast.Name) and isinstance(c.value, ast.Name):
                        kind, v, a = '&=', c.target.id, c.value.id
                    elif isinstance(c, ast.Assign) and len(c.targets) == 1 and isinstance(c.targets[0], ast.Name) and isinstance(c.value, ast.Name):
                        kind, v, a = '=', c.targets[0].id, c.value.id
                    if kind is None or v == a or a in {x.arg for x in fn.args.args}:
                        continue
                    loads = [x for x in ast.walk(fn) if isinstance(x, ast.Name) and x.id == a and isinstance(x.ctx, ast.Load)]
                    if len(loads) != 1:
                        continue
                    inits = [st for st in blk[:j] if isinstance(st, ast.Assign) and len(st.targets) == 1 and isinstance(st.targets[0], ast.Name)
                             and st.targets[0].id == a and isinstance(st.value, ast.Constant) and st.value.value is True]
                    if len(inits) != 1:
                        continue
                    init = inits[0]
                    stores = []
                    ok = True
                    for st in ast.walk(fn):
                        if isinstance(st, ast.Assign) and any(isinstance(t, ast.Name) and t.id == a for t in st.targets):
                            if len(st.targets) != 1 or not isinstance(st.value, ast.Constant) or not isinstance(st.value.value, bool):
                                ok = False
                            stores.append(st)
                        elif isinstance(st, ast.AugAssign) and isinstance(st.target, ast.Name) and st.target.id == a:
                            if not isinstance(st.op, ast.BitAnd):
                                ok = False
                            stores.append(st)
                        elif isinstance(st, (ast.For, ast.comprehension)) and any(isinstance(x, ast.Name) and x.id == a for x in ast.walk(st.target)):
                            ok = False
                    n_st = sum(1 for x in ast.walk(fn) if isinstance(x, ast.Name) and x.id == a and isinstance(x.ctx, (ast.Store, ast.Del)))
                    if not ok or n_st != len(stores):
                        continue
                    if any(po[id(st)] < po[id(init)] for st in stores) or any(st is not init and isinstance(st, ast.Assign) and st.value.value is True for st in stores):
                        continue
                    lo, hi = po[id(init)], po[id(c)]
                    if any(isinstance(x, ast.Name) and x.id == v and lo < po[id(x)] < hi for x in ast.walk(fn)):
                        continue
                    if any(not (lo <= po[id(st)] < hi) for st in stores):
                        continue
                    for st in stores:
                        if isinstance(st, ast.Assign):
                            st.targets[0].id = v
                        else:
                            st.target.id = v
                    if kind == '&=':
                        blk.remove(init)
                    blk.remove(c)
                    if not blk:
                        blk.append(ast.copy_location(ast.Pass(), c))
                    stats['accumulators_merged'] = stats.get('accumulators_merged', 0) + 1
                    changed = True
                    break
                if changed:
                    break
            if changed:
                break
    ast.fix_missing_locations(fn)


def _is_assoc_lookup(f):
    """def f(table, key): for (k, v) in table: if key == k: return v  [return None]"""
    if not isinstance(f, ast.FunctionDef) or len(f.args.args) != 2 or f.args.defaults or f.args.vararg or f.args.kwarg or f.decorator_list:
        return False
    tparam, kparam = f.args.args[0].arg, f.args.args[1].arg
    body = _doc_stripped(f.body)
    if not (1 <= len(body) <= 2) or not isinstance(body[0], ast.For):
        return False
    lp = body[0]
    if not (isinstance(lp.iter, ast.Name) and lp.iter.id == tparam and isinstance(lp.target, ast.Tuple) and len(lp.target.elts) == 2
            and all(isinstance(x, ast.Name) for x in lp.target.elts) and not lp.orelse and len(lp.body) == 1):
        return False
    kv, vv = lp.target.elts[0].id, lp.target.elts[1].id
    t = lp.body[0]
    if not (isinstance(t, ast.If) and not t.orelse and len(t.body) == 1 and isinstance(t.body[0], ast.Return) and isinstance(t.body[0].value, ast.Name)
            and t.body[0].value.id == vv and isinstance(t.test, ast.Compare) and len(t.test.ops) == 1 and isinstance(t.test.ops[0], ast.Eq)):
        return False
    sides = {getattr(t.test.left, 'id', None), getattr(t.test.comparators[0], 'id', None)}
    if sides != {kparam, kv}:
        return False
    if len(body) == 2 and not (isinstance(body[1], ast.Return) and (body[1].value is None or (isinstance(body[1].value, ast.Constant) and body[1].value.value is None))):
        return False
    return True


def resolve_assoc_tables(tree, stats):
    """N13: a hand-written lookup in a constant tuple of (key, value) pairs - `_table_get(TABLE, k)` with the helper shaped
    `for (tk, v) in table: if k == tk: return v` - is `DICT.get(k)` over the same pairs: the table is restated as a
    module-level dict the other passes know how to expand"""
    helpers = {f.name for f in tree.body if _is_assoc_lookup(f)}
    if not helpers:
        return
    # constant tables: module level NAME = ((k, v), ...) and class level (self.NAME / Cls.NAME)
    tables = {}

    def pairs_of(v):
        if isinstance(v, (ast.Tuple, ast.List)) and v.elts and all(isinstance(e, (ast.Tuple, ast.List)) and len(e.elts) == 2 and isinstance(e.elts[0], ast.Constant)
                                                                  and isinstance(e.elts[0].value, (str, int)) and is_pure(e.elts[1]) for e in v.elts):
            return [(e.elts[0], e.elts[1]) for e in v.elts]
        return None
    for st in tree.body:
        if isinstance(st, ast.Assign) and len(st.targets) == 1 and isinstance(st.targets[0], ast.Name) and pairs_of(st.value):
            tables[st.targets[0].id] = pairs_of(st.value)
        if isinstance(st, ast.ClassDef):
            for c in st.body:
                if isinstance(c, ast.Assign) and len(c.targets) == 1 and isinstance(c.targets[0], ast.Name) and pairs_of(c.value):
                    nm = c.targets[0].id
                    stored = sum(1 for x in ast.walk(tree) if isinstance(x, ast.Attribute) and x.attr == nm and isinstance(x.ctx, (ast.Store, ast.Del)))
                    if not stored:
                        tables['self.' + nm] = pairs_of(c.value)
                        tables[st.name + '.' + nm] = pairs_of(c.value)
    made = {}
    new_defs = []

    class T(ast.NodeTransformer):
        def visit_Call(self, n):
            self.generic_visit(n)
            if isinstance(n.func, ast.Name) and n.func.id in helpers and len(n.args) == 2 and not n.keywords:
                ref = _unparse(n.args[0])
                if ref in tables:
                    if ref not in made:
                        nm = '__assoc_%d' % len(made)
                        made[ref] = nm
                        d = ast.Dict(keys=[clone(k) for k, _v in tables[ref]], values=[clone(v) for _k, v in tables[ref]])
                        new_defs.append(ast.Assign(targets=[ast.Name(id=nm, ctx=ast.Store())], value=d))
                    call = ast.Call(func=ast.Attribute(value=ast.Name(id=made[ref], ctx=ast.Load()), attr='get', ctx=ast.Load()), args=[n.args[1]], keywords=[])
                    stats['assoc_lookups'] = stats.get('assoc_lookups', 0) + 1
                    return ast.copy_location(call, n)
            return n
    T().visit(tree)
    if new_defs:
        # first-match semantics of the scan = dict built from the pairs in reverse order; keep the first of duplicate keys
        for st in new_defs:
            seen = set()
            ks, vs = [], []
            for k, v in zip(st.value.keys, st.value.values):
                if k.value not in seen:
                    seen.add(k.value)
                    ks.append(k)
                    vs.append(v)
            st.value.keys, st.value.values = ks, vs
        idx = 0
        for i, st in enumerate(tree.body):
            if isinstance(st, (ast.Import, ast.ImportFrom)) or (isinstance(st, ast.Expr) and isinstance(st.value, ast.Constant)):
                idx = i + 1
        tree.body[idx:idx] = new_defs
        ast.fix_missing_locations(tree)


def resolve_function_table(tree, fn, stats):
    """N11: dispatch through a constant table of functions,

        h = T.get(K, default)                 if K == 'a': fa(args)
        h(args)                      ==>      elif K == 'b': fb(args)
                                              else: default(args)

    T a module-level dict (bound once, never changed) whose values are names of module-level functions, h used nowhere
    else, K pure.  Makes the callees visible to the inliner."""
    funcs = {n.name for n in tree.body if isinstance(n, ast.FunctionDef)}
    tabs = {}
    for st in tree.body:
        if isinstance(st, ast.Assign) and len(st.targets) == 1 and isinstance(st.targets[0], ast.Name) and isinstance(st.value, ast.Dict) and st.value.keys \
                and all(isinstance(k, ast.Constant) and isinstance(k.value, (str, int)) for k in st.value.keys) \
                and all(isinstance(v, ast.Name) and v.id in funcs for v in st.value.values):
            nm = st.targets[0].id
            n_store = sum(1 for x in ast.walk(tree) if isinstance(x, ast.Name) and x.id == nm and isinstance(x.ctx, (ast.Store, ast.Del)))
            touched = any((isinstance(x, (ast.Subscript, ast.Attribute)) and isinstance(x.ctx, (ast.Store, ast.Del)) and isinstance(x.value, ast.Name) and x.value.id == nm)
                          or (isinstance(x, ast.Call) and isinstance(x.func, ast.Attribute) and isinstance(x.func.value, ast.Name) and x.func.value.id == nm
                              and x.func.attr not in ('get', 'keys', 'values', 'items')) for x in ast.walk(tree))
            if n_store == 1 and not touched:
                tabs[nm] = st.value
    if not tabs:
        return
    for owner in ast.walk(fn):
        for field in ('body', 'orelse', 'finalbody'):
            blk = getattr(owner, field, None)
            if not isinstance(blk, list) or len(blk) < 2 or not isinstance(blk[0], ast.stmt):
                continue
            i = 0
            while i + 1 < len(blk):
                a, b = blk[i], blk[i + 1]
                i += 1
                if not (isinstance(a, ast.Assign) and len(a.targets) == 1 and isinstance(a.targets[0], ast.Name) and isinstance(a.value, ast.Call)
                        and isinstance(a.value.func, ast.Attribute) and a.value.func.attr == 'get' and isinstance(a.value.func.value, ast.Name)
                        and a.value.func.value.id in tabs and 1 <= len(a.value.args) <= 2 and not a.value.keywords and is_pure(a.value.args[0])):
                    continue
                h = a.targets[0].id
                default = a.value.args[1] if len(a.value.args) == 2 else None
                if default is not None and not (isinstance(default, ast.Name) and default.id in funcs):
                    continue
                call = b.value if isinstance(b, ast.Expr) else (b.value if isinstance(b, (ast.Assign, ast.AugAssign)) else None)
                if not (isinstance(call, ast.Call) and isinstance(call.func, ast.Name) and call.func.id == h):
                    continue
                if sum(1 for x in ast.walk(fn) if isinstance(x, ast.Name) and x.id == h) != 2:
                    continue
                if default is None:
                    continue      # (a missing key would make h None: not a total dispatch)
                key = a.value.args[0]
                d = tabs[a.value.func.value.id]
                chain = None

                def with_callee(name):
                    st2 = clone(b)
                    for x in ast.walk(st2):
                        if isinstance(x, ast.Call) and isinstance(x.func, ast.Name) and x.func.id == h:
                            x.func = ast.copy_location(ast.Name(id=name, ctx=ast.Load()), x.func)
                    return st2
                chain = [with_callee(default.id)]
                for k, v in reversed(list(zip(d.keys, d.values))):
                    node = ast.If(test=ast.Compare(left=clone(key), ops=[ast.Eq()], comparators=[ast.Constant(value=k.value)]),
                                  body=[with_callee(v.id)], orelse=chain)
                    chain = [ast.copy_location(node, b)]
                blk[i - 1:i + 1] = chain
                stats['function_tables_expanded'] = stats.get('function_tables_expanded', 0) + 1
    # the partial form: a key that is not in the table gives None, which is tested before the call
    #     h = T.get(K)  [if C else None]        if C:  if K == 'a': ..fa(args)..  elif ..  else: S
    #     if h is None: S (leaves)       ==>    else: S
    #     ..h(args)..
    for owner in ast.walk(fn):
        for field in ('body', 'orelse', 'finalbody'):
            blk = getattr(owner, field, None)
            if not isinstance(blk, list) or len(blk) < 3 or not isinstance(blk[0], ast.stmt):
                continue
            i = 0
            while i + 2 < len(blk):
                a, b, c = blk[i], blk[i + 1], blk[i + 2]
                i += 1
                if not (isinstance(a, ast.Assign) and len(a.targets) == 1 and isinstance(a.targets[0], ast.Name)):
                    continue
                # `if h is not None: <one leaving statement>` followed by the leaving rest of the block is the same
                # decision written the other way round:  if h is None: <rest>   then the statement
                if isinstance(b, ast.If) and not b.orelse and isinstance(b.test, ast.Compare) and len(b.test.ops) == 1 and isinstance(b.test.ops[0], ast.IsNot) \
                        and isinstance(b.test.left, ast.Name) and b.test.left.id == a.targets[0].id and isinstance(b.test.comparators[0], ast.Constant) \
                        and b.test.comparators[0].value is None and len(b.body) == 1 and isinstance(b.body[0], (ast.Return, ast.Raise)) \
                        and isinstance(blk[-1], (ast.Return, ast.Raise)) \
                        and not any(isinstance(x, ast.Name) and x.id == a.targets[0].id for r_ in blk[i + 1:] for x in ast.walk(r_)):
                    rest_ = blk[i + 1:]
                    flipped = ast.copy_location(ast.If(test=ast.copy_location(ast.Compare(left=b.test.left, ops=[ast.Is()], comparators=b.test.comparators), b.test),
                                                       body=rest_, orelse=[]), b)
                    blk[i:] = [flipped, b.body[0]]
                    a, b, c = blk[i - 1], blk[i], blk[i + 1]
                val, cond = a.value, None
                if isinstance(val, ast.IfExp) and isinstance(val.orelse, ast.Constant) and val.orelse.value is None and is_pure(val.test):
                    val, cond = val.body, val.test
                if not (isinstance(val, ast.Call) and isinstance(val.func, ast.Attribute) and val.func.attr == 'get' and isinstance(val.func.value, ast.Name)
                        and val.func.value.id in tabs and len(val.args) == 1 and not val.keywords and is_pure(val.args[0])):
                    continue
                h = a.targets[0].id
                if not (isinstance(b, ast.If) and not b.orelse and isinstance(b.test, ast.Compare) and len(b.test.ops) == 1 and isinstance(b.test.ops[0], ast.Is)
                        and isinstance(b.test.left, ast.Name) and b.test.left.id == h and isinstance(b.test.comparators[0], ast.Constant)
                        and b.test.comparators[0].value is None and b.body and isinstance(b.body[-1], (ast.Raise, ast.Return))):
                    continue
                calls = [x for x in ast.walk(c) if isinstance(x, ast.Call) and isinstance(x.func, ast.Name) and x.func.id == h]
                if len(calls) != 1 or not isinstance(c, (ast.Return, ast.Expr, ast.Assign, ast.AugAssign)):
                    continue
                if sum(1 for x in ast.walk(fn) if isinstance(x, ast.Name) and x.id == h) != 3:
                    continue
                key = val.args[0]
                d = tabs[val.func.value.id]

                def with_callee2(name, c=c, h=h):
                    st2 = clone(c)
                    for x in ast.walk(st2):
                        if isinstance(x, ast.Call) and isinstance(x.func, ast.Name) and x.func.id == h:
                            x.func = ast.copy_location(ast.Name(id=name, ctx=ast.Load()), x.func)
                    return st2
                chain = [clone(x) for x in b.body]
                for k, v in reversed(list(zip(d.keys, d.values))):
                    node = ast.If(test=ast.Compare(left=clone(key), ops=[ast.Eq()], comparators=[ast.Constant(value=k.value)]),
                                  body=[with_callee2(v.id)], orelse=chain)
                    chain = [ast.copy_location(node, c)]
                if cond is not None:
                    chain = [ast.copy_location(ast.If(test=clone(cond), body=chain, orelse=[clone(x) for x in b.body]), c)]
                blk[i - 1:i + 2] = chain
                stats['function_tables_expanded'] = stats.get('function_tables_expanded', 0) + 1
    # a table that is not read any more has been expanded at every use: its definition goes (and with it the last
    # references to the handlers, which the inliner has placed at their call sites)
    for nm in list(tabs):
        if not any(isinstance(x, ast.Name) and x.id == nm and isinstance(x.ctx, ast.Load) for x in ast.walk(tree)):
            tree.body[:] = [st for st in tree.body if not (isinstance(st, ast.Assign) and len(st.targets) == 1 and isinstance(st.targets[0], ast.Name)
                                                           and st.targets[0].id == nm)]
            stats.setdefault('tables_dropped', []).append(nm)
    ast.fix_missing_locations(fn)


def inline_joined_lists(fn, stats):
    """pieces = [a, b, c]; w(SEP.join(pieces))   ->   w(SEP.join([a, b, c]))   when `pieces` is bound once, read once, and the read is
    in the very next statement (the pieces are evaluated at the same point); N1 then spells the join as a concatenation"""
    loads, stores = {}, {}
    for x in ast.walk(fn):
        if isinstance(x, ast.Name):
            (stores if isinstance(x.ctx, (ast.Store, ast.Del)) else loads).setdefault(x.id, []).append(x)
    done = 0
    for owner in ast.walk(fn):
        for field in ('body', 'orelse', 'finalbody'):
            blk = getattr(owner, field, None)
            if not isinstance(blk, list) or len(blk) < 2 or not isinstance(blk[0], ast.stmt):
                continue
            i = 0
            while i + 1 < len(blk):
                a, b = blk[i], blk[i + 1]
                i += 1
                if not (isinstance(a, ast.Assign) and len(a.targets) == 1 and isinstance(a.targets[0], ast.Name) and isinstance(a.value, (ast.List, ast.Tuple))):
                    continue
                nm = a.targets[0].id
                if len(stores.get(nm, ())) != 1 or len(loads.get(nm, ())) != 1:
                    continue
                use = loads[nm][0]
                joins = [c for c in ast.walk(b) if isinstance(c, ast.Call) and isinstance(c.func, ast.Attribute) and c.func.attr == 'join'
                         and isinstance(c.func.value, ast.Constant) and len(c.args) == 1 and c.args[0] is use]
                if len(joins) != 1 or isinstance(b, (ast.For, ast.While, ast.If, ast.Try, ast.With, ast.FunctionDef)):
                    continue
                joins[0].args[0] = a.value
                del blk[i - 1]
                i -= 1
                done += 1
    if done:
        stats['joined_lists_inlined'] = stats.get('joined_lists_inlined', 0) + done
        ast.fix_missing_locations(fn)


def eliminate_holders(tree, fn, new_classes, stats):
    """N12: a local object of a small holder class introduced by a refactoring (only an __init__ of plain assignments,
    not in the reference list) that never leaves the function - every use is `v.attr` - is replaced by one local per
    attribute: the constructor is expanded to its assignments and `v.attr` becomes the local `attr` (or `v__attr` when
    that name is taken).  What the rules then see is the code as it reads with plain locals."""
    changed_any = False
    for owner in ast.walk(fn):
        for field in ('body', 'orelse', 'finalbody'):
            blk = getattr(owner, field, None)
            if not isinstance(blk, list) or not blk or not isinstance(blk[0], ast.stmt):
                continue
            for i, st in enumerate(list(blk)):
                if not (isinstance(st, ast.Assign) and len(st.targets) == 1 and isinstance(st.targets[0], ast.Name) and isinstance(st.value, ast.Call)
                        and isinstance(st.value.func, ast.Name) and st.value.func.id in new_classes):
                    continue
                v = st.targets[0].id
                cls = new_classes[st.value.func.id]
                init = [m for m in cls.body if isinstance(m, ast.FunctionDef)]
                if len(init) != 1 or init[0].name != '__init__':
                    continue
                init = init[0]
                # every occurrence of v: this store, or the base of an attribute access
                occ = [x for x in ast.walk(fn) if isinstance(x, ast.Name) and x.id == v]
                attr_bases = {id(x.value) for x in ast.walk(fn) if isinstance(x, ast.Attribute) and isinstance(x.value, ast.Name) and x.value.id == v}
                if any(id(x) not in attr_bases and x is not st.targets[0] for x in occ):
                    continue
                if sum(1 for x in occ if isinstance(x.ctx, ast.Store)) != 1:
                    continue
                body = _doc_stripped(init.body)
                # (assignments - also chained - and plain call statements such as a log line)
                if not all(isinstance(b_, ast.Assign) or (isinstance(b_, ast.Expr) and isinstance(b_.value, ast.Call)) for b_ in body):
                    continue
                b = _bind(init, st.value, True)
                if b is None or any(not is_pure(a_) for _p, a_ in b):
                    continue
                amap = dict(b)
                selfname = init.args.args[0].arg
                used = {x.id for x in ast.walk(fn) if isinstance(x, ast.Name)} | {a_.arg for a_ in fn.args.args}
                out = []
                ok = True
                for b_ in clone(body):
                    class S(ast.NodeTransformer):
                        def visit_Name(self, n_):
                            if n_.id == selfname:
                                return ast.copy_location(ast.Name(id=v, ctx=n_.ctx), n_)
                            if n_.id in amap and isinstance(n_.ctx, ast.Load):
                                return ast.copy_location(clone(amap[n_.id]), n_)
                            if n_.id in amap:
                                nonlocal ok
                                ok = False
                            return n_
                    out.append(S().visit(b_))
                if not ok:
                    continue
                for x in out:
                    ast.copy_location(x, st)
                    for y in ast.walk(x):
                        if hasattr(y, 'lineno'):
                            ast.copy_location(y, st)
                blk[blk.index(st):blk.index(st) + 1] = out
                # one local per attribute
                attrs = sorted({x.attr for x in ast.walk(fn) if isinstance(x, ast.Attribute) and isinstance(x.value, ast.Name) and x.value.id == v})
                names = {}
                for at in attrs:
                    # `v.at = at` (the constructor keeps its argument): the attribute is that local
                    same = [x for x in out if isinstance(x, ast.Assign) and any(isinstance(t_, ast.Attribute) and t_.attr == at for t_ in x.targets)
                            and isinstance(x.value, ast.Name) and x.value.id == at]
                    if at not in used or same:
                        names[at] = at
                    else:
                        names[at] = '%s__%s' % (v, at)

                class R(ast.NodeTransformer):
                    def visit_Attribute(self, n_):
                        self.generic_visit(n_)
                        if isinstance(n_.value, ast.Name) and n_.value.id == v:
                            return ast.copy_location(ast.Name(id=names[n_.attr], ctx=n_.ctx), n_)
                        return n_
                R().visit(fn)
                # x = x  left by `v.x = x`
                for o2 in ast.walk(fn):
                    for f2 in ('body', 'orelse', 'finalbody'):
                        b2 = getattr(o2, f2, None)
                        if isinstance(b2, list) and b2 and isinstance(b2[0], ast.stmt):
                            keep = [x for x in b2 if not (isinstance(x, ast.Assign) and len(x.targets) == 1 and isinstance(x.targets[0], ast.Name)
                                                          and isinstance(x.value, ast.Name) and x.value.id == x.targets[0].id)]
                            if len(keep) != len(b2):
                                b2[:] = keep or [ast.copy_location(ast.Pass(), b2[0])]
                stats['holders_eliminated'] = stats.get('holders_eliminated', 0) + 1
                changed_any = True
                break
            if changed_any:
                break
        if changed_any:
            break
    if changed_any:
        ast.fix_missing_locations(fn)
        eliminate_holders(tree, fn, new_classes, stats)


# ---------------------------------------------------------------------------
# driver
# ---------------------------------------------------------------------------

_BASELINE = None


def baseline_funcs():
    global _BASELINE
    if _BASELINE is None:
        p = os.path.join(os.path.dirname(os.path.abspath(__file__)), 'baseline_funcs.json')
        with open(p) as fd:
            _BASELINE = {k: set(v) for k, v in json.load(fd).items()}
    return _BASELINE


def module_functions(tree):
    """[(qualname, FunctionDef, is_method)]"""
    out = []
    for n in tree.body:
        if isinstance(n, ast.FunctionDef):
            out.append((n.name, n, False))
        elif isinstance(n, ast.ClassDef):
            for c in n.body:
                if isinstance(c, ast.FunctionDef):
                    is_static = any(isinstance(d, ast.Name) and d.id in ('staticmethod',) for d in c.decorator_list)
                    out.append((n.name + '.' + c.name, c, not is_static))
    return out


def _const_tree(v):
    if isinstance(v, ast.Constant) and isinstance(v.value, str):
        return True
    if isinstance(v, ast.Tuple) and v.elts:
        return all(_const_tree(x) or (isinstance(x, ast.Constant) and isinstance(x.value, (int, str))) for x in v.elts)
    return False


def _const_set(v):
    """frozenset([...]) / set((...)) / {...} of constants -> the list of element nodes, else None"""
    if isinstance(v, ast.Set):
        elts = v.elts
    elif isinstance(v, ast.Call) and isinstance(v.func, ast.Name) and v.func.id in ('frozenset', 'set') and len(v.args) == 1 \
            and not v.keywords and isinstance(v.args[0], (ast.List, ast.Tuple, ast.Set)):
        elts = v.args[0].elts
    else:
        return None
    if elts and all(isinstance(x, ast.Constant) and isinstance(x.value, (str, int)) for x in elts):
        return elts
    return None


def _fold_module_const(v, binds):
    """the literal a module-level constant expression stands for (names of earlier constants, + of tuples / strings), or None"""
    if _const_tree(v):
        return v
    if isinstance(v, ast.Name) and v.id in binds:
        return binds[v.id]
    if isinstance(v, ast.BinOp) and isinstance(v.op, ast.Add):
        l, r = _fold_module_const(v.left, binds), _fold_module_const(v.right, binds)
        if isinstance(l, ast.Tuple) and isinstance(r, ast.Tuple):
            return ast.copy_location(ast.Tuple(elts=[clone(x) for x in l.elts + r.elts], ctx=ast.Load()), v)
        if isinstance(l, ast.Constant) and isinstance(r, ast.Constant) and isinstance(l.value, str) and isinstance(r.value, str):
            return ast.copy_location(ast.Constant(value=l.value + r.value), v)
    return None


def propagate_module_constants(tree, stats):
    """N6: a module-level name bound exactly once to a string or to a tuple of strings / tuples (immutable) and never
    rebound is replaced by its value inside functions - a template or a table moved to module level reads like the
    literal it stands for"""
    binds = {}
    sets = {}
    counts = {}
    for st in tree.body:
        if isinstance(st, ast.Assign) and len(st.targets) == 1 and isinstance(st.targets[0], ast.Name):
            counts[st.targets[0].id] = counts.get(st.targets[0].id, 0) + 1
            if _const_tree(st.value):
                binds[st.targets[0].id] = st.value
            elif _fold_module_const(st.value, binds) is not None:
                # a constant built from earlier constants:  B = A + ('x',)
                binds[st.targets[0].id] = _fold_module_const(st.value, binds)
                stats['module_constants_folded'] = stats.get('module_constants_folded', 0) + 1
            elif _const_set(st.value) is not None:
                # a constant set: only its use as the right side of in / not in is replaced (by the tuple of its members)
                sets[st.targets[0].id] = ast.Tuple(elts=list(_const_set(st.value)), ctx=ast.Load())
    for n in ast.walk(tree):
        if isinstance(n, ast.Global):
            for nm in n.names:
                binds.pop(nm, None)
        if isinstance(n, ast.Name) and isinstance(n.ctx, (ast.Store, ast.Del)) and n.id in binds:
            # stores other than the one module-level binding
            pass
    for nm in list(sets):
        # bound once, never stored to / mutated anywhere in the module
        bad = counts.get(nm) != 1
        for x in ast.walk(tree):
            if isinstance(x, ast.Name) and x.id == nm and isinstance(x.ctx, (ast.Store, ast.Del)) and not any(
                    isinstance(st, ast.Assign) and st.targets[0] is x for st in tree.body):
                bad = True
            if isinstance(x, ast.arg) and x.arg == nm:
                bad = True
            if isinstance(x, ast.Call) and isinstance(x.func, ast.Attribute) and isinstance(x.func.value, ast.Name) and x.func.value.id == nm:
                bad = True
        if bad:
            del sets[nm]
    if sets:
        class S(ast.NodeTransformer):
            def visit_Compare(self, n):
                self.generic_visit(n)
                if len(n.ops) == 1 and isinstance(n.ops[0], (ast.In, ast.NotIn)) and isinstance(n.comparators[0], ast.Name) \
                        and n.comparators[0].id in sets:
                    n.comparators = [ast.copy_location(clone(sets[n.comparators[0].id]), n.comparators[0])]
                    stats['module_sets_inlined'] = stats.get('module_sets_inlined', 0) + 1
                return n
        for f in ast.walk(tree):
            if isinstance(f, ast.FunctionDef):
                S().visit(f)
        ast.fix_missing_locations(tree)
    for nm in list(binds):
        if counts.get(nm) != 1:
            del binds[nm]
    if not binds:
        return
    # names rebound inside any function are left alone
    for f in ast.walk(tree):
        if isinstance(f, (ast.FunctionDef, ast.Lambda)):
            for x in ast.walk(f):
                if isinstance(x, ast.Name) and isinstance(x.ctx, (ast.Store, ast.Del)) and x.id in binds:
                    del binds[x.id]
                if isinstance(x, ast.arg) and x.arg in binds:
                    del binds[x.arg]
    if not binds:
        return
    n_sub = [0]

    class T(ast.NodeTransformer):
        def visit_Name(self, n):
            if isinstance(n.ctx, ast.Load) and n.id in binds:
                new = clone(binds[n.id])
                for x in ast.walk(new):
                    if hasattr(x, 'lineno'):
                        ast.copy_location(x, n)
                n_sub[0] += 1
                return new
            return n
    for st in tree.body:
        if isinstance(st, ast.FunctionDef):
            T().visit(st)
        elif isinstance(st, ast.ClassDef):
            for c in st.body:
                if isinstance(c, ast.FunctionDef):
                    T().visit(c)
    if n_sub[0]:
        stats['module_constants_inlined'] = stats.get('module_constants_inlined', 0) + n_sub[0]
        ast.fix_missing_locations(tree)


_TEXT_CACHE = {}


def _used_elsewhere(pkg_dir, modname, name):
    """does another module of the package mention `name` (a helper called through inheritance from another file)?"""
    if not pkg_dir:
        return False
    key = pkg_dir
    if key not in _TEXT_CACHE:
        texts = {}
        for root, dirs, files in os.walk(pkg_dir):
            if os.path.basename(root) in ('test', 'tests', 'map'):
                dirs[:] = []
                continue
            for f in files:
                if f.endswith('.py'):
                    try:
                        with open(os.path.join(root, f), encoding='utf-8', errors='replace') as fd:
                            texts[os.path.relpath(os.path.join(root, f), pkg_dir)[:-3].replace(os.sep, '.')] = fd.read()
                    except OSError:
                        pass
        _TEXT_CACHE[key] = texts
    # (another module can only reach the helper if it names this module: an import, a base class)
    short = modname.split('.')[-1]
    return any(name in t and short in t for m, t in _TEXT_CACHE[key].items() if m != modname)


def normalize_module(modname, tree, stats, pkg_dir=None):
    # N1 first: the other passes then see canonical tests
    _Canon(stats).visit(tree)
    propagate_module_constants(tree, stats)
    # two passes: what the first one expands (a table of handlers, a holder object) gives the second one calls to inline
    resolve_assoc_tables(tree, stats)
    for _outer in range(2):
        before = tuple(stats.get(k, 0) for k in ('function_tables_expanded', 'holders_eliminated', 'table_dispatch_expanded', 'getattr_const', 'inlined_expr_helpers', 'inlined_stmt_helpers'))
        _normalize_pass(modname, tree, stats, pkg_dir)
        propagate_module_constants(tree, stats)
        if tuple(stats.get(k, 0) for k in ('function_tables_expanded', 'holders_eliminated', 'table_dispatch_expanded', 'getattr_const', 'inlined_expr_helpers', 'inlined_stmt_helpers')) == before:
            break
    _Canon(stats).visit(tree)
    ast.fix_missing_locations(tree)
    return tree


def _inherited_new_methods(modname, tree, pkg_dir, stats):
    """methods that a refactoring pulled up into a base class living in another module of the package (not in the reference
    list of that module): they are helpers of this module's methods just as if they stood here.  [(qual, FunctionDef, True)]"""
    if not pkg_dir:
        return []
    out = []
    imported = {}
    for st in tree.body:
        if isinstance(st, ast.ImportFrom) and st.module and st.level in (0, 1):
            mod = st.module.split('.')[-1] if st.level == 0 and st.module.startswith('pyx12') else (st.module if st.level == 1 else None)
            if mod:
                for a in st.names:
                    imported[a.asname or a.name] = (mod, a.name)
    own = {c.name for c in tree.body if isinstance(c, ast.ClassDef)}
    own_methods = {f.name for c in tree.body if isinstance(c, ast.ClassDef) for f in c.body if isinstance(f, ast.FunctionDef)}
    seen = set()
    for c in tree.body:
        if not isinstance(c, ast.ClassDef):
            continue
        for b in c.bases:
            bn = b.id if isinstance(b, ast.Name) else None
            if bn is None or bn in own or bn not in imported:
                continue
            mod, cname = imported[bn]
            if (mod, cname) in seen:
                continue
            seen.add((mod, cname))
            path = os.path.join(pkg_dir, mod.replace('.', os.sep) + '.py')
            if not os.path.isfile(path):
                continue
            try:
                with open(path, encoding='utf-8', errors='replace') as fd:
                    btree = ast.parse(fd.read())
            except (OSError, SyntaxError):
                continue
            bbase = baseline_funcs().get(mod) or set()
            for bc in btree.body:
                if isinstance(bc, ast.ClassDef) and bc.name == cname:
                    for f in bc.body:
                        if isinstance(f, ast.FunctionDef) and '%s.%s' % (cname, f.name) not in bbase and f.name not in own_methods \
                                and not f.name.startswith('__'):
                            _Canon(stats).visit(f)
                            out.append(('%s.%s' % (cname, f.name), f, True))
                            stats.setdefault('inherited_helpers', []).append('%s:%s.%s' % (mod, cname, f.name))
    return out


def _normalize_pass(modname, tree, stats, pkg_dir):
    funcs = module_functions(tree)
    base = baseline_funcs().get(modname)
    classes0 = {n.name: n for n in tree.body if isinstance(n, ast.ClassDef)}
    for q, f, _m in funcs:
        resolve_name_dispatch(tree, classes0.get(q.split('.')[0]) if '.' in q else None, f, stats)
        resolve_function_table(tree, f, stats)
    inherited = _inherited_new_methods(modname, tree, pkg_dir, stats) if base is not None else []
    if base is not None:
        new = [(q, f, m) for q, f, m in funcs if q not in base] + inherited
        if new:
            stats.setdefault('new_functions', []).extend('%s:%s' % (modname, q) for q, _f, _m in new)
            inl = Inliner(tree, new, stats)
            if inl.helpers:
                for _q, f, _m in funcs:
                    inl.run(f)
                # a private helper that is no longer referenced anywhere in the module was expanded at every call
                # site: its body has been analysed in context, the stand-alone definition is dropped
                for nm, (hf, _ism) in list(inl.helpers.items()):
                    if not nm.startswith('_') or (nm.startswith('__') and nm.endswith('__')) or not inl.expanded.get(nm):
                        continue
                    refs = 0
                    for x in ast.walk(tree):
                        if x is hf:
                            continue
                        if isinstance(x, ast.Attribute) and x.attr == nm:
                            refs += 1
                        elif isinstance(x, ast.Name) and x.id == nm:
                            refs += 1
                    inside = sum(1 for x in ast.walk(hf) if (isinstance(x, ast.Attribute) and x.attr == nm) or (isinstance(x, ast.Name) and x.id == nm))
                    if refs - inside == 0 and (nm.startswith('__') or not _used_elsewhere(pkg_dir, modname, nm)):      # (`__x` is private to its class by name mangling)
                        for owner in [tree] + [c for c in tree.body if isinstance(c, ast.ClassDef)]:
                            if hf in owner.body:
                                owner.body.remove(hf)
                                stats.setdefault('helpers_dropped', []).append('%s:%s' % (modname, nm))
                funcs = module_functions(tree)
    # holder objects of classes the reference list does not know
    new_classes = {}
    if base is not None:
        new_classes = {c.name: c for c in tree.body if isinstance(c, ast.ClassDef) and not any(q.startswith(c.name + '.') for q in base)
                       and all(isinstance(b_, ast.Name) and b_.id == 'object' for b_ in c.bases)}
        if new_classes:
            for _q, f, _m in funcs:
                if _q.split('.')[0] not in new_classes:
                    eliminate_holders(tree, f, new_classes, stats)
    # class mod-summaries for copy propagation
    by_cls = {}
    classes = {n.name: n for n in tree.body if isinstance(n, ast.ClassDef)}
    for cname, cls in classes.items():
        chain = [cls]
        seen = {cname}
        cur = cls
        while True:
            nxt = None
            for b in cur.bases:
                bn = b.id if isinstance(b, ast.Name) else (b.attr if isinstance(b, ast.Attribute) else None)
                if bn in classes and bn not in seen:
                    nxt = classes[bn]
            if nxt is None:
                break
            chain.append(nxt)
            seen.add(nxt.name)
            cur = nxt
        by_cls[cname] = C.mod_summaries(chain)
    # class-level constants (a tuple of strings, a string bound once in the class body and stored to nowhere): a method that
    # reads self.NAME / Cls.NAME reads the literal
    cconst = {}
    for cname, cls_ in classes.items():
        for st in cls_.body:
            if isinstance(st, ast.Assign) and len(st.targets) == 1 and isinstance(st.targets[0], ast.Name) and (_const_tree(st.value) or _const_set(st.value) is not None):
                nm = st.targets[0].id
                if sum(1 for s2 in cls_.body if isinstance(s2, ast.Assign) and any(isinstance(t, ast.Name) and t.id == nm for t in s2.targets)) != 1:
                    continue
                if any(isinstance(x, ast.Attribute) and x.attr == nm and isinstance(x.ctx, (ast.Store, ast.Del)) for x in ast.walk(tree)):
                    continue
                if any(isinstance(x, ast.Call) and isinstance(x.func, ast.Attribute) and isinstance(x.func.value, ast.Attribute) and x.func.value.attr == nm
                       for x in ast.walk(tree)):
                    continue
                val = st.value if _const_tree(st.value) else ast.Tuple(elts=list(_const_set(st.value)), ctx=ast.Load())
                cconst[(cname, nm)] = (val, _const_tree(st.value))
    if cconst:
        def chain_of(cname):
            out, cur, seen_ = [cname], classes.get(cname), {cname}
            while cur is not None:
                nxt = None
                for b in cur.bases:
                    bn = b.id if isinstance(b, ast.Name) else (b.attr if isinstance(b, ast.Attribute) else None)
                    if bn in classes and bn not in seen_:
                        nxt = bn
                if nxt is None:
                    break
                out.append(nxt)
                seen_.add(nxt)
                cur = classes[nxt]
            return out
        for q, f, _m in funcs:
            if '.' not in q:
                continue
            ch = chain_of(q.split('.')[0])

            class CC(ast.NodeTransformer):
                def visit_Compare(self, n):
                    self.generic_visit(n)
                    return n

                def visit_Attribute(self, n):
                    self.generic_visit(n)
                    if isinstance(n.ctx, ast.Load) and isinstance(n.value, ast.Name) and (n.value.id == 'self' or n.value.id in ch):
                        for c_ in ch:
                            if (c_, n.attr) in cconst:
                                val, plain = cconst[(c_, n.attr)]
                                par = getattr(n, '_cc_parent', None)
                                if plain or (isinstance(par, ast.Compare) and len(par.ops) == 1 and isinstance(par.ops[0], (ast.In, ast.NotIn)) and par.comparators[0] is n):
                                    stats['class_constants_inlined'] = stats.get('class_constants_inlined', 0) + 1
                                    return ast.copy_location(clone(val), n)
                                break
                    return n
            for x in ast.walk(f):
                for ch_ in ast.iter_child_nodes(x):
                    ch_._cc_parent = x
            CC().visit(f)
            ast.fix_missing_locations(f)
    for q, f, _m in funcs:
        ms = by_cls.get(q.split('.')[0]) if '.' in q else None
        cls = classes.get(q.split('.')[0]) if '.' in q else None
        # the passes enable one another (a propagated literal makes a loop unrollable, an unrolled loop leaves copies to
        # propagate): repeat until the function text is stable, at most three rounds
        prev = None
        for _round in range(3):
            resolve_name_dispatch(tree, cls, f, stats)
            expand_tables(tree, cls, f, stats)
            unguard_continue(f, stats)
            unroll_constant_loops(f, stats)
            inline_joined_lists(f, stats)
            _Canon(stats).visit(f)
            scalarise_tuple_results(f, stats)
            forward_temps(f, stats)
            coalesce_aliases(f, stats)
            try:
                copy_propagate(f, ms, stats)
            except RecursionError:
                pass
            thread_flags(f, stats)
            merge_accumulators(f, stats)
            if new_classes and q.split('.')[0] not in new_classes:
                eliminate_holders(tree, f, new_classes, stats)
            cur = ast.dump(f)
            if cur == prev:
                break
            prev = cur
