"""E2: statement-level control-flow graph, dominators, must-facts.

Built for the statement kinds pyx12 uses.  Tests are split into short-circuit
sub-tests so that in `a and b[-1]` the read of `b[-1]` is guarded by `a`.
"""
import ast
import collections


class Node(object):
    __slots__ = ('id', 'kind', 'ast', 'succ', 'pred', 'handlers', 'stmt')

    def __init__(self, i, kind, a=None, stmt=None):
        self.id = i
        self.kind = kind      # entry exit raise_exit stmt test loophead for handler return raise break continue
        self.ast = a          # the ast evaluated at this node (expression for tests, statement otherwise)
        self.stmt = stmt      # enclosing source statement
        self.succ = []        # (node, label) label in None 'T' 'F' 'next' 'done' 'exc'
        self.pred = []
        self.handlers = ()

    @property
    def lineno(self):
        return getattr(self.ast, 'lineno', None) or getattr(self.stmt, 'lineno', None)

    def __repr__(self):
        t = ''
        if self.ast is not None:
            try:
                t = ast.unparse(self.ast)[:50].replace('\n', ' ')
            except Exception:
                t = type(self.ast).__name__
        return '<%d %s %s L%s>' % (self.id, self.kind, t, self.lineno)


class CFG(object):
    def __init__(self, fn):
        self.fn = fn
        self.nodes = []
        self._handlers = []   # stack: list of handler-entry nodes of enclosing try
        self._loops = []      # stack: (continue target, break list)
        self._finally = []    # stack of finalbody lists (approximated)
        self.entry = self._new('entry')
        self.exit = self._new('exit')
        self.rexit = self._new('raise_exit')
        outs = self._block(fn.body, [(self.entry, None)])
        for n, l in outs:
            self._edge(n, l, self.exit)
        self._dom = {}
        self._pdom = None

    # -- construction helpers
    def _new(self, kind, a=None, stmt=None):
        n = Node(len(self.nodes), kind, a, stmt if stmt is not None else a)
        n.handlers = tuple(self._handlers[-1]) if self._handlers else ()
        self.nodes.append(n)
        return n

    def _edge(self, a, label, b):
        a.succ.append((b, label))
        b.pred.append((a, label))

    def _connect(self, preds, n):
        for p, l in preds:
            self._edge(p, l, n)

    def _exc(self, n):
        """exceptional successors of a node that may raise."""
        if self._handlers:
            for h in self._handlers[-1]:
                self._edge(n, 'exc', h)
        else:
            self._edge(n, 'exc', self.rexit)

    def _test(self, e, preds, stmt):
        if isinstance(e, ast.BoolOp):
            if isinstance(e.op, ast.And):
                falses = []
                cur = preds
                for v in e.values:
                    t, f = self._test(v, cur, stmt)
                    falses += f
                    cur = t
                return cur, falses
            else:
                trues = []
                cur = preds
                for v in e.values:
                    t, f = self._test(v, cur, stmt)
                    trues += t
                    cur = f
                return trues, cur
        if isinstance(e, ast.UnaryOp) and isinstance(e.op, ast.Not):
            t, f = self._test(e.operand, preds, stmt)
            return f, t
        n = self._new('test', e, stmt)
        self._connect(preds, n)
        self._exc(n)
        if isinstance(e, ast.Constant):
            return ([(n, 'T')], []) if e.value else ([], [(n, 'F')])
        return [(n, 'T')], [(n, 'F')]

    def _block(self, stmts, preds):
        for s in stmts:
            preds = self._stmt(s, preds)
        return preds

    def _stmt(self, s, preds):
        if isinstance(s, ast.If):
            t, f = self._test(s.test, preds, s)
            a = self._block(s.body, t)
            b = self._block(s.orelse, f) if s.orelse else f
            return a + b
        if isinstance(s, ast.While):
            head = self._new('loophead', None, s)
            self._connect(preds, head)
            t, f = self._test(s.test, [(head, None)], s)
            brk = []
            self._loops.append((head, brk))
            body = self._block(s.body, t)
            self._loops.pop()
            self._connect(body, head)
            out = self._block(s.orelse, f) if s.orelse else f
            return out + brk
        if isinstance(s, ast.For):
            it = self._new('stmt', s.iter, s)
            self._connect(preds, it)
            self._exc(it)
            head = self._new('for', s.target, s)
            self._edge(it, None, head)
            self._exc(head)
            brk = []
            self._loops.append((head, brk))
            body = self._block(s.body, [(head, 'next')])
            self._loops.pop()
            self._connect(body, head)
            out = self._block(s.orelse, [(head, 'done')]) if s.orelse else [(head, 'done')]
            return out + brk
        if isinstance(s, ast.Try):
            hentries = [self._new('handler', h, h) for h in s.handlers]
            outer = tuple(self._handlers[-1]) if self._handlers else ()
            if s.finalbody and not s.handlers:
                # try/finally without handlers: exceptions continue outward
                self._handlers.append(list(outer))
            else:
                self._handlers.append(hentries)
            body = self._block(s.body, preds)
            self._handlers.pop()
            for h in hentries:
                h.handlers = outer
            body = self._block(s.orelse, body) if s.orelse else body
            outs = list(body)
            for hn, h in zip(hentries, s.handlers):
                outs += self._block(h.body, [(hn, None)])
            if s.finalbody:
                outs = self._block(s.finalbody, outs)
            return outs
        if isinstance(s, ast.With):
            cur = preds
            for item in s.items:
                n = self._new('stmt', item, s)
                self._connect(cur, n)
                self._exc(n)
                cur = [(n, None)]
            return self._block(s.body, cur)
        if isinstance(s, ast.Return):
            n = self._new('return', s, s)
            self._connect(preds, n)
            if s.value is not None:
                self._exc(n)
            self._edge(n, None, self.exit)
            return []
        if isinstance(s, ast.Raise):
            n = self._new('raise', s, s)
            self._connect(preds, n)
            self._exc(n)
            return []
        if isinstance(s, ast.Break):
            n = self._new('break', s, s)
            self._connect(preds, n)
            self._loops[-1][1].append((n, None))
            return []
        if isinstance(s, ast.Continue):
            n = self._new('continue', s, s)
            self._connect(preds, n)
            self._edge(n, None, self._loops[-1][0])
            return []
        if isinstance(s, (ast.FunctionDef, ast.ClassDef, ast.AsyncFunctionDef)):
            n = self._new('stmt', ast.Pass(), s)
            self._connect(preds, n)
            return [(n, None)]
        if isinstance(s, ast.Assert):
            n = self._new('test', s.test, s)
            self._connect(preds, n)
            self._exc(n)
            # false edge raises AssertionError
            if self._handlers:
                for h in self._handlers[-1]:
                    self._edge(n, 'F', h)
            else:
                self._edge(n, 'F', self.rexit)
            return [(n, 'T')]
        n = self._new('stmt', s, s)
        self._connect(preds, n)
        if not isinstance(s, (ast.Pass, ast.Global, ast.Nonlocal, ast.Import, ast.ImportFrom)):
            self._exc(n)
        return [(n, None)]

    # -- dominators (iterative; graphs are tiny)
    def dominators(self, use_exc=True):
        key = bool(use_exc)
        if key in self._dom:
            return self._dom[key]
        N = self.nodes
        allids = frozenset(n.id for n in N)
        dom = {n.id: allids for n in N}
        dom[self.entry.id] = frozenset([self.entry.id])
        changed = True
        while changed:
            changed = False
            for n in N:
                if n is self.entry:
                    continue
                ps = [p for p, l in n.pred if use_exc or l != 'exc']
                if not ps:
                    new = frozenset([n.id])
                else:
                    new = frozenset.intersection(*[dom[p.id] for p in ps]) | {n.id}
                if new != dom[n.id]:
                    dom[n.id] = new
                    changed = True
        self._dom[key] = dom
        return dom

    def postdominators(self):
        """post-dominators w.r.t. the normal exit over non-exceptional edges."""
        if self._pdom is not None:
            return self._pdom
        N = self.nodes
        allids = frozenset(n.id for n in N)
        pd = {n.id: allids for n in N}
        pd[self.exit.id] = frozenset([self.exit.id])
        # nodes that can reach the normal exit over non-exceptional edges; paths ending in a raise are not "normal"
        reach = {self.exit.id}
        st = [self.exit]
        while st:
            x = st.pop()
            for p, l in x.pred:
                if l != 'exc' and p.id not in reach:
                    reach.add(p.id)
                    st.append(p)
        changed = True
        while changed:
            changed = False
            for n in reversed(N):
                if n is self.exit:
                    continue
                ss = [s for s, l in n.succ if l != 'exc' and s.id in reach]
                if not ss:
                    new = frozenset([n.id])
                else:
                    new = frozenset.intersection(*[pd[s.id] for s in ss]) | {n.id}
                if new != pd[n.id]:
                    pd[n.id] = new
                    changed = True
        self._pdom = pd
        return pd

    def reachable(self, use_exc=False):
        seen = {self.entry.id}
        st = [self.entry]
        while st:
            n = st.pop()
            for s, l in n.succ:
                if l == 'exc' and not use_exc:
                    continue
                if s.id not in seen:
                    seen.add(s.id)
                    st.append(s)
        return seen

    def find_path(self, start, is_target, blocked=None, edge_ok=None, use_exc=False):
        """DFS from node `start`; returns list of nodes ending in a target, or None.
        `blocked(node)` stops exploration through a node; `edge_ok(node,label,succ)` filters edges."""
        seen = {start.id}
        st = [(start, [start])]
        while st:
            n, p = st.pop()
            for s, l in n.succ:
                if l == 'exc' and not use_exc:
                    continue
                if edge_ok is not None and not edge_ok(n, l, s):
                    continue
                if is_target(s):
                    return p + [s]
                if s.id in seen:
                    continue
                if blocked is not None and blocked(s):
                    continue
                seen.add(s.id)
                st.append((s, p + [s]))
        return None

    def walk_exprs(self, node):
        """ast sub-nodes evaluated AT this cfg node (not in nested statement bodies)."""
        a = node.ast
        if a is None:
            return
        if node.kind == 'handler':
            if a.type is not None:
                for x in ast.walk(a.type):
                    yield x
            return
        if isinstance(a, ast.withitem):
            for x in ast.walk(a):
                yield x
            return
        for x in ast.walk(a):
            yield x


# ---------------------------------------------------------------------------
# access paths and facts
# ---------------------------------------------------------------------------

def path_of(e):
    """access path of an expression: names, attributes, zero-argument method calls,
    and constant subscripts.  None if the expression is not a path."""
    if isinstance(e, ast.Name):
        return e.id
    if isinstance(e, ast.Attribute):
        b = path_of(e.value)
        return b + '.' + e.attr if b else None
    if isinstance(e, ast.Call) and not e.args and not e.keywords and isinstance(e.func, ast.Attribute):
        b = path_of(e.func.value)
        return b + '.' + e.func.attr + '()' if b else None
    if isinstance(e, ast.Call) and e.args and not e.keywords and isinstance(e.func, ast.Attribute) \
            and e.func.attr in VALUE_GETTERS and all(isinstance(a, ast.Constant) and isinstance(a.value, (str, int)) for a in e.args):
        # a getter with constant arguments reads one fixed slot of its receiver: recv.get_value('ISA12')
        b = path_of(e.func.value)
        return b + '.' + e.func.attr + '(' + ', '.join(repr(a.value) for a in e.args) + ')' if b else None
    return None


VALUE_GETTERS = {'get_value', 'get'}
# methods that do not change their receiver (every other method call invalidates what is known about getter slots)
READONLY = {'get_value', 'get', 'get_seg_id', 'format', 'strip', 'rstrip', 'lstrip', 'upper', 'lower', 'startswith',
            'endswith', 'is_empty', 'is_seg_id_valid', 'ele_len', 'is_composite', 'is_element', 'split', 'join',
            'count', 'find', '__len__', 'get_path', 'keys', 'values', 'items', 'copy', 'index', 'isdigit'}


def killed(path, k):
    """does the kill `k` invalidate a fact about `path`?"""
    if k.endswith('.@call'):
        b = k[:-6]
        return path.startswith(b + '.') and '(' in path[len(b):] and not path[len(b) + 1:].split('(')[0] in ('get_seg_id',)
    return path == k or path.startswith(k + '.') or path.startswith(k + '[')


MUTATORS = {'pop', 'clear', 'remove', 'popitem'}
GROWERS = {'append', 'extend', 'insert', 'add', 'update', 'setdefault'}

_FLIP = {ast.Lt: ast.Gt, ast.Gt: ast.Lt, ast.LtE: ast.GtE, ast.GtE: ast.LtE}


def _cmp(op, a, b):
    t = type(op) if not isinstance(op, type) else op
    return {ast.Gt: a > b, ast.GtE: a >= b, ast.Lt: a < b, ast.LtE: a <= b,
            ast.Eq: a == b, ast.NotEq: a != b}.get(t)


def _lenpath(x):
    if isinstance(x, ast.Call) and isinstance(x.func, ast.Name) and x.func.id == 'len' and len(x.args) == 1:
        return path_of(x.args[0])
    return None


def facts_from_test(e, truth):
    """facts generated on the edge where (sub)test `e` evaluates to `truth`."""
    out = set()
    p = path_of(e)
    if p and truth:
        out |= {('NonEmpty', p), ('NotNone', p)}
    if isinstance(e, ast.Compare) and len(e.ops) == 1:
        l, op, r = e.left, e.ops[0], e.comparators[0]
        for a, b in ((l, r), (r, l)):
            pa = path_of(a)
            if pa and isinstance(b, ast.Constant):
                if b.value is None:
                    if isinstance(op, (ast.IsNot, ast.NotEq)) and truth:
                        out.add(('NotNone', pa))
                    if isinstance(op, (ast.Is, ast.Eq)) and not truth:
                        out.add(('NotNone', pa))
                elif isinstance(b.value, (str, int)) and not isinstance(b.value, bool):
                    if isinstance(op, ast.Eq) and truth:
                        out.add(('Eq', pa, b.value))
                        out.add(('NotNone', pa))
                        if b.value != '' and isinstance(b.value, str):
                            out.add(('NonEmpty', pa))
                    if isinstance(op, ast.NotEq) and not truth:
                        out.add(('Eq', pa, b.value))
                        out.add(('NotNone', pa))
                    if (isinstance(op, ast.NotEq) and truth) or (isinstance(op, ast.Eq) and not truth):
                        out.add(('Ne', pa, b.value))
                    if isinstance(op, ast.NotEq) and truth and b.value == '':
                        pass
        pl = path_of(l)
        if pl and isinstance(op, ast.In) and truth and isinstance(r, (ast.Tuple, ast.List, ast.Set)) \
                and all(isinstance(x, ast.Constant) for x in r.elts):
            out.add(('In', pl, frozenset(x.value for x in r.elts)))
            out.add(('NotNone', pl))
        if pl and isinstance(op, ast.NotIn) and not truth and isinstance(r, (ast.Tuple, ast.List, ast.Set)) \
                and all(isinstance(x, ast.Constant) for x in r.elts):
            out.add(('In', pl, frozenset(x.value for x in r.elts)))
        lp, k, o = _lenpath(l), r, op
        if lp is None and _lenpath(r):
            lp, k = _lenpath(r), l
            o = _FLIP.get(type(op), type(op))()
        if lp and isinstance(k, ast.Constant) and isinstance(k.value, int):
            sat = [n for n in range(0, 64) if _cmp(o, n, k.value) == truth]
            if sat and min(sat) >= 1:
                out.add(('NonEmpty', lp))
            if sat:
                out.add(('LenMin', lp, min(sat)))
    if isinstance(e, ast.Call) and isinstance(e.func, ast.Name) and e.func.id == 'isinstance' and truth and e.args:
        pa = path_of(e.args[0])
        if pa:
            out.add(('NotNone', pa))
    return out


def _targets_of(n):
    if isinstance(n, ast.Assign):
        return n.targets
    if isinstance(n, (ast.AugAssign, ast.AnnAssign)):
        return [n.target]
    if isinstance(n, ast.Delete):
        return n.targets
    if isinstance(n, ast.NamedExpr):
        return [n.target]
    return []


def kills(node, modsum=None):
    """access-path prefixes whose facts die at this node."""
    k = set()
    a = node.ast
    if a is None:
        return k
    if node.kind == 'for':
        for tt in ast.walk(a):
            p = path_of(tt)
            if p:
                k.add(p)
        return k
    if node.kind == 'handler':
        if a.name:
            k.add(a.name)
        return k
    if isinstance(a, ast.withitem):
        if a.optional_vars is not None:
            p = path_of(a.optional_vars)
            if p:
                k.add(p)
        a = a.context_expr
    for n in ast.walk(a):
        for t in _targets_of(n):
            for tt in ([t] if not isinstance(t, (ast.Tuple, ast.List)) else ast.walk(t)):
                base = tt
                while isinstance(base, (ast.Subscript, ast.Starred)):
                    base = base.value
                p = path_of(base)
                if p:
                    k.add(p)
        if isinstance(n, ast.Call) and isinstance(n.func, ast.Attribute):
            p = path_of(n.func.value)
            if p and n.func.attr in MUTATORS:
                k.add(p)
            if p and n.func.attr not in READONLY:
                k.add(p + '.@call')
            if p == 'self' and modsum is not None:
                for attr in modsum.get(n.func.attr, ()):
                    k.add('self.' + attr)
            # Class.method(self, ...) style
            if modsum is not None and n.args and isinstance(n.args[0], ast.Name) and n.args[0].id == 'self' \
                    and isinstance(n.func.value, ast.Name) and n.func.value.id[:1].isupper():
                for attr in modsum.get(n.func.attr, ()):
                    k.add('self.' + attr)
    return k


def gens(node):
    """facts generated by a (non-test) node after it executes."""
    out = set()
    a = node.ast
    if node.kind != 'stmt' or a is None:
        return out
    if isinstance(a, ast.Assign) and len(a.targets) == 1:
        p = path_of(a.targets[0])
        v = a.value
        if p:
            if isinstance(v, (ast.List, ast.Tuple, ast.Set)) and v.elts:
                out |= {('NonEmpty', p), ('NotNone', p)}
            elif isinstance(v, ast.Dict) and v.keys:
                out |= {('NonEmpty', p), ('NotNone', p)}
            elif isinstance(v, (ast.List, ast.Tuple, ast.Set, ast.Dict, ast.JoinedStr, ast.ListComp, ast.DictComp)):
                out.add(('NotNone', p))
            elif isinstance(v, ast.Constant) and v.value is not None:
                out.add(('NotNone', p))
                if isinstance(v.value, (str, int)) and not isinstance(v.value, bool):
                    out.add(('Eq', p, v.value))
                if isinstance(v.value, str) and v.value:
                    out.add(('NonEmpty', p))
            elif isinstance(v, ast.BinOp) and isinstance(v.op, ast.Mod) and isinstance(v.left, ast.Constant):
                out.add(('NotNone', p))
            elif isinstance(v, ast.Call) and isinstance(v.func, (ast.Name, ast.Attribute)):
                nm = v.func.id if isinstance(v.func, ast.Name) else v.func.attr
                if nm[:1].isupper() or nm in ('list', 'dict', 'set', 'tuple', 'str', 'int', 'len', 'sorted', 'format'):
                    out.add(('NotNone', p))
    if isinstance(a, ast.Expr) and isinstance(a.value, ast.Call) and isinstance(a.value.func, ast.Attribute):
        c = a.value
        p = path_of(c.func.value)
        if p and c.func.attr in ('append', 'insert', 'add'):
            out.add(('NonEmpty', p))
    return out


def must_facts(cfg, modsum=None, use_exc=True, entry_facts=()):
    """Forward must-analysis.  Returns {node id: frozenset(facts) holding on ENTRY to the node}
    (None for unreachable nodes)."""
    IN = {n.id: None for n in cfg.nodes}
    IN[cfg.entry.id] = frozenset(entry_facts)
    work = collections.deque([cfg.entry])
    kcache = {}

    def out_edge(n, label, inn):
        if n.id not in kcache:
            kcache[n.id] = kills(n, modsum)
        ks = kcache[n.id]
        if ks:
            f = {x for x in inn if not any(killed(x[1], p) for p in ks)}
        else:
            f = set(inn)
        if n.kind == 'test' and label in ('T', 'F'):
            f |= facts_from_test(n.ast, label == 'T')
        elif n.kind == 'stmt':
            f |= gens(n)
        return frozenset(f)

    while work:
        n = work.popleft()
        inn = IN[n.id]
        if inn is None:
            continue
        for s, label in n.succ:
            if label == 'exc' and not use_exc:
                continue
            o = out_edge(n, label, inn) if label != 'exc' else frozenset(
                x for x in inn if not any(killed(x[1], p) for p in kills(n, modsum)))
            old = IN[s.id]
            new = o if old is None else (old & o)
            if new != old:
                IN[s.id] = new
                work.append(s)
    return IN


def has(facts, kind, path):
    return facts is not None and any(f[0] == kind and f[1] == path for f in facts)


def eq_value(facts, path):
    if facts is None:
        return None
    for f in facts:
        if f[0] == 'Eq' and f[1] == path:
            return f[2]
    return None


def mod_summaries(classes):
    """method name -> set of self attributes written or mutated (transitive over self-calls).
    `classes` is a list of ClassDef (a class and its bases, most-derived first)."""
    direct = {}
    calls = {}
    for cls in reversed(classes):
        for m in cls.body:
            if not isinstance(m, ast.FunctionDef):
                continue
            w = set()
            c = set()
            for n in ast.walk(m):
                for t in _targets_of(n):
                    for tt in ([t] if not isinstance(t, (ast.Tuple, ast.List)) else ast.walk(t)):
                        base = tt
                        while isinstance(base, ast.Subscript):
                            base = base.value
                        p = path_of(base)
                        if p and p.startswith('self.'):
                            w.add(p.split('.')[1])
                if isinstance(n, ast.Call) and isinstance(n.func, ast.Attribute):
                    p = path_of(n.func.value)
                    if p and p.startswith('self.') and n.func.attr in MUTATORS:
                        w.add(p.split('.')[1])
                    if p == 'self':
                        c.add(n.func.attr)
                    elif n.args and isinstance(n.args[0], ast.Name) and n.args[0].id == 'self' \
                            and isinstance(n.func.value, ast.Name):
                        c.add(n.func.attr)
            direct[m.name] = direct.get(m.name, set()) | w
            calls[m.name] = calls.get(m.name, set()) | c
    changed = True
    while changed:
        changed = False
        for m in direct:
            for c in calls[m]:
                add = direct.get(c, set()) - direct[m]
                if add:
                    direct[m] |= add
                    changed = True
    return direct


# ---------------------------------------------------------------------------
# reaching definitions of plain local names
# ---------------------------------------------------------------------------

def _name_defs(node):
    """[(name, value expr or None)] defined at this CFG node; value None = not a plain `name = expr`"""
    out = []
    a = node.ast
    if a is None:
        return out
    if node.kind == 'for':
        for x in ast.walk(a):
            if isinstance(x, ast.Name):
                out.append((x.id, ('iter', node.stmt.iter if isinstance(node.stmt, ast.For) else None)))
        return out
    if node.kind == 'handler':
        if a.name:
            out.append((a.name, None))
        return out
    if isinstance(a, ast.withitem):
        if a.optional_vars is not None:
            for x in ast.walk(a.optional_vars):
                if isinstance(x, ast.Name):
                    out.append((x.id, None))
        return out
    if node.kind != 'stmt':
        return out
    if isinstance(a, ast.Assign):
        for t in a.targets:
            if isinstance(t, ast.Name):
                out.append((t.id, a.value))
            else:
                for x in ast.walk(t):
                    if isinstance(x, ast.Name) and isinstance(x.ctx, ast.Store):
                        out.append((x.id, None))
    elif isinstance(a, (ast.AugAssign, ast.AnnAssign)):
        if isinstance(a.target, ast.Name):
            out.append((a.target.id, a.value if isinstance(a, ast.AnnAssign) else None))
    return out


def reaching_defs(cfg):
    """{node id: {name: frozenset of defining node ids}} on ENTRY to each node (parameters: def id -1)"""
    defs = {n.id: _name_defs(n) for n in cfg.nodes}
    IN = {n.id: None for n in cfg.nodes}
    params = {}
    fa = cfg.fn.args
    for a in fa.args + fa.kwonlyargs + fa.posonlyargs + ([fa.vararg] if fa.vararg else []) + ([fa.kwarg] if fa.kwarg else []):
        params[a.arg] = frozenset([-1])
    IN[cfg.entry.id] = params
    work = collections.deque([cfg.entry])
    while work:
        n = work.popleft()
        cur = dict(IN[n.id])
        for name, _v in defs[n.id]:
            cur[name] = frozenset([n.id])
        # along an exception edge the statement may not have completed: what reached it still reaches the handler
        pre = dict(IN[n.id])
        both = dict(cur)
        for k, v in pre.items():
            both[k] = both.get(k, frozenset()) | v
        for s, _l in n.succ:
            old = IN[s.id]
            # (leaving a for loop through `done` binds nothing: the target keeps whatever reached the loop head - the
            # definition before the loop when the body never ran, the last iteration's otherwise; both are in IN)
            out = both if _l == 'exc' else (pre if (n.kind == 'for' and _l == 'done') else cur)
            if old is None:
                new = dict(out)
            else:
                new = dict(old)
                for k, v in out.items():
                    new[k] = new.get(k, frozenset()) | v
            if new != old:
                IN[s.id] = new
                work.append(s)
    return IN, defs


def node_of(cfg, expr):
    """the CFG node at which the expression object `expr` is evaluated"""
    for nd in cfg.nodes:
        for x in cfg.walk_exprs(nd):
            if x is expr:
                return nd
    return None


def derives_only_from(cfg, expr, at, is_source, unwrap, RD=None, _seen=None):
    """every value `expr` can have at node `at` is a source (is_source(e, node)) possibly wrapped by allowed operations:
    `unwrap(e)` returns the inner expression of an allowed wrapper or None.  Local names are followed through all their
    reaching definitions."""
    if RD is None:
        RD = reaching_defs(cfg)
    IN, defs = RD
    _seen = _seen if _seen is not None else set()
    if is_source(expr, at):
        return True
    inner = unwrap(expr)
    if inner is not None:
        return derives_only_from(cfg, inner, at, is_source, unwrap, RD, _seen)
    if isinstance(expr, ast.Name):
        rd = (IN.get(at.id) or {}).get(expr.id)
        if not rd:
            return False
        for d in rd:
            if (d, expr.id) in _seen:
                continue
            _seen.add((d, expr.id))
            if d == -1:
                return False
            vals = [v for nm, v in defs[d] if nm == expr.id]
            for v in vals:
                if v is None:
                    return False
                if isinstance(v, tuple) and v[0] == 'iter':
                    if not is_source(('iter', v[1]), cfg.nodes[d]):
                        return False
                    continue
                if not derives_only_from(cfg, v, cfg.nodes[d], is_source, unwrap, RD, _seen):
                    return False
        return True
    return False


def skips_in_iteration(cfg, loop_stmt, is_required):
    """a path through ONE iteration of `loop_stmt` (from the loop head's body edge back to the head, or out through
    break/return) that passes no node satisfying `is_required` - exception edges not followed.  None if there is none."""
    heads = [n for n in cfg.nodes if n.stmt is loop_stmt and n.kind in ('for', 'loophead')]
    if not heads:
        return None
    head = heads[0]
    starts = [s for s, l in head.succ if l in ('next', None) and l != 'done'] if head.kind == 'for' else None
    if head.kind == 'loophead':
        # body entry = T successors of the test nodes of the while
        starts = []
        st = [head]
        seen = set()
        while st:
            n = st.pop()
            for s, l in n.succ:
                if s.stmt is loop_stmt and s.kind == 'test' and s.id not in seen:
                    seen.add(s.id)
                    st.append(s)
                elif n.kind == 'test' and l == 'T' and s.id not in seen:
                    starts.append(s)
    inside = set()
    for n in cfg.nodes:
        p = n.stmt
        while p is not None:
            if p is loop_stmt:
                inside.add(n.id)
                break
            p = getattr(p, '_parent', None)
    for s0 in starts:
        if is_required(s0):
            continue
        st = [(s0, [s0])]
        seen = {s0.id}
        while st:
            n, path = st.pop()
            for s, l in n.succ:
                if l == 'exc':
                    continue
                if s is head or s.id not in inside:
                    return path + [s]
                if is_required(s) or s.id in seen:
                    continue
                seen.add(s.id)
                st.append((s, path + [s]))
    return None
