"""E6: regex constant -> NFA -> DFA over a partitioned alphabet.

Decides emptiness / inclusion / equality of the languages of regex *constants*
(as `re._parser.parse` sees them under the flags of the `re.compile` call),
returns shortest witnesses, accepted lengths, nullability and whether the
pattern is deterministic (so that "first match by backtracking priority" and
"longest match" coincide).  Unsupported constructs raise `Unsupported`.
"""
import re
import re._constants as sc
import re._parser as sp
import collections
import warnings

MAXREP = sc.MAXREPEAT
MAXCP = 0x10FFFF


class Unsupported(Exception):
    pass


def _charset(items, flags):
    neg = False
    preds = []
    for op, av in items:
        if op is sc.NEGATE:
            neg = True
        elif op is sc.LITERAL:
            preds.append(('lit', av))
        elif op is sc.RANGE:
            preds.append(('range', av))
        elif op is sc.CATEGORY:
            # without re.ASCII a category of a str pattern is the Unicode one (\d = every decimal digit of every script)
            preds.append(('cat', av) if (flags & re.ASCII) else ('ucat', av))
        else:
            raise Unsupported(str(op))
    return neg, tuple(preds)


def _cat(cat, c):
    ch = chr(c)
    if cat is sc.CATEGORY_DIGIT:
        return ch in '0123456789'
    if cat is sc.CATEGORY_NOT_DIGIT:
        return ch not in '0123456789'
    if cat is sc.CATEGORY_SPACE:
        return ch in ' \t\n\r\f\v'
    if cat is sc.CATEGORY_NOT_SPACE:
        return ch not in ' \t\n\r\f\v'
    if cat is sc.CATEGORY_WORD:
        return c < 128 and (ch.isalnum() or ch == '_')
    if cat is sc.CATEGORY_NOT_WORD:
        return not (c < 128 and (ch.isalnum() or ch == '_'))
    raise Unsupported(str(cat))


def _ucat(cat, c):
    ch = chr(c)
    if cat is sc.CATEGORY_DIGIT:
        return ch.isdecimal()
    if cat is sc.CATEGORY_NOT_DIGIT:
        return not ch.isdecimal()
    if cat is sc.CATEGORY_SPACE:
        return ch.isspace()
    if cat is sc.CATEGORY_NOT_SPACE:
        return not ch.isspace()
    if cat is sc.CATEGORY_WORD:
        return ch.isalnum() or ch == '_'
    if cat is sc.CATEGORY_NOT_WORD:
        return not (ch.isalnum() or ch == '_')
    raise Unsupported(str(cat))


def cs_match(cs, c):
    neg, preds = cs
    r = False
    for k, av in preds:
        if k == 'lit' and c == av:
            r = True
        elif k == 'range' and av[0] <= c <= av[1]:
            r = True
        elif k == 'cat' and _cat(av, c):
            r = True
        elif k == 'ucat' and _ucat(av, c):
            r = True
    return r != neg


class NFA(object):
    def __init__(self):
        self.n = 0
        self.eps = collections.defaultdict(set)
        self.tr = collections.defaultdict(list)   # src -> [(charset, dst)]
        self.start = None
        self.end = None
        self.anch_start = False
        self.anch_end = False
        self.pattern = None

    def new(self):
        self.n += 1
        return self.n - 1


def _build(nfa, items, cur, flags, top, idx0=0):
    items = list(items)
    for i, (op, av) in enumerate(items):
        nxt = nfa.new()
        if op is sc.LITERAL:
            if flags & re.I:
                raise Unsupported('IGNORECASE')
            nfa.tr[cur].append(((False, (('lit', av),)), nxt))
        elif op is sc.NOT_LITERAL:
            nfa.tr[cur].append(((True, (('lit', av),)), nxt))
        elif op is sc.IN:
            nfa.tr[cur].append((_charset(av, flags), nxt))
        elif op is sc.ANY:
            nfa.tr[cur].append(((True, () if flags & re.S else (('lit', 10),)), nxt))
        elif op is sc.AT:
            if av is sc.AT_BEGINNING and top and i == 0 and not (flags & re.M):
                nfa.anch_start = True
                nfa.eps[cur].add(nxt)
            elif av is sc.AT_END and top and i == len(items) - 1 and not (flags & re.M):
                nfa.anch_end = True
                nfa.eps[cur].add(nxt)
            elif av is sc.AT_BEGINNING_STRING and top and i == 0:
                nfa.anch_start = True
                nfa.eps[cur].add(nxt)
            elif av is sc.AT_END_STRING and top and i == len(items) - 1:
                nfa.anch_end = 'Z'
                nfa.eps[cur].add(nxt)
            else:
                raise Unsupported('anchor %s not at the pattern boundary' % av)
        elif op is sc.SUBPATTERN:
            end = _build(nfa, av[3], cur, flags, False)
            nfa.eps[end].add(nxt)
        elif op is sc.BRANCH:
            for alt in av[1]:
                s0 = nfa.new()
                nfa.eps[cur].add(s0)
                end = _build(nfa, alt, s0, flags, False)
                nfa.eps[end].add(nxt)
        elif op in (sc.MAX_REPEAT, sc.MIN_REPEAT):
            lo, hi, sub = av
            c = cur
            for _ in range(lo):
                c = _build(nfa, sub, c, flags, False)
            if hi == MAXREP:
                loop = nfa.new()
                nfa.eps[c].add(loop)
                end = _build(nfa, sub, loop, flags, False)
                nfa.eps[end].add(loop)
                nfa.eps[loop].add(nxt)
            else:
                nfa.eps[c].add(nxt)
                for _ in range(hi - lo):
                    c2 = _build(nfa, sub, c, flags, False)
                    nfa.eps[c2].add(nxt)
                    c = c2
        else:
            raise Unsupported(str(op))
        cur = nxt
    return cur


def compile_nfa(pattern, flags=0):
    """NFA for the language of the pattern body (anchors ^ / $ at the pattern boundary recorded, not consumed)."""
    with warnings.catch_warnings():
        warnings.simplefilter('ignore')
        p = sp.parse(pattern, flags)
    fl = flags | p.state.flags
    nfa = NFA()
    nfa.pattern = pattern
    nfa.flags = fl
    s0 = nfa.new()
    nfa.start = s0
    nfa.end = _build(nfa, list(p), s0, fl, True)
    nfa.has_lazy = 'MIN_REPEAT' in repr(p)
    return nfa


def closure(nfa, S):
    st = list(S)
    seen = set(S)
    while st:
        q = st.pop()
        for r in nfa.eps.get(q, ()):
            if r not in seen:
                seen.add(r)
                st.append(r)
    return frozenset(seen)


def representatives(nfas, exclude=()):
    """one code point per class of the partition induced by every boundary mentioned in the patterns"""
    pts = {0, MAXCP + 1}
    for nfa in nfas:
        for src, lst in nfa.tr.items():
            for cs, dst in lst:
                for k, av in cs[1]:
                    if k == 'lit':
                        pts.update((av, av + 1))
                    elif k == 'range':
                        pts.update((av[0], av[1] + 1))
                    elif k in ('cat', 'ucat'):
                        for a, b in ((48, 57), (65, 90), (97, 122), (95, 95), (9, 13), (32, 32), (128, 128)):
                            pts.update((a, b + 1))
                        if k == 'ucat':
                            # witnesses beyond ASCII: a no-break space, a letter, Arabic-Indic and fullwidth digits
                            for a, b in ((0xA0, 0xA0), (0xE9, 0xE9), (0x660, 0x669), (0xFF10, 0xFF19)):
                                pts.update((a, b + 1))
    pts.update((10, 11))
    cuts = sorted(p for p in pts if 0 <= p <= MAXCP + 1)
    reps = []
    for a, b in zip(cuts, cuts[1:]):
        if a <= MAXCP and a not in exclude:
            reps.append(a)
    return reps


class DFA(object):
    def __init__(self, nfa, reps):
        self.reps = reps
        self.nfa = nfa
        start = closure(nfa, {nfa.start})
        self.start = start
        self.trans = {}
        self.states = {start}
        self.ambiguous = None   # (state, char) where two different consuming transitions are enabled
        work = [start]
        while work:
            S = work.pop()
            for c in reps:
                T = set()
                fired = 0
                for q in S:
                    for cs, dst in nfa.tr.get(q, ()):
                        if cs_match(cs, c):
                            T.add(dst)
                            fired += 1
                if fired > 1 and self.ambiguous is None:
                    self.ambiguous = (S, c)
                T = closure(nfa, T)
                self.trans[(S, c)] = T
                if T not in self.states:
                    self.states.add(T)
                    work.append(T)

    def accepting(self, S):
        return self.nfa.end in S


def _show(cps):
    return ''.join(chr(c) for c in cps)


def difference_witness(A, B):
    """shortest string accepted by DFA A and not by DFA B (same reps), or None"""
    assert A.reps == B.reps
    start = (A.start, B.start)
    seen = {start}
    q = collections.deque([(start, ())])
    while q:
        (sa, sb), w = q.popleft()
        if A.accepting(sa) and not B.accepting(sb):
            return _show(w)
        for c in A.reps:
            nx = (A.trans[(sa, c)], B.trans[(sb, c)])
            if nx not in seen:
                seen.add(nx)
                q.append((nx, w + (c,)))
    return None


def compare(pat_a, flags_a, pat_b, flags_b, exclude=()):
    """returns dict: only_a witness, only_b witness, states explored"""
    na, nb = compile_nfa(pat_a, flags_a), compile_nfa(pat_b, flags_b)
    reps = representatives([na, nb], exclude)
    da, db = DFA(na, reps), DFA(nb, reps)
    return {'only_a': difference_witness(da, db), 'only_b': difference_witness(db, da),
            'states': len(da.states) + len(db.states), 'classes': len(reps), 'dfa_a': da, 'dfa_b': db}


def nullable(nfa):
    return nfa.end in closure(nfa, {nfa.start})


def accepted_lengths(dfa, maxlen):
    """set of lengths n <= maxlen such that some string of length n is accepted"""
    cur = {dfa.start}
    out = set()
    for n in range(0, maxlen + 1):
        if any(dfa.accepting(S) for S in cur):
            out.add(n)
        nxt = set()
        for S in cur:
            for c in dfa.reps:
                nxt.add(dfa.trans[(S, c)])
        cur = nxt
    return out


def charclass_members(nfa):
    """for a pattern that is a single character class: the set of code points < 256 it matches"""
    trs = [(cs, dst) for lst in nfa.tr.values() for cs, dst in lst]
    if len(trs) != 1:
        return None
    cs = trs[0][0]
    return {c for c in range(0, 256) if cs_match(cs, c)}, cs
