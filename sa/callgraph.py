"""E3: resolved call graph over the package and exception-escape summaries.

Resolution order: self.m() through the class chain; Class.m(self, ...);
module functions and classes through the import map; x.m() where x has a known
receiver kind (table below, printed in the evidence); otherwise by method name
over all classes that define m (never for generic str/list/dict method names).
"""
import ast
import builtins

from .cfg import path_of
from . import astutil as A
from .core import AnalysisError

GENERIC = {'format', 'get', 'append', 'extend', 'insert', 'pop', 'split', 'strip', 'rstrip', 'lstrip', 'replace', 'join', 'find',
           'startswith', 'endswith', 'items', 'keys', 'values', 'write', 'read', 'close', 'sort', 'copy', 'search', 'match', 'group',
           'upper', 'lower', 'count', 'index', 'add', 'update', 'seek', 'isdigit', 'debug', 'error', 'info', 'warning', 'exception',
           'setLevel', 'getLogger', 'strftime', 'randint', 'findall', 'iter', 'iterfind', 'findtext', 'parse', 'getroot', 'remove',
           'set', 'next', 'isdir', 'isfile', 'basename', 'dirname', 'abspath', 'parse_args', 'add_argument', 'encode', 'decode',
           'clear', 'setdefault', 'lstrip', 'reverse', 'flush'}

# receiver kinds: access path (exact or last component) -> classes (module, class)
SEG = [('segment', 'Segment')]
COMP = [('segment', 'Composite'), ('segment', 'Element')]
MAPN = [('map_if', 'map_if'), ('map_if', 'loop_if'), ('map_if', 'segment_if'), ('map_if', 'element_if'), ('map_if', 'composite_if')]
ERRH = [('error_handler', 'err_handler'), ('error_handler', 'errh_list'), ('error_handler', 'errh_null')]
RECV = {
    'seg_data': SEG, 'seg': SEG, 'seg_obj': SEG, 'seg_temp': SEG, 'fake_seg': SEG, 'isa_seg': SEG, 'gs_seg': SEG, 'st_seg': SEG, 'ak1': SEG,
    'ge': SEG, 'ta1_seg': SEG, 'seg_base': SEG, 'self.seg_data': SEG, 'self.gs_seg': SEG, 'curr.seg_data': SEG, 'child.seg_data': SEG,
    'elem': COMP, 'ele_data': COMP, 'comp_data': COMP, 'comp1': COMP, 'ele': COMP, 'sub_ele': COMP, '_ele': COMP,
    'errh': ERRH, 'self.errh': ERRH,
    'node': MAPN, 'child': MAPN, 'seg_node': MAPN, 'loop_node': MAPN, 'child_node': MAPN, 'x12_node': MAPN, 'first_child_node': MAPN,
    'orig_node': MAPN, 'map_node': MAPN, 'self.x12_map_node': MAPN, 'cur_map': MAPN, 'control_map': MAPN, 'self.control_map': MAPN,
    'subele_node': MAPN, 'x12_seg_node': MAPN, 'x12_loop_node': MAPN, 'parent_x12_node': MAPN, 'segment_x12_node': MAPN,
    'self.parent': MAPN, 'self.root': [('map_if', 'map_if')], 'first': MAPN, 'map_node.parent': MAPN, 'imap': [('map_if', 'map_if')],
    'child.x12_map_node': MAPN, 'seg.x12_map_node': MAPN, 'curr.x12_map_node': MAPN, 'self.get_parent()': MAPN, 'id_elem': MAPN, 'p': MAPN,
    'src': [('x12file', 'X12Reader')], 'self.src': [('x12file', 'X12Reader')], 'self.raw': [('rawx12file', 'RawX12File')],
    'walker': [('map_walker', 'walk_tree')], 'self.walker': [('map_walker', 'walk_tree')],
    'self.counter': [('nodeCounter', 'NodeCounter')], 'walker.counter': [('nodeCounter', 'NodeCounter')], 'self.walker.counter': [('nodeCounter', 'NodeCounter')],
    'html': [('error_html', 'error_html')], 'xmldoc': [('x12xml_simple', 'x12xml_simple')], 'self.writer': [('xmlwriter', 'XMLWriter')],
    'self.wr': [('x12file', 'X12Writer')], 'wr': [('x12file', 'X12Writer')],
    'x12path': [('path', 'X12Path')], 'xpath': [('path', 'X12Path')], 'xp': [('path', 'X12Path')], 'child_path': [('path', 'X12Path')], 'k': [('path', 'X12Path')],
    'parent': [('path', 'X12Path')],
    'self.root.data_elements': [('dataele', 'DataElements')], 'self.root.ext_codes': [('codes', 'ExternalCodes')],
    'map_index_if': [('map_index', 'map_index')], 'self.map_index_if': [('map_index', 'map_index')],
    'err_iter': [('error_handler', 'err_iter')],
    'visitor': [('error_997', 'error_997_visitor'), ('error_999', 'error_999_visitor')],
    'visit_997': [('error_997', 'error_997_visitor')], 'visit_999': [('error_999', 'error_999_visitor')],
    'curr': [('x12context', 'X12LoopDataNode'), ('x12context', 'X12SegmentDataNode')], 'cur_data_node': [('x12context', 'X12LoopDataNode'), ('x12context', 'X12SegmentDataNode')],
    'cur_loop_node': [('x12context', 'X12LoopDataNode')], 'cur_tree': [('x12context', 'X12LoopDataNode')], 'loop': [('x12context', 'X12LoopDataNode')],
    'new_node': [('x12context', 'X12SegmentDataNode')], 'self.cur_isa_node': [('error_handler', 'err_isa')], 'self.cur_gs_node': [('error_handler', 'err_gs')],
    'self.cur_st_node': [('error_handler', 'err_st')], 'self.cur_seg_node': [('error_handler', 'err_seg'), ('error_handler', 'err_isa'), ('error_handler', 'err_gs'), ('error_handler', 'err_st')],
    'self.cur_ele_node': [('error_handler', 'err_ele')],
}

# attribute names that determine the kind of object they hold
FIELD_KIND = {'seg_data': SEG, 'x12_map_node': MAPN, 'errh': ERRH}

BUILTIN_EXC = {}
for _n in dir(builtins):
    _o = getattr(builtins, _n)
    if isinstance(_o, type) and issubclass(_o, BaseException):
        BUILTIN_EXC[_n] = [c.__name__ for c in _o.__mro__ if c is not object]


class Func(object):
    __slots__ = ('key', 'mod', 'qual', 'node', 'cls')

    def __init__(self, key, mod, qual, node, cls):
        self.key, self.mod, self.qual, self.node, self.cls = key, mod, qual, node, cls


class Graph(object):
    def __init__(self, ctx):
        self.ctx = ctx
        self.funcs = {}
        self.classes = {}        # (mod, cls) -> ClassDef
        self.class_by_name = {}  # cls -> [(mod, cls)]
        self.imports = {}        # mod -> {local name: ('mod', modname) | ('obj', modname, name)}
        self.exc = dict(BUILTIN_EXC)
        self.stats = {'calls': 0, 'resolved': 0, 'by_name': 0, 'unresolved_self': 0, 'external': 0}
        for name in ctx.module_names():
            m = ctx.mod(name)
            self.imports[name] = self._imports(name, m)
            for n in m.tree.body:
                if isinstance(n, ast.FunctionDef):
                    self._add(name, n.name, n, None)
                elif isinstance(n, ast.ClassDef):
                    self.classes[(name, n.name)] = n
                    self.class_by_name.setdefault(n.name, []).append((name, n.name))
                    for c in n.body:
                        if isinstance(c, ast.FunctionDef):
                            self._add(name, n.name + '.' + c.name, c, n.name)
        # exception hierarchy of the package
        for (mod, cn), c in self.classes.items():
            chain = self._exc_chain(mod, c, set())
            if chain:
                self.exc[cn] = chain
        self._edges = {}
        self._props = self._collect_properties()

    def _add(self, mod, qual, node, cls):
        key = '%s:%s' % (mod, qual)
        node._qual = qual
        node._mod = self.ctx.mod(mod)
        self.funcs[key] = Func(key, mod, qual, node, cls)

    def _imports(self, name, m):
        out = {}
        pkg_parts = name.split('.')[:-1]
        for n in ast.walk(m.tree):
            if isinstance(n, ast.Import):
                for a in n.names:
                    if a.name.startswith('pyx12'):
                        tgt = a.name[len('pyx12.'):] if a.name != 'pyx12' else ''
                        out[a.asname or a.name] = ('mod', tgt)
            elif isinstance(n, ast.ImportFrom):
                base = n.module or ''
                if n.level:
                    base = '.'.join(pkg_parts[:len(pkg_parts) - (n.level - 1)] + ([n.module] if n.module else []))
                elif base.startswith('pyx12'):
                    base = base[len('pyx12.'):] if base != 'pyx12' else ''
                else:
                    continue
                for a in n.names:
                    cand = (base + '.' + a.name).strip('.')
                    if cand in self.ctx.module_names():
                        out[a.asname or a.name] = ('mod', cand)
                    else:
                        out[a.asname or a.name] = ('obj', base, a.name)
        return out

    def _exc_chain(self, mod, c, seen):
        if (mod, c.name) in seen:
            return None
        seen.add((mod, c.name))
        for b in c.bases:
            bn = (path_of(b) or '').split('.')[-1]
            if bn in BUILTIN_EXC:
                return [c.name] + BUILTIN_EXC[bn]
            for (m2, cn) in self.class_by_name.get(bn, []):
                r = self._exc_chain(m2, self.classes[(m2, cn)], seen)
                if r:
                    return [c.name] + r
        return None

    def _collect_properties(self):
        out = {}
        for (mod, cn), c in self.classes.items():
            for f in c.body:
                if isinstance(f, ast.FunctionDef) and any(path_of(d) == 'property' for d in f.decorator_list):
                    out.setdefault(f.name, []).append('%s:%s.%s' % (mod, cn, f.name))
                if isinstance(f, ast.Assign) and isinstance(f.value, ast.Call) and path_of(f.value.func) == 'property' and f.value.args:
                    g = path_of(f.value.args[0])
                    if g:
                        out.setdefault(f.targets[0].id, []).append('%s:%s.%s' % (mod, cn, g))
        return out

    # -- class helpers
    def chain(self, mod, cn):
        out = []
        todo = [(mod, cn)]
        while todo:
            k = todo.pop(0)
            if k in out or k not in self.classes:
                continue
            out.append(k)
            for b in self.classes[k].bases:
                bn = (path_of(b) or '').split('.')[-1]
                for k2 in self.class_by_name.get(bn, []):
                    todo.append(k2)
        return out

    def method(self, mod, cn, meth):
        for (m2, c2) in self.chain(mod, cn):
            k = '%s:%s.%s' % (m2, c2, meth)
            if k in self.funcs:
                return k
        return None

    def subclasses_defining(self, mod, cn, meth):
        out = []
        for (m2, c2) in self.classes:
            if (mod, cn) in self.chain(m2, c2) and (m2, c2) != (mod, cn):
                k = '%s:%s.%s' % (m2, c2, meth)
                if k in self.funcs:
                    out.append(k)
        return out

    # -- resolution
    def resolve(self, f, call):
        """list of callee keys for a Call node inside function f (Func)"""
        self.stats['calls'] += 1
        r, m = A.call_target(call)
        out = []
        if m is None:
            return out
        if r is None:
            # plain name
            k = '%s:%s' % (f.mod, m)
            if k in self.funcs:
                out.append(k)
            elif (f.mod, m) in self.classes:
                out += self._ctor(f.mod, m)
            elif m in self.imports[f.mod]:
                imp = self.imports[f.mod][m]
                if imp[0] == 'obj':
                    k = '%s:%s' % (imp[1], imp[2])
                    if k in self.funcs:
                        out.append(k)
                    elif (imp[1], imp[2]) in self.classes:
                        out += self._ctor(imp[1], imp[2])
            elif m == 'next' and call.args:
                rk = self._kind(path_of(call.args[0]), f)
                for (m2, c2) in rk or []:
                    k = self.method(m2, c2, '__next__')
                    if k:
                        out.append(k)
            elif m == 'len' and call.args:
                rk = self._kind(path_of(call.args[0]), f)
                for (m2, c2) in rk or []:
                    k = self.method(m2, c2, '__len__')
                    if k:
                        out.append(k)
            if out:
                self.stats['resolved'] += 1
            else:
                self.stats['external'] += 1
            return out
        if r == 'self' and f.cls:
            k = self.method(f.mod, f.cls, m)
            if k:
                out.append(k)
                out += self.subclasses_defining(f.mod, f.cls, m)
                self.stats['resolved'] += 1
            else:
                self.stats['unresolved_self'] += 1
            return out
        # Class.m(self, ...) / module.func / module.Class(...)
        head = r.split('.')[0]
        if r in self.class_by_name and call.args and path_of(call.args[0]) == 'self':
            for (m2, c2) in self.class_by_name[r]:
                k = self.method(m2, c2, m)
                if k:
                    out.append(k)
        modname = self._module_of(f.mod, r)
        if modname is not None:
            k = '%s:%s' % (modname, m)
            if k in self.funcs:
                out.append(k)
            elif (modname, m) in self.classes:
                out += self._ctor(modname, m)
            # module.Class.method(...)
        if not out and modname is None:
            rk = self._kind(r, f)
            if rk is not None:
                for (m2, c2) in rk:
                    k = self.method(m2, c2, m)
                    if k:
                        out.append(k)
                    out += [x for x in self.subclasses_defining(m2, c2, m) if x not in out]
            elif m not in GENERIC:
                # by name over all classes
                for (m2, c2), c in self.classes.items():
                    k = '%s:%s.%s' % (m2, c2, m)
                    if k in self.funcs:
                        out.append(k)
                if out:
                    self.stats['by_name'] += 1
        if out:
            self.stats['resolved'] += 1
        else:
            self.stats['external'] += 1
        return sorted(set(out))

    def _ctor(self, mod, cn):
        k = self.method(mod, cn, '__init__')
        return [k] if k else []

    def _module_of(self, cur, recv):
        """module named by an access path like `pyx12.segment`, `validation`, `error_handler`"""
        imp = self.imports[cur]
        parts = recv.split('.')
        if parts[0] == 'pyx12' and len(parts) >= 2 and '.'.join(parts[1:]) in self.ctx.module_names():
            return '.'.join(parts[1:])
        if recv in imp and imp[recv][0] == 'mod':
            return imp[recv][1]
        if recv in imp and imp[recv][0] == 'obj' and (imp[recv][1] + '.' + imp[recv][2]).strip('.') in self.ctx.module_names():
            return (imp[recv][1] + '.' + imp[recv][2]).strip('.')
        return None

    def _kind(self, recv, f, _depth=0):
        if recv is None:
            return None
        if recv in RECV:
            return RECV[recv]
        last = recv.split('.')[-1]
        if '.' in recv and ('self.' + last) in RECV and recv.startswith('self.'):
            return RECV['self.' + last]
        if last in RECV and '.' not in recv:
            return RECV[last]
        # a field whose name says what it holds, whatever it is reached through (errh.cur_isa_node.seg_data)
        if '.' in recv and last in FIELD_KIND:
            return FIELD_KIND[last]
        # local bound to a constructor call, or only ever bound to expressions of one known kind (a renamed local
        # keeps the kind of what it was assigned), or the loop variable over a reader
        if '.' not in recv and _depth < 3:
            kinds = []
            unknown = False
            for s in ast.walk(f.node):
                if isinstance(s, ast.Assign) and len(s.targets) == 1 and path_of(s.targets[0]) == recv:
                    v = s.value
                    if isinstance(v, ast.Call):
                        r2, m2 = A.call_target(v)
                        if m2 in self.class_by_name:
                            kinds.append(self.class_by_name[m2])
                            continue
                        if m2 in ('copy', '__copy__') and r2:
                            k2 = self._kind(r2, f, _depth + 1)
                            if k2:
                                kinds.append(k2)
                                continue
                        unknown = True
                    elif path_of(v) and path_of(v) != recv:
                        k2 = self._kind(path_of(v), f, _depth + 1)
                        if k2:
                            kinds.append(k2)
                        else:
                            unknown = True
                    else:
                        unknown = True
                elif isinstance(s, (ast.For, ast.comprehension)) and path_of(s.target) == recv:
                    k2 = self._kind(path_of(s.iter), f, _depth + 1) if path_of(s.iter) else None
                    if k2 and any(c == 'X12Reader' for _m, c in k2):
                        kinds.append(SEG)
                    else:
                        unknown = True
            if kinds and not unknown:
                out = []
                for k in kinds:
                    for x in k:
                        if x not in out:
                            out.append(x)
                return out
        return None

    # -- implicit calls: for x in recv -> __iter__ ; subscripts -> __getitem__ ; property loads
    def implicit(self, f, node):
        out = []
        if isinstance(node, ast.For) or isinstance(node, ast.comprehension):
            rk = self._kind(path_of(node.iter), f)
            for (m2, c2) in rk or []:
                for meth in ('__iter__', '__next__'):
                    k = self.method(m2, c2, meth)
                    if k:
                        out.append(k)
        if isinstance(node, ast.Attribute) and isinstance(node.ctx, ast.Load) and node.attr in self._props:
            rk = self._kind(path_of(node.value), f)
            for k in self._props[node.attr]:
                mod, qual = k.split(':')
                cn = qual.split('.')[0]
                if rk is None or any((mod, cn) in self.chain(m2, c2) or (m2, c2) in self.chain(mod, cn) for (m2, c2) in rk):
                    if k in self.funcs:
                        out.append(k)
        if isinstance(node, ast.Subscript) and isinstance(node.ctx, ast.Load):
            rk = self._kind(path_of(node.value), f)
            for (m2, c2) in rk or []:
                k = self.method(m2, c2, '__getitem__')
                if k:
                    out.append(k)
        return out

    # -- handlers
    def caught_at(self, fnode, node):
        """set of exception class names caught by try blocks enclosing `node` inside function `fnode` ('*' = everything)"""
        out = set()
        p = A.parent(node)
        child = node
        while p is not None and p is not fnode:
            if isinstance(p, ast.Try) and child in p.body:
                for h in p.handlers:
                    if h.type is None:
                        out.add('*')
                    else:
                        for t in (h.type.elts if isinstance(h.type, ast.Tuple) else [h.type]):
                            nm = (path_of(t) or '').split('.')[-1]
                            # a handler that re-raises unconditionally does not catch
                            if len(h.body) == 1 and isinstance(h.body[0], ast.Raise) and h.body[0].exc is None:
                                continue
                            out.add('*' if nm in ('Exception', 'BaseException') else nm)
            child = p
            p = A.parent(p)
        return out

    def is_caught(self, cls, caught):
        if '*' in caught:
            return True
        return any(c in caught for c in self.exc.get(cls, [cls]))

    # -- escape summaries
    def escapes(self, entries):
        """fixed point: {func key: {(exc class, site key, file:line)}} and the reachable set from `entries`"""
        own = {}
        edges = {}
        for k, f in self.funcs.items():
            o = set()
            e = []
            for n in ast.walk(f.node):
                if A.enclosing_function(n) is not f.node and n is not f.node:
                    continue
                if isinstance(n, ast.Raise):
                    if n.exc is None:
                        continue
                    cls = (path_of(n.exc.func) if isinstance(n.exc, ast.Call) else path_of(n.exc)) or '?'
                    cls = cls.split('.')[-1]
                    if not self.is_caught(cls, self.caught_at(f.node, n)):
                        msg = ''
                        if isinstance(n.exc, ast.Call) and n.exc.args:
                            a0 = n.exc.args[0]
                            while isinstance(a0, ast.BinOp):
                                a0 = a0.left
                            if isinstance(a0, ast.Call) and isinstance(a0.func, ast.Attribute) and a0.func.attr == 'format':
                                a0 = a0.func.value
                            if isinstance(a0, ast.Constant):
                                msg = str(a0.value)[:60]
                            elif isinstance(a0, ast.Name):
                                msg = '<%s>' % a0.id
                                # a message kept in a local: the literal start of the first text bound to it names the refusal
                                firsts = [st.value for st in ast.walk(f.node) if isinstance(st, ast.Assign) and len(st.targets) == 1
                                          and path_of(st.targets[0]) == a0.id]
                                if firsts:
                                    b0 = firsts[0]
                                    while isinstance(b0, ast.BinOp):
                                        b0 = b0.left
                                    if isinstance(b0, ast.Call) and isinstance(b0.func, ast.Attribute) and b0.func.attr == 'format':
                                        b0 = b0.func.value
                                    if isinstance(b0, ast.JoinedStr) and b0.values and isinstance(b0.values[0], ast.Constant):
                                        b0 = b0.values[0]
                                    if isinstance(b0, ast.Constant) and isinstance(b0.value, str) and len({ast.dump(x) for x in firsts}) == 1:
                                        msg = str(b0.value)[:60]
                        o.add((cls, '%s raise %s(%s)' % (k, cls, msg), '%s:%d' % (f.node._mod.relpath, n.lineno)))
                elif isinstance(n, ast.Assert):
                    if not self.is_caught('AssertionError', self.caught_at(f.node, n)):
                        o.add(('AssertionError', '%s assert %s' % (k, ' '.join(ast.unparse(n.test).split())[:60]), '%s:%d' % (f.node._mod.relpath, n.lineno)))
                elif isinstance(n, ast.Call):
                    for callee in self.resolve(f, n):
                        e.append((callee, frozenset(self.caught_at(f.node, n))))
                for callee in self.implicit(f, n):
                    e.append((callee, frozenset(self.caught_at(f.node, n))))
            own[k] = o
            edges[k] = e
        self._edges = edges
        esc = {k: set(v) for k, v in own.items()}
        changed = True
        while changed:
            changed = False
            for k in self.funcs:
                for callee, caught in edges[k]:
                    for item in esc.get(callee, ()):
                        if item not in esc[k] and not self.is_caught(item[0], caught):
                            esc[k].add(item)
                            changed = True
        reach = set()
        st = [e for e in entries if e in self.funcs]
        missing = [e for e in entries if e not in self.funcs]
        if missing:
            raise AnalysisError('entry point(s) vanished: %s' % missing)
        while st:
            k = st.pop()
            if k in reach:
                continue
            reach.add(k)
            for callee, _ in edges[k]:
                st.append(callee)
        return esc, reach
