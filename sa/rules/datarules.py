"""F-DATA rules shared by C16, C14, C02, C15: node-by-node checks over the shipped maps."""
import ast
import os
import re

from ..core import Ob, AnalysisError
from ..cfg import path_of


def nodekey(n):
    """stable key of a map node: file + path (+ id for elements) -- never line numbers."""
    if n.kind in ('element', 'composite'):
        seg = n.parent
        while seg.kind != 'segment':
            seg = seg.parent
        nid = n.id if n.id is not None else 'comp%s' % n.seq_raw
        return '%s:%s/%s' % (n.file, seg.get_path(), nid)
    return '%s:%s' % (n.file, n.get_path())


def where(n):
    return 'pyx12/map/%s' % n.file


def scope_files(ctx):
    ms = ctx.maps
    files = list(ms.indexed_files())
    for f in ms.control_files():
        if f not in files:
            files.append(f)
    return files


def all_nodes(ctx, files=None):
    ms = ctx.maps
    for f in (files or scope_files(ctx)):
        m = ms.map(f)
        if m is None:
            continue
        for n in m.walk():
            yield n


# --------------------------------------------------------------------------- syntax notes
SYN_LETTERS = ('P', 'R', 'E', 'C', 'L')


def parse_note(text):
    """(letter, [positions]) or raises ValueError with the reason"""
    if not text:
        raise ValueError('empty note')
    t = text.strip()
    if t != text:
        raise ValueError('note has surrounding blanks')
    letter, digits = t[0], t[1:]
    if letter not in SYN_LETTERS:
        raise ValueError('letter %r not in PRECL' % letter)
    if not digits.isdigit():
        raise ValueError('positions are not all digits')
    if len(digits) % 2 or len(digits) < 4:
        raise ValueError('need an even number (>= 4) of digits, got %d' % len(digits))
    pos = [int(digits[i:i + 2]) for i in range(0, len(digits), 2)]
    if any(p < 1 for p in pos):
        raise ValueError('position < 1')
    if len(set(pos)) != len(pos):
        raise ValueError('positions repeat')
    return letter, pos


def syntax_note_obs(ctx, files=None, check_range=True):
    for n in all_nodes(ctx, files):
        if n.kind != 'segment':
            continue
        for i, text in enumerate(n.syntax):
            key = '%s syntax=%s' % (nodekey(n), text)
            try:
                letter, pos = parse_note(text)
            except ValueError as e:
                yield Ob(key, False, where(n), 'malformed syntax note: %s' % e)
                continue
            nchild = len(n.children)
            if check_range and max(pos) > nchild:
                yield Ob(key, False, where(n), 'note mentions position %d but segment %s has %d elements'
                         % (max(pos), n.id, nchild))
            else:
                yield Ob(key, True, where(n))


# --------------------------------------------------------------------------- loader field extraction
def loader_fields(ctx, clsname):
    """names read through elem.get('x') / elem.findtext('x') / v.get('x') in map_if.<cls>.__init__"""
    fn = ctx.func('map_if', clsname + '.__init__')
    names = set()
    for n in ast.walk(fn):
        if isinstance(n, ast.Call) and isinstance(n.func, ast.Attribute) and n.func.attr in ('get', 'findtext') \
                and n.args and isinstance(n.args[0], ast.Constant) and isinstance(n.args[0].value, str):
            root = n.func.value
            while isinstance(root, (ast.Attribute, ast.Call, ast.Subscript)):
                root = root.func if isinstance(root, ast.Call) else root.value
            if isinstance(root, ast.Name) and root.id in ('elem', 'e', 'v', 'eroot'):
                names.add(n.args[0].value)
    return names
