"""C19 HTML report shows every segment and error, with all source data escaped."""
import ast
import re

from ..core import require_idiom, Ob, Rule, AnalysisError, norm, KeyMaker
from ..cfg import path_of
from .. import astutil as A

META = {
    'explanation': (
        'R1 (taint) every piece of text interpolated into a self.fd.write() of error_html is either a constant, an '
        'integer conversion, map-derived text (loop id/name), the date line, or has passed escape_html_chars - in '
        'particular error messages (they embed input), the segment id and the three delimiters taken from the input. '
        'R2 escape_html_chars replaces & first and covers < and >. R3 in x12n_document, under fd_html, header() '
        'dominates the segment loop, every iteration passes exactly one html.gen_seg(seg, ...) and footer() follows '
        'the loop on every normal path. R4 the code filters of gen_seg partition the error codes (printed before the '
        'segment iff == "3", after it otherwise), every element error is printed, and the per-segment error cursor '
        'is drained before gen_seg.'),
    'not_decided': 'that stripping the markup recovers the source segments; completeness of the document for inputs where validation aborts',
    'trusted_base': ['source/sanitiser enumeration in sa/rules/c19.py'],
    'technique': 'static analysis: taint with sanitiser over format arguments, replace-chain extraction, dominance / must-pass-through on the CFG, finite evaluation of filter predicates',
}


META['explanation'] += ' Rounds 4-5: ' + 'R2 escape decided by constant propagation (decode(escape(t)) == t). R4 also: the condition under which an element error is written, evaluated over segment ids x message texts. R6 err_node.get_next_sibling steps to the immediate next sibling.'
META['technique'] = META.get('technique', 'static analysis: AST/CFG rules over /repo source + shipped XML data') + '; conditional constant propagation over the CFG on finite, complete input domains (DESIGN.md 10.4.1)'

SAFE_NAMES = {
    'err_cde': 'error codes are literals of the code base',
    'cur_line': 'integer line number',
    'info_str': 'loop id and name from the map, set by error_html.loop()',
}


def _error_names(fn):
    """view of a report function in which the components of an error record carry fixed names, however the code
    binds them: for X in <node>.errors / .get_error_list(..): X[0] -> err_cde, X[1] -> err_str (also for a tuple
    target, whatever its element names are)"""
    table = {}
    for n in ast.walk(fn):
        if isinstance(n, (ast.For, ast.comprehension)):
            it = n.iter
            is_err = (path_of(it) or '').endswith('.errors') or (isinstance(it, ast.Call) and A.call_target(it)[1] == 'get_error_list')
            if not is_err:
                continue
            if isinstance(n.target, ast.Name):
                table['%s[0]' % n.target.id] = 'err_cde'
                table['%s[1]' % n.target.id] = 'err_str'
            elif isinstance(n.target, ast.Tuple):
                for x, nm in zip(n.target.elts, ('err_cde', 'err_str', 'bad_value')):
                    if isinstance(x, ast.Name) and x.id != nm:
                        table[x.id] = nm
    if not table:
        fn._mod = getattr(fn, '_mod', None)
        return fn
    v, _found = A.named_view(fn, table)
    return v


def _safe_attrs(ctx):
    """self attributes of error_html whose every assignment is a constant or an escape_html_chars(...) call"""
    cls = ctx.cls('error_html', 'error_html')
    vals = {}
    for n in ast.walk(cls):
        if isinstance(n, ast.Assign):
            p = path_of(n.targets[0])
            if p and p.startswith('self.'):
                vals.setdefault(p, []).append(n.value)
    out = set()
    for p, vs in vals.items():
        if all(isinstance(v, ast.Constant) or (isinstance(v, ast.Call) and A.call_target(v)[1] == 'escape_html_chars') for v in vs):
            out.add(p)
    return out


_HELPER_CACHE = {}


def _helper_returns_safe(fn, name, safe_attrs):
    """a method of the same class (other than the known builders) all of whose return values are safe text, its
    parameters being treated as unsafe"""
    cls = A.enclosing(fn, (ast.ClassDef,))
    if cls is None or name in ('_seg_str', '_wrap_ele_error'):
        return False
    key = (id(cls), name)
    if key in _HELPER_CACHE:
        return _HELPER_CACHE[key]
    _HELPER_CACHE[key] = False
    h = next((f for f in cls.body if isinstance(f, ast.FunctionDef) and f.name == name), None)
    ok = False
    if h is not None:
        rets = [n.value for n in ast.walk(h) if isinstance(n, ast.Return) and n.value is not None]
        ok = bool(rets) and all(_piece_safe(v, None, safe_attrs, h)[0] for v in rets)
    _HELPER_CACHE[key] = ok
    return ok


def _piece_safe(e, fmt_spec, safe_attrs, fn, _seen=None):
    """(safe?, why)"""
    _seen = _seen if _seen is not None else set()
    if isinstance(e, ast.BinOp) and isinstance(e.op, ast.Add):
        l, r = _piece_safe(e.left, None, safe_attrs, fn, _seen), _piece_safe(e.right, None, safe_attrs, fn, _seen)
        if l[0] and r[0]:
            return True, 'concatenation of safe text'
        return l if not l[0] else r
    if fmt_spec in ('i', 'd'):
        return True, 'integer conversion'
    if isinstance(e, ast.Constant):
        return True, 'constant'
    if isinstance(e, ast.IfExp):
        l, r = _piece_safe(e.body, None, safe_attrs, fn, _seen), _piece_safe(e.orelse, None, safe_attrs, fn, _seen)
        if l[0] and r[0]:
            return True, 'either alternative is safe'
        return l if not l[0] else r
    if isinstance(e, (ast.ListComp, ast.GeneratorExp)):
        return _piece_safe(e.elt, None, safe_attrs, fn, _seen)
    if isinstance(e, (ast.List, ast.Tuple)):
        for x in e.elts:
            r_ = _piece_safe(x, None, safe_attrs, fn, _seen)
            if not r_[0]:
                return r_
        return True, 'all items safe'
    if isinstance(e, ast.Call):
        r, m = A.call_target(e)
        if r == 'self' and _helper_returns_safe(fn, m, safe_attrs):
            return True, 'built by %s, which returns escaped text only' % m
        if m == 'escape_html_chars':
            return True, 'escaped'
        if (r, m) == ('time', 'strftime'):
            return True, 'date line'
        if (r, m) == ('self', '_seg_str') or (r, m) == ('self', '_wrap_ele_error'):
            return True, 'built by %s (checked separately)' % m
    p = path_of(e)
    if p in SAFE_NAMES:
        return True, SAFE_NAMES[p]
    if p in safe_attrs:
        return True, 'attribute only ever assigned constants or escaped text'
    if isinstance(e, ast.Name):
        # loop variable over a tuple/list of constants
        for lp_ in ast.walk(fn):
            if isinstance(lp_, ast.For) and isinstance(lp_.target, ast.Name) and lp_.target.id == e.id and isinstance(lp_.iter, (ast.Tuple, ast.List)) \
                    and all(isinstance(x, ast.Constant) for x in lp_.iter.elts):
                return True, 'constant text from a literal table'
        # local assigned only from safe expressions?
        if e.id in _seen:
            return True, 'recursive reference'
        vals = [s.value for s in ast.walk(fn) if isinstance(s, ast.Assign) and any(path_of(t) == e.id for t in s.targets)]
        if vals and all(_piece_safe(v, None, safe_attrs, fn, _seen | {e.id})[0] for v in vals):
            return True, 'local bound to safe text'
    return False, 'input-derived text `%s` is written without escape_html_chars' % norm(e)


def _format_pieces(arg):
    """[(expr, conversion char)] of a write argument"""
    if isinstance(arg, ast.BinOp) and isinstance(arg.op, ast.Mod) and A.is_str(arg.left):
        specs = re.findall(r'%[-0-9.]*([a-zA-Z%])', arg.left.value)
        specs = [s for s in specs if s != '%']
        vals = list(arg.right.elts) if isinstance(arg.right, ast.Tuple) else [arg.right]
        return list(zip(vals, specs + [None] * (len(vals) - len(specs))))
    if isinstance(arg, ast.BinOp) and isinstance(arg.op, ast.Add):
        return _format_pieces(arg.left) + _format_pieces(arg.right)
    if isinstance(arg, ast.Call) and isinstance(arg.func, ast.Attribute) and arg.func.attr == 'format' and A.is_str(arg.func.value):
        return [(a, None) for a in arg.args] + [(k.value, None) for k in arg.keywords]
    if isinstance(arg, ast.JoinedStr):
        return [(v.value, None) for v in arg.values if isinstance(v, ast.FormattedValue)]
    return [(arg, None)]


def r1_escaping(ctx):
    km = KeyMaker()
    cls = ctx.cls('error_html', 'error_html')
    safe_attrs = _safe_attrs(ctx)
    n_w = 0
    for f in cls.body:
        if not isinstance(f, ast.FunctionDef):
            continue
        f._mod = ctx.mod('error_html')
        f = _error_names(f)
        for c in A.calls_in(f):
            if A.call_target(c) == ('self.fd', 'write') and c.args:
                n_w += 1
                for e, spec in _format_pieces(c.args[0]):
                    ok, why = _piece_safe(e, spec, safe_attrs, f)
                    yield Ob(km('error_html:error_html.%s write <- %s' % (f.name, norm(e, 50))), ok, ctx.loc('error_html', c),
                             '' if ok else why, note=why if ok else None, nontrivial=not isinstance(e, ast.Constant))
    if n_w < 10:
        raise AnalysisError('error_html: only %d writes found' % n_w)
    # _seg_str: segment id and delimiters
    f = ctx.func('error_html', 'error_html._seg_str')
    ret = [n for n in ast.walk(f) if isinstance(n, ast.Return)][0]
    pieces = []

    def flat(e):
        if isinstance(e, ast.BinOp) and isinstance(e.op, ast.Add):
            flat(e.left)
            flat(e.right)
        elif isinstance(e, ast.Call) and A.call_target(e) == (None, 'seg_str'):
            # first argument: the element list; `ele_list` itself holds escaped values (checked in gen_seg),
            # anything spliced into it must be safe on its own
            def items(x):
                if isinstance(x, ast.BinOp) and isinstance(x.op, ast.Add):
                    return items(x.left) + items(x.right)
                if isinstance(x, (ast.List, ast.Tuple)):
                    return list(x.elts)
                return [x]
            for it in items(e.args[0]) if e.args else []:
                if path_of(it) != 'ele_list':
                    pieces.append(it)
            for a in e.args[1:]:
                pieces.append(a)
        else:
            pieces.append(e)
    flat(ret.value)
    for e in pieces:
        if path_of(e) == 'self.eol':
            continue
        ok, why = _piece_safe(e, None, safe_attrs, f)
        yield Ob(km('error_html:error_html._seg_str <- %s' % norm(e, 40)), ok, ctx.floc(f, ret), '' if ok else why)
    # element values are escaped in gen_seg before they go into the element list
    f = ctx.func('error_html', 'error_html.gen_seg')
    # every element value read from the segment reaches the output through escape_html_chars: each get_value() call
    # that is not part of a test sits inside the argument of an escape call
    def _root(e):
        while isinstance(e, (ast.Attribute, ast.Subscript, ast.Call)):
            e = e.func if isinstance(e, ast.Call) else e.value
        return e.id if isinstance(e, ast.Name) else None
    gvs = [c for c in A.calls_in(f) if isinstance(c.func, ast.Attribute) and c.func.attr in ('get_value', 'format')
           and _root(c.func.value) == 'seg_data']
    bad_gv = []
    for c in gvs:
        p_ = A.parent(c)
        wrapped = False
        in_test = False
        child = c
        while p_ is not None and not isinstance(p_, ast.stmt):
            if isinstance(p_, ast.Call) and A.call_target(p_)[1] == 'escape_html_chars':
                wrapped = True
            if isinstance(p_, ast.Call) and A.call_target(p_)[0] == 'self' and _helper_returns_safe(f, A.call_target(p_)[1], _safe_attrs(ctx)):
                wrapped = True
            if isinstance(p_, (ast.Compare,)):
                in_test = True
            child = p_
            p_ = A.parent(p_)
        if isinstance(p_, (ast.If, ast.While)) and child is p_.test:
            in_test = True
        if not wrapped and not in_test:
            bad_gv.append(c)
    ok = bool(gvs) and not bad_gv
    yield Ob('error_html:error_html.gen_seg element values are escaped', ok, ctx.floc(f), '' if ok else 'a get_value() result is used unescaped')
    apps = [c for c in A.calls_in(f) if A.call_target(c)[1] == 'append' and c.args and not isinstance(c.args[0], ast.List)]
    sa_ = _safe_attrs(ctx)
    ok = all(_piece_safe(c.args[0], None, sa_, f)[0] for c in apps)
    yield Ob('error_html:error_html.gen_seg only escaped values enter the element list', ok, ctx.floc(f), '' if ok else 'appends: %s' % [norm(c) for c in apps])


def r2_escape_chain(ctx):
    """what escape_html_chars returns, decided by constant propagation through it (str.replace on constant text): & < >
    become their entities, the ampersand exactly once (replaced first), a text without special characters keeps its
    letters and digits"""
    from ..absint import run_function, helper_oracles, NotClosedTest
    f = ctx.func('error_html', 'escape_html_chars')
    funcs = helper_oracles(ctx, 'error_html')

    rxenv = A.module_regexes(ctx.mod('error_html').tree)

    def esc(t):
        try:
            return run_function(ctx.cfg(f), f, [t], funcs, env=dict(rxenv))
        except (NotClosedTest, A.NotClosed) as e:
            raise AnalysisError('escape_html_chars cannot be evaluated on the text %r: %s' % (t, e))
    import html as _html
    probe = 'a&b<c>d e&amp;f'
    got = esc(probe)
    # decoding the entities of the output once gives the input back (a non-breaking space stands for a blank)
    ok = isinstance(got, str) and _html.unescape(got).replace('\xa0', ' ') == probe and '<' not in got and '>' not in got
    yield Ob('error_html:escape_html_chars replaces & first', ok, ctx.floc(f),
             '' if ok else '%r is written as %r: a later replacement\'s & is escaped twice, or & never' % (probe, got))
    for ch, ent in (('<', '&lt;'), ('>', '&gt;'), ('&', '&amp;')):
        got = esc('x%sy' % ch)
        ok = got == 'x%sy' % ent
        yield Ob('error_html:escape_html_chars covers %s' % ch, ok, ctx.floc(f), '' if ok else '%r is written as %r, not as %s' % (ch, got, ent))
    got = esc('NM1*85*2')
    ok = got == 'NM1*85*2'
    yield Ob('error_html:escape_html_chars returns the escaped text', ok, ctx.floc(f), '' if ok else 'plain text %r comes back as %r' % ('NM1*85*2', got))


def r3_every_segment(ctx):
    fn = ctx.func('x12n_document', 'x12n_document')
    g = ctx.cfg(fn)
    dom = g.dominators()
    loop = [n for n in g.nodes if n.kind == 'for' and isinstance(n.stmt, ast.For) and path_of(n.stmt.iter) == 'src']
    if len(loop) != 1:
        raise AnalysisError('x12n_document: segment loop not found')
    head = loop[0]

    def calls(n, recv, meth):
        return any(isinstance(x, ast.Call) and A.call_target(x) == (recv, meth) for x in g.walk_exprs(n))
    hdr = [n for n in g.nodes if calls(n, 'html', 'header')]
    ftr = [n for n in g.nodes if calls(n, 'html', 'footer')]
    gen = [n for n in g.nodes if calls(n, 'html', 'gen_seg')]
    ok = len(hdr) == 1 and hdr[0].id in dom[head.id] or (len(hdr) == 1 and _guarded_by(g, hdr[0], 'fd_html') and hdr[0].id < head.id)
    yield Ob('x12n_document:x12n_document html.header() before the segment loop', bool(ok), ctx.floc(fn), '' if ok else 'header call moved')
    ok = len(gen) == 1 and _guarded_by(g, gen[0], 'fd_html')
    yield Ob('x12n_document:x12n_document one html.gen_seg per iteration under fd_html', ok, ctx.floc(fn), '' if ok else '%d gen_seg calls' % len(gen))
    if gen:
        c = [x for x in g.walk_exprs(gen[0]) if isinstance(x, ast.Call) and A.call_target(x) == ('html', 'gen_seg')][0]
        ok = len(c.args) == 3 and path_of(c.args[0]) == 'seg' and path_of(c.args[1]) == 'src'
        yield Ob('x12n_document:x12n_document gen_seg receives the current segment', ok, ctx.floc(fn, c), '' if ok else 'arguments %s' % [norm(a) for a in c.args])
        # every path through an iteration with fd_html true passes gen_seg: from the loop head (next edge) back to the head
        # without passing gen_seg, the only way must be through the F edge of an `fd_html` test (or an exception)
        fd_tests = {(n.id, 'F') for n in g.nodes if n.kind == 'test' and path_of(n.ast) == 'fd_html'}
        body_start = [s for s, l in head.succ if l == 'next']
        path = None
        for s in body_start:
            path = g.find_path(s, lambda x: x is head, blocked=lambda x: x is gen[0],
                               edge_ok=lambda a, l, b: (a.id, l) not in fd_tests and b is not g.rexit, use_exc=True) if s is not gen[0] else None
            if path:
                break
        # `continue`-free loop: the walk may legally skip only through the fd_html F edge
        yield Ob('x12n_document:x12n_document no iteration skips gen_seg when HTML is on', path is None, ctx.floc(fn),
                 '' if path is None else 'a path through the loop body reaches the next iteration without gen_seg: a segment would be missing from the report',
                 detail={'path': [repr(p) for p in (path or [])][-6:]})
    ok = len(ftr) == 1 and _guarded_by(g, ftr[0], 'fd_html') and ftr[0].id > head.id
    yield Ob('x12n_document:x12n_document html.footer() after the loop', ok, ctx.floc(fn), '' if ok else 'footer call moved')
    # the error cursor is drained before gen_seg: a `while True` with next(err_iter) ... break on IterOutOfBounds
    # in every iteration the error cursor is advanced to its end, every node it passes is collected in the list that
    # gen_seg receives, and nothing but the cursor's own end-of-data exception ends that collection
    why = None
    if not gen:
        why = 'no gen_seg call'
    else:
        c = [x for x in g.walk_exprs(gen[0]) if isinstance(x, ast.Call) and A.call_target(x) == ('html', 'gen_seg')][0]
        lst = path_of(c.args[2]) if len(c.args) > 2 else None
        apps = []
        cur_name = 'err_iter'
        cursors = {path_of(s_.targets[0]) for s_ in ast.walk(fn) if isinstance(s_, ast.Assign) and len(s_.targets) == 1 and isinstance(s_.value, ast.Call)
                   and A.call_target(s_.value)[1] == 'err_iter'} | {'err_iter'}
        for x in ast.walk(fn):
            if isinstance(x, ast.Call) and lst and A.call_target(x) == (lst, 'append') and x.args:
                v = x.args[0]
                if isinstance(v, ast.Name):
                    defs = [s_.value for s_ in ast.walk(fn) if isinstance(s_, ast.Assign) and path_of(s_.targets[0]) == v.id]
                    v = defs[0] if len(defs) == 1 else v
                # the cursor is whatever object is bound from err_iter(errh); its name does not matter
                if isinstance(v, ast.Call) and A.call_target(v)[1] == 'get_cur_node' and A.call_target(v)[0] in cursors:
                    apps.append(x)
                    cur_name = A.call_target(v)[0]
        if len(apps) != 1:
            why = 'the list passed to gen_seg is not filled from err_iter.get_cur_node() (%d such appends)' % len(apps)
        else:
            w = A.enclosing(apps[0], (ast.While,))
            if w is None:
                why = 'the cursor is read once, not until its end'
            elif A.const(w.test) is not True:
                why = 'the collection loop runs only while `%s`: errors reported while that is false are not collected for this segment' % norm(w.test)
            elif not any(isinstance(x, ast.Call) and path_of(x.func) == 'next' and x.args and path_of(x.args[0]) == cur_name for x in ast.walk(w)):
                why = 'the collection loop does not advance the cursor'
            else:
                exits = [x for x in ast.walk(w) if isinstance(x, (ast.Break, ast.Return))]
                ok_exits = all(isinstance(A.enclosing(x, (ast.ExceptHandler,)), ast.ExceptHandler)
                               and 'IterOutOfBounds' in norm(A.enclosing(x, (ast.ExceptHandler,)).type or '') for x in exits)
                if not exits:
                    # no break at all: only an exception ends the loop - it must be the cursor's own, caught right outside
                    tr = A.enclosing(w, (ast.Try,))
                    ok_exits = tr is not None and w in tr.body and bool(tr.handlers) \
                        and all('IterOutOfBounds' in norm(h.type or '') for h in tr.handlers)
                if not ok_exits:
                    why = 'the collection loop can end before the cursor is exhausted'
                else:
                    wn = [n for n in g.nodes if n.kind == 'loophead' and n.stmt is w]
                    if not wn or wn[0].id not in dom[gen[0].id]:
                        why = 'the collection loop does not run before gen_seg on every path'
    yield Ob('x12n_document:x12n_document error cursor drained into err_node_list', why is None, ctx.floc(fn), why or '')


def _guarded_by(g, node, name):
    dom = g.dominators()[node.id]
    for d in dom:
        t = g.nodes[d]
        if t.kind == 'test' and path_of(t.ast) == name:
            if any(l == 'T' and (s.id in dom or s.id == node.id) for s, l in t.succ):
                return True
    return False


def r4_every_error(ctx):
    f = _error_names(ctx.func('error_html', 'error_html.gen_seg'))
    tests = []
    for n in ast.walk(f):
        if isinstance(n, ast.If) and isinstance(n.test, ast.Compare) and path_of(n.test.left) == 'err_cde' \
                and any(A.call_target(c) == ('self.fd', 'write') for c in A.calls_in(ast.Module(body=n.body, type_ignores=[]))):
            tests.append(n)
    ok = len(tests) == 2
    yield Ob('error_html:error_html.gen_seg has a before-segment and an after-segment filter', ok, ctx.floc(f), '' if ok else '%d code filters' % len(tests))
    if ok:
        bad = []
        for code in ('1', '2', '3', '4', '5', '6', '7', '8', '001', '021', '024', 'HL1', 'LX', 'SEG1', '23', ''):
            hits = sum(1 for t in tests if A.ev(t.test, {'err_cde': code}))
            if hits != 1:
                bad.append((code, hits))
        yield Ob('error_html:error_html.gen_seg code filters partition the codes', not bad, ctx.floc(f),
                 '' if not bad else 'code %r is printed %d times' % bad[0])
        # order: the `== 3` filter before the segment line, the other after
        seg_write = [c for c in A.calls_in(f) if A.call_target(c) == ('self.fd', 'write') and 'class="seg"' in ast.unparse(c)]
        po = A.preorder(f)
        tests.sort(key=lambda t: po[id(t)])
        ok2 = len(seg_write) == 1 and po[id(tests[0])] < po[id(seg_write[0])] < po[id(tests[1])]
        yield Ob('error_html:error_html.gen_seg segment line between the two error blocks', ok2, ctx.floc(f), '' if ok2 else 'order changed')
        pre = [t for t in tests if A.ev(t.test, {'err_cde': '3'})]
        ok3 = len(pre) == 1 and pre[0] is tests[0]
        yield Ob('error_html:error_html.gen_seg only code 3 is printed before the segment', ok3, ctx.floc(f), '' if ok3 else 'filters swapped')
    # both blocks iterate all nodes and their error lists
    loops = [n for n in ast.walk(f) if isinstance(n, ast.For) and path_of(n.iter) == 'err_node_list'] + \
        [g_ for n in ast.walk(f) if isinstance(n, (ast.ListComp, ast.SetComp, ast.DictComp, ast.GeneratorExp)) for g_ in n.generators
         if path_of(g_.iter) == 'err_node_list']
    ok = len(loops) >= 3
    yield Ob('error_html:error_html.gen_seg iterates every collected error node', ok, ctx.floc(f), '' if ok else '%d loops over err_node_list' % len(loops))
    inner = [n for n in ast.walk(f) if isinstance(n, ast.For) and norm(n.iter) == 'err_node.elements']
    ele_write = any('Error Code' in ast.unparse(n) and 'Element' in ast.unparse(n) for n in inner)
    yield Ob('error_html:error_html.gen_seg prints element errors', ele_write, ctx.floc(f), '' if ele_write else 'element error block removed')
    # ... and prints each of them: the condition under which an element error is written, evaluated over segment ids and
    # message texts.  The one accepted omission is the repetition of a GS element error on the GE line.
    ew = [c for n in inner for c in A.calls_in(n) if A.call_target(c) == ('self.fd', 'write') and 'Element' in ast.unparse(c)]
    if ele_write and ew:
        conds = A.path_condition(ew[0], f)

        class _Seg(object):
            _sa_model = True

            def __init__(self, sid):
                self.sid = sid

            def get_seg_id(self):
                return self.sid
        bad = None
        try:
            for sid in ('GE', 'GS', 'NM1', 'IEA', 'SE'):
                for msg in ('Data element "Date" (GS04) is invalid', 'value HIGGS BIGSTUFF is too long (NM109)', 'plain message', ''):
                    for code in ('1', '5', '7', '8'):
                        env = {'seg_data': _Seg(sid), 'err_str': msg, 'err_cde': code, 'bad_value': 'X', 'seg_id': sid}
                        written = all(bool(A.ev(t, env)) == pol for t, pol in conds)
                        if not written and not (sid == 'GE' and 'GS' in msg):
                            bad = (sid, msg, code)
        except A.NotClosed as e:
            raise AnalysisError('error_html.gen_seg: the condition under which an element error is written cannot be evaluated (%s)' % e)
        yield Ob('error_html:error_html.gen_seg prints every element error of the segment', bad is None, ctx.floc(f, ew[0]),
                 '' if bad is None else 'an element error with code %s and message %r on a %s segment is left out of the report' % (bad[2], bad[1], bad[0]))
    # the line written carries the line number and the segment text
    seg_write = [c for c in A.calls_in(f) if A.call_target(c) == ('self.fd', 'write') and 'class="seg"' in ast.unparse(c)]
    if seg_write:
        pcs = [norm(e) for e, s in _format_pieces(seg_write[0].args[0])]
        ok = pcs[:1] in (['cur_line'], ['src.cur_line']) and any('_seg_str' in p for p in pcs)
        yield Ob('error_html:error_html.gen_seg segment line = line number + segment text', ok, ctx.floc(f), '' if ok else 'pieces %s' % pcs)
    # all elements of the segment are rendered: range(1, len(seg_data) + 1)
    rng = [n for n in ast.walk(f) if isinstance(n, ast.For) and isinstance(n.iter, ast.Call) and path_of(n.iter.func) == 'range'
           and 'len(seg_data)' in norm(n.iter)]
    ok = False
    if rng:
        try:
            a = [A.ev(x, {'seg_data': (0,) * 5}) for x in rng[0].iter.args]
            ok = list(range(*a)) == [1, 2, 3, 4, 5]
        except A.NotClosed:
            ok = False
    yield Ob('error_html:error_html.gen_seg renders every element position', ok, ctx.floc(f), '' if ok else 'element range changed')


def r6_error_iterator_steps(ctx):
    """the report collects the error nodes of a segment by stepping the error iterator from node to node; a step that
    passes over a sibling loses that node's messages.  err_node.get_next_sibling decided by constant propagation on a
    parent with four children: from each child the next one, from the last none."""
    from ..absint import run_function, NotClosedTest
    fn = ctx.func('error_handler', 'err_node.get_next_sibling')
    kids = tuple(A.Model('child%d' % i) for i in range(4))
    parent = A.Model('parent', children=kids)
    bad = []
    for i, k in enumerate(kids):
        k.parent = parent
    for i, k in enumerate(kids):
        try:
            got = run_function(ctx.cfg(fn), fn, [k], {})
        except (NotClosedTest, A.NotClosed) as e:
            raise AnalysisError('err_node.get_next_sibling cannot be decided: %s' % e)
        want = kids[i + 1] if i + 1 < len(kids) else None
        if got is not want:
            bad.append('from child %d of 4 the next sibling is %s, not %s' % (i, got, want))
    yield Ob('error_handler:err_node.get_next_sibling steps to the following sibling', not bad, ctx.floc(fn),
             '' if not bad else bad[0] + ': the error nodes in between never reach the report')


class _TreeNode(object):
    """model of an error-tree node for the iterator: structure and closed flag are set by the scenario"""
    _sa_model = True

    def __init__(self, id, parent=None):
        self.id = id
        self.parent = parent
        self.children = []
        self.closed = id == 'ROOT' or id not in ('ISA', 'GS', 'ST')
        if parent is not None:
            parent.children.append(self)

    def get_first_child(self):
        return self.children[0] if self.children else None

    def get_next_sibling(self):
        if self.parent is None:
            return None
        i = self.parent.children.index(self)
        return self.parent.children[i + 1] if i + 1 < len(self.parent.children) else None

    def get_parent(self):
        return self.parent

    def is_closed(self):
        return self.closed

    def __repr__(self):
        return self.id


def _iter_step(ctx, fn, cur, stack):
    """one err_iter.__next__ by constant propagation: ('moved'|'stopped', cur_node, visit_stack)"""
    from ..absint import explore, NotClosedTest
    g = ctx.cfg(fn)
    outs = []

    def on_node(nd, env):
        if nd.kind == 'raise':
            outs.append(('stopped', env.get('self.cur_node'), env.get('self.visit_stack')))
        elif nd.kind == 'return':
            outs.append(('moved', env.get('self.cur_node'), env.get('self.visit_stack')))
        elif nd is g.exit and not env.get('@done'):
            pass

    def unk(nd, env):
        raise NotClosedTest(ast.unparse(nd.ast) if nd.ast is not None else '?')
    fell = []

    def on_node2(nd, env):
        on_node(nd, env)
        if nd.kind not in ('raise', 'return') and any(s_ is g.exit and l != 'exc' for s_, l in nd.succ) and nd.kind != 'test':
            fell.append(('moved', nd, env))
    visited = explore(g, {'self.cur_node': cur, 'self.visit_stack': tuple(stack)}, on_node=on_node2, on_unknown=unk)
    # a path that falls off the end is a normal return: its environment is the one after the last statement - re-run with a
    # recorder at the exit node
    if not outs or fell:
        res = []

        def at_exit(nd, env):
            if nd is g.exit:
                res.append(('moved', env.get('self.cur_node'), env.get('self.visit_stack')))
        explore(g, {'self.cur_node': cur, 'self.visit_stack': tuple(stack)}, on_node=at_exit, on_unknown=unk)
        stopped = [o for o in outs if o[0] == 'stopped']
        outs = stopped if stopped else res
    uniq = []
    for o in outs:
        if o not in uniq:
            uniq.append(o)
    if len(uniq) != 1:
        raise AnalysisError('err_iter.__next__: %d outcomes from node %s' % (len(uniq), cur))
    return uniq[0]


def r8_iterator_collects(ctx):
    """the report driver steps the iterator after every segment until it stops and prints the errors of the nodes it
    passed.  err_iter.__next__ decided by constant propagation over model trees, replaying the driver for an interchange
    / group / set (with and without segment nodes below the set), then a second interchange: the set node is collected
    at its ST and again at its SE, the group at GS and GE, the interchange at ISA and IEA - also when nothing below it
    had an error - and the nodes of the second interchange are collected like those of the first."""
    fn = ctx.func('error_handler', 'err_iter.__next__')
    bad = []
    scenarios = 0
    for with_segs in (False, True):
        root = _TreeNode('ROOT')
        state = {'cur': root, 'stack': ()}

        def drive():
            got = []
            for _i in range(12):
                kind, cur, stack = _iter_step(ctx, fn, state['cur'], state['stack'])
                state['cur'], state['stack'] = cur, tuple(stack or ())
                if kind == 'stopped':
                    return got
                got.append(cur)
            raise AnalysisError('err_iter.__next__ does not stop on a finite tree')
        log = []
        for n_isa in (1, 2):
            isa = _TreeNode('ISA', root)
            log.append(('ISA%d' % n_isa, [isa], drive()))
            gs = _TreeNode('GS', isa)
            log.append(('GS', [gs], drive()))
            st = _TreeNode('ST', gs)
            log.append(('ST', [st], drive()))
            log.append(('body segment without errors', [], drive()))
            if with_segs:
                s1 = _TreeNode('NM1', st)
                log.append(('body segment with errors', [s1], drive()))
                s2 = _TreeNode('CLM', st)
                log.append(('body segment with errors', [s2], drive()))
            st.closed = True
            log.append(('SE', [st], drive()))
            gs.closed = True
            log.append(('GE', [gs], drive()))
            isa.closed = True
            log.append(('IEA', [isa], drive()))
        scenarios += 1
        for seg, want, got in log:
            if got != want and len(bad) < 3:
                bad.append('%s: at %s the report collects %s, the errors to print there are on %s' % (
                    'set with segment errors' if with_segs else 'set without segment errors', seg, got or 'nothing', want or 'no node'))
    yield Ob('error_handler:err_iter.__next__ collects each loop node at its header and at its trailer, in every interchange', not bad, ctx.floc(fn),
             '' if not bad else '; '.join(bad), note='%d scenarios' % scenarios)


_LEVELS = (('err_isa', 'isa', 'ISA', 'IEA'), ('err_gs', 'gs', 'GS', 'GE'), ('err_st', 'st', 'ST', 'SE'))


def _raised_codes(ctx, level):
    """literal codes the reader raises for an envelope level: (at the header, at the trailer / at end of input)"""
    out = []
    for quals in (('X12Base._parse_segment',), ('X12Reader._parse_segment', 'X12Reader.cleanup')):
        codes = set()
        for q in quals:
            for f in ctx.region('x12file', q):
                for c in A.calls_in(f):
                    if A.call_target(c) == ('self', '_%s_error' % level) and c.args and A.is_str(c.args[0]):
                        codes.add(c.args[0].value)
        out.append(codes)
    return out


def r7_node_filters(ctx):
    """the report asks an interchange / group / set node twice for its errors - at the header line and at the trailer
    line (get_error_list(seg_id)).  Decided by constant propagation per code: every code is listed at exactly one of the
    two lines, a code the reader raises while reading the header (control number reuse) at the header, a code it raises
    at the trailer or at end of input (counts, control numbers, missing trailers) at the trailer, and nothing at any
    other segment."""
    from ..absint import run_function, helper_oracles, NotClosedTest
    hfuncs = helper_oracles(ctx, 'error_handler')
    for cname, level, hdr, trl in _LEVELS:
        fn = ctx.func('error_handler', cname + '.get_error_list')
        at_hdr, at_trl = _raised_codes(ctx, level)
        universe = sorted(set(('1', '2', '3', '4', '5', '6', '7', '23', '001', '021', '023', '024', '025')) | at_hdr | at_trl)
        bad = []
        for code in universe:
            err = (code, 'message')
            where = []
            for sid in (hdr, trl, 'NM1'):
                try:
                    got = run_function(ctx.cfg(fn), fn, [None, sid, False], hfuncs, env={'self.errors': (err,)})
                except (NotClosedTest, A.NotClosed) as e:
                    raise AnalysisError('%s.get_error_list cannot be decided: %s' % (cname, e))
                if got and err in tuple(got):
                    where.append(sid)
            want = None
            if code in at_hdr and code not in at_trl:
                want = [hdr]
            elif code in at_trl and code not in at_hdr:
                want = [trl]
            if len(where) != 1 or where[0] not in (hdr, trl) or (want is not None and where != want):
                bad.append('code %s%s is listed at %s' % (code, ' (raised at the %s)' % ('header' if want == [hdr] else 'trailer') if want else '',
                                                         ' and '.join(where) if where else 'neither the %s nor the %s line' % (hdr, trl)))
        yield Ob('error_handler:%s.get_error_list lists every code at exactly one of %s / %s, where the reader raised it' % (cname, hdr, trl), not bad,
                 ctx.floc(fn), '' if not bad else '; '.join(bad[:3]), note='%d codes, %d raised by the reader' % (len(universe), len(at_hdr | at_trl)))


def _method_of(ctx, cname, meth):
    """the FunctionDef that `cname().meth` resolves to in error_handler (the class itself, then its bases in the module)"""
    seen = set()
    while cname and cname not in seen:
        seen.add(cname)
        cls = ctx.cls('error_handler', cname)
        for f in cls.body:
            if isinstance(f, ast.FunctionDef) and f.name == meth:
                f._mod = ctx.mod('error_handler')
                return f
        cname = next((b.id for b in cls.bases if isinstance(b, ast.Name)), None)
        if cname == 'object':
            break
    raise AnalysisError('error_handler: %s is not defined for %s' % (meth, cname))


def r9_segment_and_element_lists(ctx):
    """the report prints, for a segment node, the errors get_error_list(id, True) returns that have code 3 before the
    segment line and the errors get_error_list(id, False) returns that do not have code 3 after it; for an element node
    everything get_error_list(id, False) returns.  Decided by constant propagation per code on the methods the two node
    classes actually inherit: every segment error is printed exactly once, every element error is printed - also an
    element error with code 3 ("too many elements")."""
    from ..absint import run_function, helper_oracles, NotClosedTest
    hfuncs = helper_oracles(ctx, 'error_handler')
    codes = ('1', '2', '3', '4', '5', '6', '7', '8', '10', 'SEG1', 'HL1', 'LX')
    for cname, kind in (('err_seg', 'segment'), ('err_ele', 'element')):
        fn = _method_of(ctx, cname, 'get_error_list')
        bad = []
        for code in codes:
            err = (code, 'message', 'value')

            def listed(pre):
                try:
                    got = run_function(ctx.cfg(fn), fn, [None, 'NM1', pre], hfuncs, env={'self.errors': (err,)})
                except (NotClosedTest, A.NotClosed) as e:
                    raise AnalysisError('%s.get_error_list cannot be decided: %s' % (cname, e))
                return bool(got) and err in tuple(got)
            if kind == 'segment':
                n = int(listed(True) and code == '3') + int(listed(False) and code != '3')
            else:
                n = int(listed(False))
            if n != 1:
                bad.append('a %s error with code %s is printed %d times' % (kind, code, n))
        yield Ob('error_handler:%s.get_error_list hands every %s error to the report once' % (cname, kind), not bad, ctx.floc(fn),
                 '' if not bad else '; '.join(bad[:3]))


def r5_escaped_once(ctx):
    """stripping the markup recovers the source: text is escaped exactly once.  A self attribute that already holds
    escaped text (assigned from escape_html_chars) must not be passed through escape_html_chars again."""
    cls = ctx.cls('error_html', 'error_html')
    escaped = set()
    for n in ast.walk(cls):
        if isinstance(n, ast.Assign) and isinstance(n.value, ast.Call) and A.call_target(n.value)[1] == 'escape_html_chars':
            for t in n.targets:
                p_ = path_of(t)
                if p_ and p_.startswith('self.'):
                    escaped.add(p_)
    n_calls = 0
    for f in cls.body:
        if not isinstance(f, ast.FunctionDef):
            continue
        for c in A.calls_in(f):
            if A.call_target(c)[1] == 'escape_html_chars' and c.args:
                n_calls += 1
                p_ = path_of(c.args[0])
                ok = p_ not in escaped
                yield Ob('error_html:error_html.%s escapes %s once' % (f.name, norm(c.args[0], 40)), ok, ctx.loc('error_html', c),
                         '' if ok else '%s already holds escaped text (assigned from escape_html_chars): escaping it again shows `&amp;gt;` for `>`' % p_)
    if n_calls < 5:
        raise AnalysisError('error_html: escape_html_chars calls not found')

def r10_shared_current_node(ctx):
    """the report shows an error next to the segment it was reported for: an error on an envelope segment is attached to
    the node the error handler calls current, which after every header and trailer must be the node of that very
    envelope (an error on the GE shown under the last set instead is next to the wrong segment).  C05.R18 (shared)."""
    from . import c05
    for o in c05.r18_current_node_follows_the_envelope(ctx):
        yield o


def r11_shared_element_node_linking(ctx):
    """the message of an element-level error is shown next to its segment: the element node must be linked under the
    segment being validated when the error is reported.  C05.R20 (shared)."""
    from . import c05
    for o in c05.r20_element_error_joins_the_current_segment(ctx):
        yield o


RULES = [
    Rule('C19.R1', 'every interpolated piece of every HTML write is constant, integer, map text or escaped', r1_escaping, floor=15),
    Rule('C19.R2', 'escape chain: & first, < and > covered', r2_escape_chain, floor=3),
    Rule('C19.R3', 'header before, one gen_seg per iteration, footer after (CFG)', r3_every_segment, floor=4),
    Rule('C19.R4', 'error code filters partition the codes; all nodes, element errors and positions rendered', r4_every_error, floor=4),
    Rule('C19.R6', 'the error iterator steps from a node to its immediate next sibling (no error node is passed over)', r6_error_iterator_steps, floor=1),
    Rule('C19.R7', 'node-level error filters: each code at exactly one of header / trailer line, where the reader raises it', r7_node_filters, floor=3),
    Rule('C19.R8', 'error iterator replayed over model trees: every loop node collected at header and trailer, second interchange included', r8_iterator_collects, floor=1),
    Rule('C19.R9', 'segment and element nodes hand every error to the report exactly once (inherited get_error_list decided per code)', r9_segment_and_element_lists, floor=2),
    Rule('C19.R10', 'shared with C05.R18: after a header / trailer the current error node is that envelope node', r10_shared_current_node, floor=6),
    Rule('C19.R11', 'shared with C05.R20: the pending element node is linked into the current segment node', r11_shared_element_node_linking, floor=1),
    Rule('C19.R5', 'no text is escaped twice', r5_escaped_once, floor=5),
]
