"""C10 Tree editing API obeys its read/write/insert/delete/copy laws (structural clauses)."""
import ast

from ..core import require_idiom, Ob, Rule, AnalysisError, norm, KeyMaker
from ..cfg import path_of
from .. import astutil as A
from . import c17

META = {
    'explanation': (
        'R1 copy ownership: in every __copy__ of x12context and segment each attribute of the result whose value is '
        'mutable is given a fresh object (constructor, literal, list(...), copy()), and whatever is appended to the '
        'copy\'s children has its parent set to the copy - otherwise a "../" path evaluated on the copy reads and '
        'writes the original. R2 parent/child pairing everywhere: every X.children.append/insert(n) in x12context is '
        'paired, on every path to it, with n.parent = X (assignment, or the constructor\'s parent argument). R3 '
        'tombstones are skipped: every iteration over .children in the data-node classes filters on the tombstone '
        'marker (type is not None / type == "seg" / type == "loop"), or is preceded by _cleanup(), or tests the '
        'payload for None; the marker delete() clears is the one the filters and _cleanup() test. R4 = C17.R4 (set '
        'pads before it stores, get tests each index). R5 insertion order: _get_insert_idx sweeps tombstones first '
        'and returns the slot after the last sibling whose map position is <= the new node\'s; add_segment, '
        'add_loop, add_node and _add_loop_node all insert at that index.'),
    'not_decided': 'the algebraic laws themselves (set/get, count/select/first agreement, delete removes exactly one) over call histories',
    'trusted_base': ['data-node classes enumerated from x12context.py (X12DataNode, X12LoopDataNode, X12SegmentDataNode)'],
    'technique': 'static analysis: ownership audit of __copy__, dominance pairing of children/parent stores, iteration-filter audit',
}


META['explanation'] += ' Rounds 4-5: ' + 'R1 deep freshness: a new list around the same Composite / node objects is not a copy. R3 _cleanup decided by constant propagation on a mixed child list. R5 _get_insert_idx decided for every list of sibling positions (up to 4 over 3 positions) x new position: slot after the last sibling at the same or an earlier position, 0 when all come later. R6 also: the path handed to the search has not lost a part.'
META['technique'] = META.get('technique', 'static analysis: AST/CFG rules over /repo source + shipped XML data') + '; conditional constant propagation over the CFG on finite, complete input domains (DESIGN.md 10.4.1)'

NODE_CLASSES = ('X12DataNode', 'X12LoopDataNode', 'X12SegmentDataNode')


def _fresh(v):
    """expression that certainly produces an object not shared with the original"""
    if isinstance(v, (ast.List, ast.Dict, ast.Set, ast.ListComp, ast.Constant, ast.JoinedStr)):
        return True
    if isinstance(v, ast.Call):
        r, m = A.call_target(v)
        if r is None and m in ('list', 'dict', 'set', 'tuple', 'Segment', 'Composite', 'Element', 'X12SegmentDataNode', 'X12LoopDataNode'):
            return True
        if m in ('copy', '__copy__', 'deepcopy', 'format'):
            return True
    return False


# attributes that hold a list of objects which are themselves mutable (Composite, Element, data nodes): a new list around
# the same objects is not a copy - writing a value through the copy changes the original
DEEP_ATTRS = {'elements', 'children'}


def _deep_fresh(v):
    """the expression builds a new container *and* new items"""
    if isinstance(v, (ast.List, ast.Tuple)):
        return all(_fresh(e) and not isinstance(e, ast.Name) for e in v.elts)
    if isinstance(v, (ast.ListComp, ast.GeneratorExp)):
        return _fresh(v.elt) and not isinstance(v.elt, (ast.List, ast.Dict, ast.Set)) or isinstance(v.elt, ast.Constant)
    if isinstance(v, ast.Call):
        r, m = A.call_target(v)
        if m == 'deepcopy':
            return True
        if r is None and m in ('list', 'tuple') and len(v.args) == 1:
            return _deep_fresh(v.args[0])
        if r is None and m in ('list', 'tuple') and not v.args:
            return True
    return False


IMMUTABLE_OK = {'x12_map_node', 'parent', 'seg_term', 'ele_term', 'subele_term', 'type', 'seg_id', 'seg_count', 'cur_line_number'}


def r1_copy_ownership(ctx):
    km = KeyMaker()
    specs = [('x12context', 'X12LoopDataNode.__copy__'), ('x12context', 'X12SegmentDataNode.__copy__'), ('segment', 'Segment.__copy__')]
    for mod, qual in specs:
        fn = ctx.func(mod, qual)
        g = ctx.cfg(fn)
        dom = g.dominators()
        # the result variable
        rets = [n for n in ast.walk(fn) if isinstance(n, ast.Return)]
        if len(rets) != 1:
            raise AnalysisError('%s: single return not found' % qual)
        rv = path_of(rets[0].value)
        if rv is None:
            # return Segment(self.format(), ...)  -> everything rebuilt from text
            ok = _fresh(rets[0].value)
            yield Ob('%s:%s result is rebuilt, not shared' % (mod, qual), ok, ctx.floc(fn), '' if ok else 'returns %s' % norm(rets[0].value))
            continue
        for s in ast.walk(fn):
            if isinstance(s, ast.Assign):
                p = path_of(s.targets[0])
                if p and p.startswith(rv + '.'):
                    attr = p[len(rv) + 1:]
                    if attr in IMMUTABLE_OK:
                        continue
                    ok = _fresh(s.value)
                    why = '%s = %s shares a mutable object with the original' % (p, norm(s.value))
                    if ok and attr in DEEP_ATTRS and any(isinstance(x, ast.Name) and x.id == 'self' for x in ast.walk(s.value)):
                        ok = _deep_fresh(s.value)
                        why = ('%s = %s is a new list around the same item objects: a value written through the copy (set, set_value) '
                               'changes the original as well' % (p, norm(s.value)))
                    yield Ob(km('%s:%s %s is a fresh object' % (mod, qual, p)), ok, ctx.floc(fn, s), '' if ok else why)
        # items added to a list of mutable items of the copy are new objects
        for x in ast.walk(fn):
            if isinstance(x, ast.Call):
                r, m = A.call_target(x)
                if r and r.startswith(rv + '.') and r[len(rv) + 1:] in DEEP_ATTRS and r[len(rv) + 1:] != 'children' and m in ('append', 'extend', 'insert') and x.args:
                    a = x.args[-1]
                    ok = _deep_fresh(a) if m == 'extend' else (_fresh(a) and not isinstance(a, ast.Name))
                    if isinstance(a, ast.Name):
                        # a local: every reaching definition must be a fresh object
                        defs = [d.value for d in ast.walk(fn) if isinstance(d, ast.Assign) and path_of(d.targets[0]) == a.id]
                        ok = bool(defs) and all(_fresh(d) for d in defs)
                    yield Ob(km('%s:%s item added to %s is a new object' % (mod, qual, r)), ok, ctx.floc(fn, x),
                             '' if ok else '`%s` puts an object of the original into the copy' % norm(x))
        # constructor arguments that are mutable objects of self
        ctor = [s for s in ast.walk(fn) if isinstance(s, ast.Assign) and path_of(s.targets[0]) == rv and isinstance(s.value, ast.Call)]
        for s in ctor:
            for a in s.value.args[1:] + [k.value for k in s.value.keywords]:
                p = path_of(a)
                if isinstance(a, ast.Call) and _fresh(a):
                    continue      # (a copy made for the purpose)
                if p and p.startswith('self.') and p[5:] not in IMMUTABLE_OK:
                    yield Ob(km('%s:%s constructor argument %s' % (mod, qual, p)), False, ctx.floc(fn, s), 'the copy is constructed around the original\'s %s' % p)
        # children appended to the copy belong to the copy
        apps = [(n, x) for n in g.nodes for x in g.walk_exprs(n) if isinstance(x, ast.Call) and A.call_target(x) in ((rv + '.children', 'append'), (rv + '.children', 'insert'))]
        for n, x in apps:
            child = x.args[-1]
            cn = path_of(child)
            ok = False
            why = 'the appended child `%s` keeps the parent of the original: "../" paths on the copy reach into the original tree' % norm(child)
            if cn:
                sets = [m for m in g.nodes if m.kind == 'stmt' and isinstance(m.ast, ast.Assign) and path_of(m.ast.targets[0]) == cn + '.parent'
                        and path_of(m.ast.value) == rv]
                ok = any(m.id in dom[n.id] for m in sets)
            yield Ob(km('%s:%s child appended to the copy has parent = the copy' % (mod, qual)), ok, ctx.floc(fn, x), '' if ok else why)
        if qual.startswith('X12LoopDataNode'):
            if not apps:
                yield Ob('%s:%s copies its children' % (mod, qual), False, ctx.floc(fn), 'children are not copied')
            # the copy must not resurrect or choke on tombstones
            loops = [s for s in ast.walk(fn) if isinstance(s, ast.For)]
            for lp in loops:
                ok = _filters_tombstones(lp.iter) or _body_tests_type(lp)
                yield Ob('%s:%s copy skips deleted children' % (mod, qual), ok, ctx.floc(fn, lp),
                         '' if ok else 'iterates `%s`: a deleted segment (seg_data None) raises AttributeError in copy(), a deleted loop is resurrected' % norm(lp.iter))


def _filters_tombstones(it):
    """iterable expression filters on the tombstone marker"""
    if isinstance(it, (ast.ListComp, ast.GeneratorExp)):
        for gen in it.generators:
            for cond in gen.ifs:
                t = norm(cond)
                if '.type is not None' in t or ".type == 'seg'" in t or ".type == 'loop'" in t or '.type != None' in t:
                    return True
    return False


def _body_tests_type(lp):
    for s in lp.body[:1]:
        if isinstance(s, ast.If):
            # `if a: if b: ...` (nothing else in the arm) tests `a and b`
            tests = [s.test]
            cur = s
            while len(cur.body) == 1 and isinstance(cur.body[0], ast.If) and not cur.body[0].orelse and not cur.orelse:
                cur = cur.body[0]
                tests.append(cur.test)
            t = ' and '.join(norm(x, 200) for x in tests)
            if 'isinstance(child, X12SegmentDataNode) and child.seg_data is not None' in t:
                return True
            if '.type is not None' in t or '.type is None' in t or ".type == 'seg'" in t or '.seg_data is not None' in t:
                return True
    return False


def r2_parent_child_pairing(ctx):
    km = KeyMaker()
    m = ctx.mod('x12context')
    n_sites = 0
    for q, fn in ctx.functions('x12context'):
        if q.endswith('__copy__'):
            continue   # R1
        g = ctx.cfg(fn)
        dom = g.dominators()
        for n in g.nodes:
            for x in g.walk_exprs(n):
                if isinstance(x, ast.Call) and isinstance(x.func, ast.Attribute) and x.func.attr in ('append', 'insert') \
                        and isinstance(x.func.value, ast.Attribute) and x.func.value.attr == 'children':
                    owner = norm(x.func.value.value)
                    child = x.args[-1]
                    cn = path_of(child)
                    n_sites += 1
                    ok = False
                    if cn:
                        for d in g.nodes:
                            if d.id not in dom[n.id] or d.kind != 'stmt' or not isinstance(d.ast, ast.Assign):
                                continue
                            t = path_of(d.ast.targets[0])
                            if t == cn + '.parent' and norm(d.ast.value) == owner:
                                ok = True
                            if t == cn and isinstance(d.ast.value, ast.Call):
                                c = d.ast.value
                                cls = A.call_target(c)[1]
                                kw = {k.arg: norm(k.value) for k in c.keywords}
                                if cls == 'X12LoopDataNode' and (kw.get('parent') == owner or (len(c.args) >= 3 and norm(c.args[2]) == owner)):
                                    ok = True
                                if cls == 'X12SegmentDataNode' and (kw.get('parent') == owner or (len(c.args) >= 3 and norm(c.args[2]) == owner)):
                                    ok = True
                    yield Ob(km('x12context:%s %s.children.%s(%s)' % (q, owner, x.func.attr, norm(child))), ok, ctx.loc(m, x),
                             '' if ok else 'the child is linked into %s.children without `%s.parent = %s` on every path: upward paths ("../") from it go elsewhere' % (owner, norm(child), owner))
    if n_sites < 4:
        raise AnalysisError('x12context: only %d children.append/insert sites' % n_sites)
    # constructors store the parent they are given
    for cname in ('X12LoopDataNode', 'X12SegmentDataNode'):
        f = ctx.func('x12context', cname + '.__init__')
        ok = any(isinstance(s, ast.Assign) and path_of(s.targets[0]) == 'self.parent' and path_of(s.value) == 'parent' for s in ast.walk(f))
        yield Ob('x12context:%s.__init__ stores the parent argument' % cname, ok, ctx.floc(f), '' if ok else 'self.parent is not assigned from parent')
        params = [a.arg for a in f.args.args]
        ok = 'parent' in params and params.index('parent') == 3
        yield Ob('x12context:%s.__init__ parent parameter position' % cname, ok, ctx.floc(f), '' if ok else 'parameters %s' % params)


def r3_tombstones(ctx):
    km = KeyMaker()
    m = ctx.mod('x12context')
    # the marker
    f = ctx.func('x12context', 'X12DataNode.delete')
    ok = any(isinstance(s, ast.Assign) and path_of(s.targets[0]) == 'self.type' and A.const(s.value) is None and isinstance(s.value, ast.Constant) for s in ast.walk(f))
    yield Ob('x12context:X12DataNode.delete marks the node with type = None', ok, ctx.floc(f), '' if ok else 'tombstone marker changed')
    f = ctx.func('x12context', 'X12DataNode._cleanup')
    # decided by constant propagation through _cleanup on a child list that mixes segments, loops and deleted nodes: the
    # live children remain, in the order they had
    from ..absint import traces, NotClosedTest
    kinds = ('loop', 'seg', None, 'loop', 'seg', 'seg', None, 'loop')
    kids = tuple(A.Model('n%d' % i, type=t) for i, t in enumerate(kinds))
    try:
        res = traces(ctx.cfg(f), {'self.children': kids}, lambda c: None)
    except NotClosedTest as e:
        raise AnalysisError('X12DataNode._cleanup cannot be decided: %s' % e)
    outs = {dict(e_).get('self.children') for _t, e_ in res}
    want = tuple(k for k in kids if k.type is not None)
    ok = outs == {want}
    yield Ob('x12context:X12DataNode._cleanup sweeps on the same marker', ok, ctx.floc(f),
             '' if ok else '_cleanup turns the children %s into %s: live nodes are lost, deleted ones kept, or the order changes (segments then come out of source order)'
             % ([k._name + ':' + str(k.type) for k in kids], [[k._name for k in o] if o is not None else None for o in outs]))
    for cname in ('X12LoopDataNode', 'X12SegmentDataNode'):
        f = ctx.func('x12context', cname + '.delete')
        ok = any(A.call_target(c) == ('X12DataNode', 'delete') for c in A.calls_in(f))
        yield Ob('x12context:%s.delete delegates to X12DataNode.delete' % cname, ok, ctx.floc(f), '' if ok else 'subclass delete does not tombstone')
    n_sites = 0
    for cname in NODE_CLASSES:
        cls = ctx.cls('x12context', cname)
        for f in cls.body:
            if not isinstance(f, ast.FunctionDef) or f.name == '__copy__':
                continue
            cleanup_first = any(isinstance(s, ast.Expr) and isinstance(s.value, ast.Call) and A.call_target(s.value) == ('self', '_cleanup') for s in f.body)
            for n in ast.walk(f):
                it = None
                if isinstance(n, ast.For):
                    it = n.iter
                    body_ok = _body_tests_type(n) or ('isinstance(child, X12SegmentDataNode) and child.seg_data is not None' in norm(n.body[0].test, 300) if n.body and isinstance(n.body[0], ast.If) else False)
                elif isinstance(n, ast.comprehension):
                    it = n.iter
                    body_ok = any('.type' in norm(c) for c in n.ifs)
                else:
                    continue
                base = it
                if isinstance(base, ast.Attribute) and base.attr == 'children':
                    n_sites += 1
                    ok = body_ok or cleanup_first
                    yield Ob(km('x12context:%s.%s iterates %s' % (cname, f.name, norm(it))), ok, ctx.loc(m, it),
                             '' if ok else 'iteration over children without skipping tombstones (deleted nodes have type None and no map node)')
                elif isinstance(base, ast.Call) and 'len(self.children)' in norm(base):
                    n_sites += 1
                    ok = cleanup_first
                    yield Ob(km('x12context:%s.%s indexes children by range' % (cname, f.name)), ok, ctx.loc(m, it),
                             '' if ok else 'index loop over children without a preceding _cleanup()')
    if n_sites < 7:
        raise AnalysisError('x12context: only %d iteration sites over children found' % n_sites)


def r4_set_pads(ctx):
    for o in c17.r4_pad_before_store(ctx):
        yield o


def r5_insertion(ctx):
    f = ctx.func('x12context', 'X12DataNode._get_insert_idx')
    txt = ast.unparse(f)
    first = f.body[0] if not (isinstance(f.body[0], ast.Expr) and isinstance(f.body[0].value, ast.Constant)) else f.body[1]
    ok = isinstance(first, ast.Expr) and isinstance(first.value, ast.Call) and A.call_target(first.value) == ('self', '_cleanup')
    yield Ob('x12context:X12DataNode._get_insert_idx sweeps tombstones first', ok, ctx.floc(f), '' if ok else 'first statement %s' % norm(first))
    # the index it returns, decided by constant propagation through the function for every list of sibling positions (up to
    # four siblings over three positions) and every new position: the slot after the last sibling whose map position is
    # the same or earlier - in front of all of them when every sibling comes later in the map
    from ..absint import traces, NotClosedTest
    import itertools as _it
    g = ctx.cfg(f)

    class _Pos(object):
        _sa_model = True

        def __init__(self, pos, id='A'):
            self.pos = pos
            self.id = id         # (the order among siblings is by map position alone: ids must not influence it)

        def __hash__(self):
            return hash(('pos', self.pos))

        def __eq__(self, o):
            return isinstance(o, _Pos) and o.pos == self.pos

    class _Sib(object):
        _sa_model = True

        def __init__(self, i, pos):
            self.i = i
            self.x12_map_node = _Pos(pos, 'Z%d' % i)
            self.type = 'seg'

        def __hash__(self):
            return hash(('sib', self.i))

        def __eq__(self, o):
            return isinstance(o, _Sib) and o.i == self.i
    bad = None
    runs = 0
    for n_sib in range(0, 5):
        for poss in _it.combinations_with_replacement((10, 20, 30), n_sib):
            kids = tuple(_Sib(i, p_) for i, p_ in enumerate(poss))
            for new in (5, 10, 15, 20, 25, 30, 35):
                env = {'self.children': kids, 'x12_node': _Pos(new), 'x12_node.pos': new}
                try:
                    res = traces(g, env, lambda c: None, returns=True)
                except NotClosedTest as e:
                    raise AnalysisError('X12DataNode._get_insert_idx: a test cannot be decided for sibling positions %s: %s' % (list(poss), e))
                runs += 1
                got = {a_[1][0] for tr, _e in res for a_ in tr if a_[0] == '@return'}
                want = max([i + 1 for i, p_ in enumerate(poss) if p_ <= new] or [0])
                if got != {want} and bad is None:
                    bad = (list(poss), new, sorted(got, key=repr), want)
    yield Ob('x12context:X12DataNode._get_insert_idx goes after siblings of the same or an earlier map position', bad is None, ctx.floc(f),
             '' if bad is None else 'with siblings at map positions %s a node of position %s is inserted at index %s; the map orders it at index %s' % bad,
             note='%d combinations' % runs)
    # the three adders, decided by constant propagation with that index function as the oracle: whatever the children are
    # (nothing, only segments, a trailer segment last, loops last, a tombstone last) the new node ends up after its
    # same-or-earlier siblings and before the later ones, every other child where it was
    from ..absint import explore, run_function

    def idx_oracle(env, node):
        return run_function(g, f, [None, node], {}, env={'self.children': env.get('self.children')})
    idx_oracle._wants_env = True

    class _New(object):
        _sa_model = True

        def __init__(self, pos):
            self.x12_map_node = _Pos(pos, 'NEW')
            self.x12_map_node.parent = 'LOOP'
            self.type = 'loop'
            self.parent = None
    shapes = ((), (10,), (10, 30), (10, 20, 30), (10, 20, 20), (20, 20, 30), (30,), (10, 20, 20, 30, 30))
    for q in ('X12LoopDataNode.add_segment', 'X12LoopDataNode.add_node', 'X12LoopDataNode._add_loop_node'):
        fn = ctx.func('x12context', q)
        ga = ctx.cfg(fn)
        bad = None
        runs = 0
        for poss in shapes:
            for newpos in (5, 20, 30, 40):
                kids = tuple(_Sib(i, p_) for i, p_ in enumerate(poss))
                new = _New(newpos)
                mapnode = new.x12_map_node
                env = {'self.children': kids, 'self': 'SELF', 'self.x12_map_node': 'LOOP', 'self.id': 'LOOPID',
                       'data_node': new, 'x12_loop_node': mapnode, 'seg_data': 'SEG'}
                funcs = {'self._get_insert_idx': idx_oracle, 'X12DataNode._get_insert_idx': idx_oracle,
                         'X12LoopDataNode': lambda *a_: new, 'X12SegmentDataNode': lambda *a_: new,
                         'self._get_segment': lambda s_: s_, 'self.x12_map_node.get_child_seg_node': lambda s_: mapnode,
                         'self._cleanup': lambda: None}
                finals = []

                def on_node(nd, e, ga=ga):
                    if nd is ga.exit:
                        finals.append(e.get('self.children'))

                def unk(nd, e):
                    raise AnalysisError('%s: a test cannot be decided: %s' % (q, norm(nd.ast)))
                try:
                    explore(ga, env, funcs=funcs, on_node=on_node, on_unknown=unk)
                except A.NotClosed as e:
                    raise AnalysisError('%s cannot be decided: %s' % (q, e))
                runs += 1
                at = max([i + 1 for i, p_ in enumerate(poss) if p_ <= newpos] or [0])
                want = kids[:at] + (new,) + kids[at:]
                for fin in finals:
                    if fin != want and bad is None:
                        where = list(fin).index(new) if isinstance(fin, tuple) and new in fin else None
                        bad = (list(poss), newpos, where, at)
                if not finals and bad is None:
                    bad = (list(poss), newpos, 'nowhere', at)
        yield Ob("x12context:%s inserts at the index computed for the node's own map position" % q, bad is None, ctx.floc(fn),
                 '' if bad is None else 'with children at map positions %s a new node of position %s ends up at index %s; the map orders it at index %s' % bad,
                 note='%d combinations' % runs)
    # membership checks of add_segment / add_loop / add_node
    fn = ctx.func('x12context', 'X12LoopDataNode.add_segment')
    ok = 'get_child_seg_node(seg_data)' in ast.unparse(fn) and 'raise errors.X12PathError' in ast.unparse(fn)
    require_idiom(ok, 'c10.py:242')
    yield Ob('x12context:X12LoopDataNode.add_segment refuses a segment the loop does not define', ok, ctx.floc(fn), '' if ok else 'membership check changed')
    fn = ctx.func('x12context', 'X12LoopDataNode.add_node')
    ok = 'data_node.x12_map_node.parent != self.x12_map_node' in ast.unparse(fn)
    require_idiom(ok, 'c10.py:245')
    yield Ob('x12context:X12LoopDataNode.add_node refuses a node of another loop', ok, ctx.floc(fn), '' if ok else 'membership check changed')


def r7_delete_exactly_one(ctx):
    """"deleting a segment removes exactly that one": delete_segment decided by constant propagation on a child list with
    the loop's first segment, two equal segments, a loop and another segment - the first matching segment after the
    loop's own first one goes, every other child stays, in order; nothing goes when there is no match."""
    from ..absint import traces, NotClosedTest
    fn = ctx.func('x12context', 'X12LoopDataNode.delete_segment')

    def node(name, typ, data):
        return A.Model(name, type=typ, seg_data=data)
    bad = []
    for datas, target, want_idx in ((('H', 'A', None, 'A', 'B'), 'A', 1), (('H', 'B', 'A', 'A'), 'A', 2), (('H', 'B'), 'A', None),
                                    (('A', 'B', 'A'), 'A', 2), (('H', 'A'), 'A', 1)):
        kids = tuple(node('n%d' % i, 'loop' if d is None else 'seg', d) for i, d in enumerate(datas))
        env = {'self.children': kids, 'seg_data': target}
        funcs = {'self._get_segment': lambda x: x, 'self.x12_map_node.get_child_seg_node': lambda x: object(), 'self._cleanup': lambda: None}
        try:
            res = traces(ctx.cfg(fn), env, lambda c: None, funcs=funcs, returns=True)
        except NotClosedTest as e:
            raise AnalysisError('X12LoopDataNode.delete_segment cannot be decided: %s' % e)
        want = tuple(k for i, k in enumerate(kids) if i != want_idx)
        for tr, e_ in res:
            got = dict(e_).get('self.children')
            ret = [a_[1][0] for a_ in tr if a_[0] == '@return']
            if got != want or (ret and bool(ret[-1]) != (want_idx is not None)):
                bad.append('children %s, delete %r: %s remain, returns %s (expected %s)' % (
                    list(datas), target, [k.seg_data for k in got] if got is not None else None, ret[-1:] , [k.seg_data for k in want]))
    yield Ob('x12context:X12LoopDataNode.delete_segment removes exactly the first matching segment', not bad, ctx.floc(fn), '' if not bad else bad[0])


def r6_start_node_used(ctx):
    """get / set / exists / count / select / first / delete agree on what a relative path ("../X") addresses: each of
    them resolves the leading ".." steps with _get_start_node, which returns the node to start from and the rest of the
    path - and must then search the rest FROM THAT NODE.  A search of the shortened path from `self` addresses a
    different node (or none)."""
    m = ctx.mod('x12context')
    km = KeyMaker()
    n = 0
    for q, f in A.all_functions(m.tree):
        for s_ in ast.walk(f):
            if not (isinstance(s_, ast.Assign) and isinstance(s_.value, ast.Call) and A.call_target(s_.value) == ('self', '_get_start_node')
                    and isinstance(s_.targets[0], ast.Tuple) and len(s_.targets[0].elts) == 2):
                continue
            start, rest = [path_of(x) for x in s_.targets[0].elts]
            n += 1
            # names derived from the rest path
            derived = {rest}
            changed = True
            while changed:
                changed = False
                for a in ast.walk(f):
                    if isinstance(a, ast.Assign) and len(a.targets) == 1 and isinstance(a.targets[0], ast.Name) \
                            and a.targets[0].id not in derived and any(isinstance(x, ast.Name) and x.id in derived for x in ast.walk(a.value)):
                        derived.add(a.targets[0].id)
                        changed = True
            bad = []
            used = any(isinstance(x, ast.Name) and x.id == start and isinstance(x.ctx, ast.Load) for x in ast.walk(f))
            for c in A.calls_in(f):
                if c is s_.value or not isinstance(c.func, ast.Attribute):
                    continue
                uses_rest = any(isinstance(x, ast.Name) and x.id in derived for a_ in list(c.args) + [k.value for k in c.keywords] for x in ast.walk(a_))
                recv = path_of(c.func.value)
                if uses_rest and recv == 'self' and c.func.attr != '_get_start_node':
                    bad.append(c)
                if uses_rest and recv == start:
                    used = True
            # ... and searches the path as it was resolved: a path object built from it must not have lost a part (qualifier,
            # loops, index) by the time it is handed to the search
            po_ = A.preorder(f)
            pobjs = {a.targets[0].id for a in ast.walk(f) if isinstance(a, ast.Assign) and len(a.targets) == 1 and isinstance(a.targets[0], ast.Name)
                     and isinstance(a.value, ast.Call) and A.call_target(a.value)[1] == 'X12Path' and a.value.args and path_of(a.value.args[0]) == rest}
            for c in A.calls_in(f):
                if not isinstance(c.func, ast.Attribute) or path_of(c.func.value) != start:
                    continue
                for a_ in c.args:
                    nm_ = a_.id if isinstance(a_, ast.Name) else (a_.func.value.id if isinstance(a_, ast.Call) and isinstance(a_.func, ast.Attribute)
                                                                 and a_.func.attr == 'format' and isinstance(a_.func.value, ast.Name) else None)
                    if nm_ in pobjs:
                        cut = [w_ for w_ in ast.walk(f) if isinstance(w_, ast.Assign) and any(isinstance(t_, ast.Attribute) and isinstance(t_.value, ast.Name)
                                                                                             and t_.value.id == nm_ for t_ in w_.targets) and po_[id(w_)] < po_[id(c)]]
                        if cut:
                            yield Ob(km('x12context:%s searches the path as resolved' % q), False, ctx.loc(m, c),
                                     '`%s` is searched after `%s`: the node is looked up under a path that has lost that part, so a qualified path '
                                     '(REF[EA]02) addresses the first segment with that id whatever its qualifier' % (norm(c), norm(cut[0])))
            ok = not bad and used
            yield Ob(km('x12context:%s searches the rest of the path from the resolved start node' % q), ok, ctx.loc(m, bad[0] if bad else s_),
                     '' if ok else ('`%s` searches the shortened path from self, not from `%s`: "../X" then addresses a child of this node instead '
                                    'of a child of its parent' % (norm(bad[0]), start) if bad else 'the resolved start node `%s` is never searched' % start))
    if n < 6:
        raise AnalysisError('x12context: only %d uses of _get_start_node found' % n)


class _EleM(object):
    _sa_model = True

    def __init__(self, v):
        self.v = v

    def __repr__(self):
        return self.v


class _CompM(object):
    """model of segment.Composite: a list of element values behind len / [i] / [i] = / .elements"""
    _sa_model = True

    def __init__(self, text, sep=':'):
        self.elements = [_EleM(x) for x in (text.split(sep) if sep else [text])]

    def __len__(self):
        return len(self.elements)

    def __getitem__(self, i):
        return self.elements[i]

    def __setitem__(self, i, v):
        self.elements[i] = v

    def values(self):
        return [e.v for e in self.elements]


def r8_set_changes_one_value(ctx):
    """Segment.set decided by constant propagation on a segment with a simple and a three-component element, for
    designators of an element, of each component (the first one too), of a component beyond the last and of an element
    beyond the last: the named value becomes the new one, every other element and every other component keeps its
    value, missing positions in between are padded with empty values."""
    from ..absint import explore
    fn = ctx.func('segment', 'Segment.set')
    g = ctx.cfg(fn)
    bad = []
    cases = [('01', 0, None), ('02', 1, None), ('02-1', 1, 0), ('02-2', 1, 1), ('02-3', 1, 2), ('02-5', 1, 4), ('04', 3, None), ('04-2', 3, 1), ('01-1', 0, 0),
             ('02-7', 1, 6), ('01-4', 0, 3), ('06-3', 5, 2)]
    for rd, ei, ci in cases:
        elems = (_CompM('A'), _CompM('B:C:D'))
        before = [c.values() for c in elems]
        funcs = {'self._parse_refdes': lambda r, ei=ei, ci=ci: (ei, ci), 'Composite': lambda t, sep=None: _CompM(t, ':'), 'Element': lambda t: _EleM(t)}
        fin = []

        def on_node(nd, env, g=g):
            if nd is g.exit:
                fin.append(env.get('self.elements'))

        def unk(nd, env):
            raise AnalysisError('Segment.set: a test cannot be decided for %s: %s' % (rd, norm(nd.ast)))
        explore(g, {'self.elements': elems, 'self.seg_id': 'REF', 'self.subele_term': ':', 'self.ele_term': '*', 'ref_des': rd, 'val': 'NEW'},
                funcs=funcs, on_node=on_node, on_unknown=unk)
        want = [list(v) for v in before]
        while len(want) <= ei:
            want.append([''])
        if ci is None:
            want[ei] = ['NEW']
        else:
            while len(want[ei]) <= ci:
                want[ei].append('')
            want[ei][ci] = 'NEW'
        outs = []
        for f in fin:
            if isinstance(f, tuple) and all(isinstance(c, _CompM) for c in f):
                outs.append([c.values() for c in f])
            else:
                outs.append('undetermined')
        if not outs or any(o != want for o in outs):
            bad.append("set('%s', 'NEW') on REF*A*B:C:D leaves %s, expected %s" % (rd, outs[0] if outs else 'no result', want))
    yield Ob('segment:Segment.set changes the named value and nothing else', not bad, ctx.floc(fn), '' if not bad else bad[0], note='%d designators' % len(cases))

class _SelPath(object):
    _sa_model = True
    _sa_setattr = True

    def __init__(self, loops, seg_id, qual):
        self.loop_list = tuple(loops)
        self.seg_id = seg_id
        self.id_val = qual
        self.ele_idx = None
        self.subele_idx = None

    def format(self):
        return ('P', self.loop_list, self.seg_id, self.id_val)

    def is_match_path(self, *a):
        return False

    def __hash__(self):
        return hash(('selpath', self.loop_list, self.seg_id, self.id_val))

    def __eq__(self, o):
        return isinstance(o, _SelPath) and (self.loop_list, self.seg_id, self.id_val) == (o.loop_list, o.seg_id, o.id_val)


class _SelMap(object):
    _sa_model = True

    def __init__(self, seg_id, qual):
        self.id = seg_id
        self._q = qual

    def is_match_qual(self, seg_data, seg_id, qual):
        if seg_id == self.id and (qual is None or qual == self._q):
            return (True, self._q, 1, None)
        return (False, None, None, None)


class _SelChild(object):
    _sa_model = True

    def __init__(self, name, typ, cid, seg=None, qual=None):
        self.name = name
        self.type = typ
        self.id = cid
        self.seg_data = ('segdata', name)
        self.x12_map_node = _SelMap(seg, qual) if seg else None
        self.children = ()
        self.parent = None
        self.asked = []

    def _select(self, p):
        if self.type != 'loop':
            return ()       # (a segment node has no children: nothing below it)
        return (('below', self.name, tuple(p.loop_list), p.seg_id, p.id_val),)

    def __hash__(self):
        return hash(('selchild', self.name))

    def __repr__(self):
        return self.name


def r9_select_semantics(ctx):
    """what select / first / exists / count see is what X12DataNode._select yields; decided by constant propagation over a
    node with live and deleted children: a path that is one id yields, in order, every live child segment the map node
    matches with that id and qualifier AND every live child loop with that id (a loop id that reads like a segment id);
    a path that starts with loop ids yields the live child loops of the first id, or - when more of the path is left -
    what those children select for the rest of the path, the same segment id and qualifier included; a deleted child
    is never yielded."""
    from ..absint import run_generator, helper_oracles, NotClosedTest
    fn = ctx.func('x12context', 'X12DataNode._select')
    g = ctx.cfg(fn)

    def kids():
        return (_SelChild('s1', 'seg', 'NM1', 'NM1', '85'), _SelChild('gone', None, 'AK2', 'AK2', None), _SelChild('s2', 'seg', 'AK2', 'AK2', None),
                _SelChild('l1', 'loop', 'AK2'), _SelChild('l2', 'loop', '2000'), _SelChild('s3', 'seg', 'NM1', 'NM1', '87'),
                _SelChild('gone2', None, '2000'), _SelChild('l3', 'loop', '2000'), _SelChild('l4', 'loop', 'AK3'))

    def path_oracle(t):
        if isinstance(t, tuple) and t and t[0] == 'P':
            return _SelPath(t[1], t[2], t[3])
        raise A.NotClosed('path text')
    funcs = helper_oracles(ctx, 'x12context', {'path.X12Path': path_oracle, 'X12Path': path_oracle, 'pyx12.path.X12Path': path_oracle})
    cases = [
        (((), 'AK2', None), ['s2', 'l1']),
        (((), 'NM1', None), ['s1', 's3']),
        (((), 'NM1', '87'), ['s3']),
        (((), 'REF', None), []),
        ((('2000',), None, None), ['l2', 'l3']),
        ((('AK3',), None, None), ['l4']),
        ((('2300',), None, None), []),
        ((('2000', '2300'), None, None), [('below', 'l2', ('2300',), None, None), ('below', 'l3', ('2300',), None, None)]),
        ((('2000',), 'NM1', '85'), [('below', 'l2', (), 'NM1', '85'), ('below', 'l3', (), 'NM1', '85')]),
        ((('AK2', '2110'), 'REF', None), [('below', 'l1', ('2110',), 'REF', None)]),
    ]
    bad = []
    for (loops, seg, qual), want in cases:
        ch = kids()
        try:
            got = run_generator(g, fn, [None, _SelPath(loops, seg, qual)], funcs, env={'self.children': ch, 'self.type': 'loop', 'self.id': 'TOP'})
        except (NotClosedTest, A.NotClosed) as e:
            raise AnalysisError('X12DataNode._select cannot be decided for the path %s: %s' % ('/'.join(loops + ((seg,) if seg else ())), e))
        shown = [x.name if isinstance(x, _SelChild) else x for x in got]
        if shown != want:
            bad.append('path %s%s on children %s yields %s, expected %s' % ('/'.join(loops + ((seg,) if seg else ())), '[%s]' % qual if qual else '',
                       ['%s:%s:%s' % (c.name, c.type, c.id) for c in ch], shown, want))
    yield Ob('x12context:X12DataNode._select yields the live matching segments and loops, in order', not bad, ctx.floc(fn),
             '' if not bad else bad[0], note='%d paths' % len(cases))

class _QNode(object):
    _sa_model = True

    def __init__(self, name, results=()):
        self.name = name
        self.id = 'NM1'
        self.parent = 'PARENT'
        self.type = 'seg'
        self._results = tuple(results)

    def _select(self, p):
        return self._results

    def get_first_matching_segment(self, p):
        # another search: it stops at the first loop instance of each id, so it need not agree with _select
        self.other_search = True
        return None

    def __hash__(self):
        return hash(('qnode', self.name))

    def __repr__(self):
        return self.name


def r10_queries_agree(ctx):
    """exists, count, first and select agree with one another: all four resolve the start node the same way and draw
    from its `_select` for the parsed rest of the path; decided by constant propagation with a start node whose
    `_select` yields 0, 1 or 3 nodes: select yields exactly those, in order; count is their number; exists is
    "at least one"; first is the first of them, None when there is none."""
    from ..absint import run_function, run_generator, helper_oracles, NotClosedTest
    fe, fs, ff, fc = (ctx.func('x12context', 'X12DataNode.' + n) for n in ('exists', 'select', 'first', 'count'))
    bad = []
    for k in (0, 1, 3):
        res = tuple(_QNode('n%d' % i) for i in range(k))
        start = _QNode('start', res)
        base = {'self._get_start_node': lambda t: (start, ('rest', t)),
                'path.X12Path': lambda t: _SelPath(('2000',), 'NM1', None), 'X12Path': lambda t: _SelPath(('2000',), 'NM1', None)}
        funcs = helper_oracles(ctx, 'x12context', dict(base), all_methods_of='X12DataNode')

        def call(fn, gen=False, funcs=funcs):
            try:
                if gen:
                    return run_generator(ctx.cfg(fn), fn, [None, '2000/NM1'], funcs, env={})
                return run_function(ctx.cfg(fn), fn, [None, '2000/NM1'], funcs, env={})
            except (NotClosedTest, A.NotClosed) as e:
                raise AnalysisError('X12DataNode.%s cannot be decided with %d matching node(s): %s' % (fn.name, k, e))
        funcs['self.exists'] = lambda t: call(fe)
        funcs['self.select'] = lambda t: call(fs, True)
        funcs['self.count'] = lambda t: call(fc)
        got_s = call(fs, True)
        got_e, got_c, got_f = call(fe), call(fc), call(ff)
        if getattr(start, 'other_search', False):
            bad.append('one of exists / count / first / select answers from get_first_matching_segment, which looks into the first loop instance of each '
                       'id only, while the others search every instance with _select: they disagree when a later instance holds the segment')
        if tuple(got_s) != res:
            bad.append('with %d matching node(s) select yields %s' % (k, [repr(x) for x in got_s]))
        if got_e is not (k > 0):
            bad.append('with %d matching node(s) exists returns %r' % (k, got_e))
        if got_c != k:
            bad.append('with %d matching node(s) count returns %r' % (k, got_c))
        if got_f is not (res[0] if k else None):
            bad.append('with %d matching node(s) first returns %r' % (k, got_f))
    yield Ob('x12context:X12DataNode exists / count / first / select agree', not bad, ctx.floc(fs), '' if not bad else bad[0], note='0, 1 and 3 matching nodes')

def r11_qualified_match(ctx):
    """a path with a bracketed qualifier (`NM1[85]`, `HL[22]`) finds the segments whose discriminating value is that
    qualifier: segment_if.is_match_qual decided by constant propagation on the node shapes it distinguishes (first
    element a required ID with codes, ENT, first element a composite with codes, HL, no inline codes) x qualifier asked
    {none, a listed code, a code not listed} x value in the segment: without a qualifier every segment of the id matches;
    with one, exactly the segments that carry it at the discriminating position (and the node lists it) match, and the
    position reported is that one; a node without a discriminating code list matches regardless."""
    from ..absint import run_function, helper_oracles, NotClosedTest
    from .c02 import _MEle
    fn = ctx.func('map_if', 'segment_if.is_match_qual')
    hf = helper_oracles(ctx, 'map_if')
    codes = ('A1', 'B2')
    shapes = [
        ('first element a required ID with codes', 'REF', lambda: (_MEle('ID', 'R', codes), _MEle('AN', 'S'), _MEle('AN', 'S')), '01', (1, None)),
        ('ENT (second element)', 'ENT', lambda: (_MEle('N0', 'S'), _MEle('ID', 'R', codes), _MEle('AN', 'S')), '02', (2, None)),
        ('first element a composite, first component an ID with codes', 'HI', lambda: (_MEle(kids=(_MEle('ID', 'R', codes), _MEle('AN', 'S'))), _MEle('AN', 'S'), _MEle('AN', 'S')), '01-1', (1, 1)),
        ('HL (third element)', 'HL', lambda: (_MEle('AN', 'R'), _MEle('AN', 'S'), _MEle('ID', 'R', codes)), '03', (3, None)),
        ('no inline codes', 'DTP', lambda: (_MEle('ID', 'R', ()), _MEle('AN', 'S'), _MEle('AN', 'S')), None, None),
    ]
    bad = []
    n = 0
    for label, sid, mk, rd, pos in shapes:
        for qual in (None, 'A1', 'ZZ'):
            for val in ('A1', 'B2', None):
                for seg_id in (sid, 'XYZ'):
                    seg = A.Model('segment', get_seg_id=lambda seg_id=seg_id: seg_id, get_value=lambda r, rd=rd, val=val: val if r == rd else 'other')
                    try:
                        got = run_function(ctx.cfg(fn), fn, [None, seg, seg_id, qual], hf, env={'self.id': sid, 'self.children': mk()})
                    except (NotClosedTest, A.NotClosed) as e:
                        raise AnalysisError('segment_if.is_match_qual cannot be decided (%s, qualifier %r): %s' % (label, qual, e))
                    n += 1
                    if seg_id != sid:
                        want = (False, None, None, None)
                    elif qual is None or pos is None:
                        want = (True, None, None, None)
                    elif qual in codes and val == qual:
                        want = (True, qual, pos[0], pos[1])
                    else:
                        want = (False, None, None, None)
                    if got != want and len(bad) < 3:
                        bad.append('node %s (%s), asked for %s[%s] on a segment with %s=%r: %r, expected %r' % (sid, label, seg_id, qual, rd, val, got, want))
    yield Ob('map_if:segment_if.is_match_qual: a qualified path matches exactly the segments carrying the qualifier', not bad, ctx.floc(fn),
             '' if not bad else bad[0], note='%d combinations' % n)

class _VPath(object):
    """a parsed path whose parts can be stored to; format() shows the parts as they are at that moment"""
    _sa_model = True
    _sa_setattr = True

    def __init__(self):
        self.loop_list = ('2300', '2400')
        self.seg_id = 'SV1'
        self.id_val = 'HC'
        self.ele_idx = 1
        self.subele_idx = 2
        self.relative = True

    def format(self):
        return ('PATH', tuple(self.loop_list), self.seg_id, self.id_val, self.ele_idx, self.subele_idx)

    def __hash__(self):
        return hash(self.format())

    def __eq__(self, o):
        return isinstance(o, _VPath) and o.format() == self.format()


class _VSeg(object):
    _sa_model = True

    def get_value(self, rd):
        return ('value at', rd)

    def __hash__(self):
        return hash('vseg')


class _VStart(object):
    _sa_model = True

    def __init__(self, seg):
        self.seg = seg

    def get_first_matching_segment(self, p):
        return self.seg if p == 'REST' else 'searched with %r' % (p,)

    def __hash__(self):
        return hash(('vstart', id(self.seg)))


def r12_get_and_set_address_the_same_value(ctx):
    """setting a value at a path and reading the same path returns that value: get_value and set_value of a loop node
    resolve the start node the same way, take the first matching segment of the rest of the path FROM that node, and
    address the element by the same designator - the segment part of the path without loops and qualifier; for a
    segment node both hand the path to the segment unchanged.  No matching segment: get gives None, set refuses with
    the path error.  Decided by constant propagation with a path model that shows its parts at the time it is printed."""
    from ..absint import traces, helper_oracles, NotClosedTest
    want_rd = ('PATH', (), 'SV1', None, 1, 2)
    for cname in ('X12LoopDataNode', 'X12SegmentDataNode'):
        fg, fs = ctx.func('x12context', cname + '.get_value'), ctx.func('x12context', cname + '.set_value')
        msgs = []
        for has_seg in (True, False):
            seg = _VSeg() if has_seg else None
            start = _VStart(seg)
            funcs = helper_oracles(ctx, 'x12context', {
                'self._get_start_node': lambda t: (start, 'REST'), 'path.X12Path': lambda t: _VPath(), 'X12Path': lambda t: _VPath(),
                'self.get_first_matching_segment': lambda t, seg=seg: seg}, all_methods_of=cname)

            def key(c):
                r, m = A.call_target(c)
                return 'set' if m == 'set' and r not in ('self',) else None
            outs = {}
            for nm, fn, env in (('get', fg, {'x12_path_str': 'ASKED'}), ('set', fs, {'x12_path_str': 'ASKED', 'val': 'NEW'})):
                try:
                    outs[nm] = traces(ctx.cfg(fn), env, key, funcs, returns=True)
                except NotClosedTest as e:
                    raise AnalysisError('%s.%s_value cannot be decided: %s' % (cname, nm, e))
            rd = want_rd if cname == 'X12LoopDataNode' else 'ASKED'
            gets = {tuple(a_ for a_ in tr if a_[0] == '@return') for tr, _e in outs['get']}
            sets = {tuple(a_ for a_ in tr if a_[0] == 'set') for tr, _e in outs['set']}
            raised = _raises_path_error(ctx, fs, funcs) if not has_seg else None
            if has_seg:
                if gets != {(('@return', (('value at', rd),)),)}:
                    msgs.append('get_value returns %s, expected the value at %r of the first matching segment' % (sorted(gets, key=repr), rd))
                if sets != {(('set', (rd, 'NEW')),)}:
                    msgs.append('set_value stores with %s, expected one set(%r, new value) on the first matching segment - the position get_value reads' % (sorted(sets, key=repr), rd))
            else:
                if gets != {(('@return', (None,)),)}:
                    msgs.append('without a matching segment get_value returns %s, expected None' % (sorted(gets, key=repr),))
                if sets not in (set(), {()}) or not raised:
                    msgs.append('without a matching segment set_value must refuse with X12PathError and store nothing (stores %s, raises %s)' % (sorted(sets, key=repr), raised))
        yield Ob('x12context:%s get_value / set_value address the same element of the same segment' % cname, not msgs, ctx.floc(fs), '' if not msgs else msgs[0])


def _raises_path_error(ctx, fn, funcs):
    """does every way through fn (no matching segment) end in `raise ...X12PathError`"""
    from ..absint import explore
    g = ctx.cfg(fn)
    ends = []

    def on_node(nd, e):
        if nd.kind == 'raise':
            x_ = nd.ast.exc if isinstance(nd.ast, ast.Raise) else getattr(nd.stmt, 'exc', None)
            if isinstance(x_, ast.Call):
                x_ = x_.func
            ends.append((path_of(x_) or '?').split('.')[-1])
        elif nd is g.exit:
            ends.append('returns')
    explore(g, {'x12_path_str': 'ASKED', 'val': 'NEW'}, funcs=funcs, on_node=on_node, on_unknown=lambda nd, e: (_ for _ in ()).throw(AnalysisError('%s: %s' % (fn.name, norm(nd.ast)))))
    return bool(ends) and set(ends) == {'X12PathError'}

def r13_delete_node_exactly_one(ctx):
    """"deleting a node removes exactly that one": delete_node decided by constant propagation with a start node whose
    `_select` yields 0, 1 or 3 nodes - the first of them, and only that one, is told to delete itself and True is
    answered; with none nothing is deleted and False is answered.  X12DataNode.delete (what the node then does) marks
    the node deleted - type None - and lets go of its map node, data and children."""
    from ..absint import traces, helper_oracles, NotClosedTest
    fn = ctx.func('x12context', 'X12LoopDataNode.delete_node')
    bad = []
    for k in (0, 1, 3):
        res = tuple(_QNode('n%d' % i) for i in range(k))
        start = _QNode('start', res)
        funcs = helper_oracles(ctx, 'x12context', {'self._get_start_node': lambda t: (start, ('rest', t)),
                                                    'path.X12Path': lambda t: _SelPath(('2000',), 'NM1', None), 'X12Path': lambda t: _SelPath(('2000',), 'NM1', None)},
                               all_methods_of='X12LoopDataNode')
        try:
            out = traces(ctx.cfg(fn), {'x12_path_str': 'ASKED'}, lambda c: 'delete@recv' if A.call_target(c)[1] == 'delete' else None, funcs, returns=True)
        except NotClosedTest as e:
            raise AnalysisError('X12LoopDataNode.delete_node cannot be decided with %d matching node(s): %s' % (k, e))
        for tr, _e in out:
            dels = [a_[1][0] for a_ in tr if a_[0] == 'delete@recv']
            ret = [a_[1][0] for a_ in tr if a_[0] == '@return']
            want_d = [res[0]] if k else []
            if [repr(d) for d in dels] != [repr(d) for d in want_d] or ret[-1:] != [bool(k)]:
                bad.append('with %d matching node(s): deletes %s and answers %s, expected %s and %s' % (k, dels, ret[-1:], want_d, bool(k)))
    yield Ob('x12context:X12LoopDataNode.delete_node deletes exactly the first matching node', not bad, ctx.floc(fn), '' if not bad else bad[0])
    fd = ctx.func('x12context', 'X12DataNode.delete')
    from ..absint import explore
    g = ctx.cfg(fd)
    fin = []

    def on_node(nd, e):
        if nd is g.exit:
            fin.append(dict(e))
    env = {'self.type': 'loop', 'self.x12_map_node': 'MAPNODE', 'self.seg_data': 'DATA', 'self.children': ('c1', 'c2'), 'self.errors': ('e',), 'self.parent': 'P'}
    explore(g, env, funcs=helper_oracles(ctx, 'x12context'), on_node=on_node)
    msg = ''
    for e in fin:
        if e.get('self.type', 'unknown') is not None:
            msg = 'after delete() the node type is %r, not None: every query and the serialisation still see the node' % (e.get('self.type', 'unknown'),)
        elif e.get('self.children', 'unknown') not in ((), None):
            msg = 'after delete() the node still holds its children %r' % (e.get('self.children', 'unknown'),)
    if not fin:
        raise AnalysisError('X12DataNode.delete: no outcome')
    yield Ob('x12context:X12DataNode.delete marks the node deleted and lets go of its children', not msg, ctx.floc(fd), msg)


RULES = [
    Rule('C10.R8', 'Segment.set decided by constant propagation: the named element / component changes, every other value stays', r8_set_changes_one_value, floor=1),
    Rule('C10.R9', 'X12DataNode._select decided by constant propagation: live matching segments and same-id loops, rest of the path handed down', r9_select_semantics, floor=1),
    Rule('C10.R10', 'exists, count, first and select agree (constant propagation over 0, 1, 3 matching nodes)', r10_queries_agree, floor=1),
    Rule('C10.R11', 'segment_if.is_match_qual decided by constant propagation over node shapes x qualifier x value', r11_qualified_match, floor=1),
    Rule('C10.R12', 'get_value and set_value address the same element of the same first matching segment (constant propagation)', r12_get_and_set_address_the_same_value, floor=2),
    Rule('C10.R13', 'delete_node deletes exactly the first matching node; delete() marks the node and drops its children (constant propagation)', r13_delete_node_exactly_one, floor=2),
    Rule('C10.R1', 'copies own their mutable state; copied children have the copy as parent; tombstones not copied', r1_copy_ownership, floor=3),
    Rule('C10.R2', 'every children.append/insert is paired with parent = owner', r2_parent_child_pairing, floor=6),
    Rule('C10.R3', 'iterations over children skip tombstones; one tombstone marker', r3_tombstones, floor=10),
    Rule('C10.R4', 'Segment.set pads before it stores (shared with C17.R4)', r4_set_pads, floor=6),
    Rule('C10.R5', 'insertion index by map position after a tombstone sweep; add_* insert there', r5_insertion, floor=6),
    Rule('C10.R7', 'delete_segment removes exactly the first matching segment (constant propagation)', r7_delete_exactly_one, floor=1),
    Rule('C10.R6', 'every path operation searches from the start node that _get_start_node resolved', r6_start_node_used, floor=5),
]
