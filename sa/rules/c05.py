"""C05 Verdict, reported errors and acknowledgement always agree."""
import ast

from ..core import require_idiom, Ob, Rule, AnalysisError, norm, KeyMaker
from ..cfg import path_of
from .. import astutil as A

META = {
    'explanation': (
        'R1 in x12n_document every `return True` is reachable only through the true edge of `valid` and the edge of '
        'the error-count test taken exactly when the count is zero; all other normal exits return False; `valid` is '
        'initialised True once and afterwards only and-ed with is_valid results. R2 for err_isa/err_gs/err_st/err_seg '
        'every function that decides "has errors" (get_error_count, err_count, _get_ack_code, close) consults every '
        'evidence field the class stores among {errors, elements, children} (directly or through a same-class '
        'callee). R3 the type tags and the tuple arity produced by X12Base._*_error equal those dispatched by '
        'err_handler.handle_errors and errh_list.handle_errors, each tag routed to the same-named sink. R4 the '
        'visitors\' valid_AK3/AK4/IK3/IK4 code tuples are subsets of the AK304/AK403/IK304/IK403 code lists of the '
        'shipped 997/999 maps, and every literal code handed to a segment/element error sink that the map lists is '
        'in the tuple (so it is itemised, not dropped). R5 every node class of the error tree calls its pre hook, its '
        'children, its post hook; both visitors implement every hook of error_visitor. R6 AK902/903/904 are built '
        'from st_count_orig, st_count_recv, st_count_recv - count_failed_st(), those fields come from GE01 and the '
        'reader\'s st_count, and the 997 and 999 visitors agree. R7 an error handed to a sink of err_handler is recorded or the '
        'failure surfaces (no catch-all handler that only logs around the recording call), and add_error of every class that can be '
        'the current segment node accepts the arguments seg_error passes.'),
    'not_decided': 'equality of the totals with an independent count; that the right position is itemised (see C03); '
                   'addressing back to the sender beyond the ISA05-08/GS02-03 swap',
    'trusted_base': ['shipped 997/999 maps as the oracle for the acknowledgement code lists'],
    'technique': 'static analysis: must-pass-edge on the CFG, sibling-method field agreement, producer/consumer table agreement, code<->data agreement',
}


META['explanation'] += ' Rounds 4-5: ' + 'R12 ISA05-08 / GS02-03 of both acknowledgements are the received receiver/sender, swapped (positions derived from the construction). R13 visit_seg of both visitors decided by constant propagation over code sets x element errors: one AK3/IK3 per standard code, at least one when the segment has element errors.'
META['explanation'] += ' After round 6: R15 group code / failed-set count / error counts and R16 AK901-04 of both visitors decided by constant propagation.'
META['technique'] = META.get('technique', 'static analysis: AST/CFG rules over /repo source + shipped XML data') + '; conditional constant propagation over the CFG on finite, complete input domains (DESIGN.md 10.4.1)'


# --------------------------------------------------------------------------- R1
def _paths_avoiding(g, target, edges):
    """is `target` reachable from entry without taking any of `edges` (set of (node id, label))?"""
    return g.find_path(g.entry, lambda n: n is target, edge_ok=lambda a, l, b: (a.id, l) not in edges)


def r1_verdict(ctx):
    """what the driver answers once the last segment has been read, decided by constant propagation from the end of the
    segment loop over the flag x the error count (tests on the output options are followed both ways): True exactly
    when every segment was valid AND the error tree counts no error; False otherwise, on every way out."""
    from ..absint import explore
    fn = ctx.func('x12n_document', 'x12n_document')
    g = ctx.cfg(fn)
    loops = [n for n in fn.body if isinstance(n, ast.For) and path_of(n.iter) == 'src']
    if len(loops) != 1:
        raise AnalysisError('x12n_document: the segment loop `for .. in src` was not found at the top level')
    heads = [nd for nd in g.nodes if nd.kind == 'for' and nd.stmt is loops[0]]
    if not heads:
        raise AnalysisError('x12n_document: loop head not found in the CFG')
    after = [s_ for s_, l in heads[0].succ if l == 'done']
    if not after:
        raise AnalysisError('x12n_document: the loop has no normal exit')
    bad_valid, bad_count, bad_other = [], [], []
    n_ret = 0
    for v in (True, False):
        for k in (0, 1, 2, 50):
            outs = []

            def on_node(nd, env):
                if nd.kind == 'return':
                    try:
                        outs.append((nd, A.ev(nd.ast.value, env, funcs) if nd.ast.value is not None else None))
                    except A.NotClosed:
                        outs.append((nd, 'undetermined'))
            funcs = {'errh.get_error_count': lambda k=k: k}
            explore(g, {'valid': v}, funcs=funcs, on_node=on_node, start=after[0], unknown='both')
            if not outs:
                raise AnalysisError('x12n_document: no return is reached after the segment loop')
            n_ret = max(n_ret, len(outs))
            for nd, val in outs:
                want = v and k == 0
                if val is want:
                    continue
                what = 'valid=%s, %d error(s) counted: answers %r at `%s`' % (v, k, val, norm(nd.ast, 50))
                if val is True and not v:
                    bad_valid.append(what)
                elif val is True and k:
                    bad_count.append(what)
                else:
                    bad_other.append(what)
    key = 'x12n_document:x12n_document return True'
    yield Ob(key + ' only when every segment was valid', not bad_valid, ctx.floc(fn), '' if not bad_valid else bad_valid[0] + ': True is returned without the `valid` flag being true')
    yield Ob(key + ' only when the error count is zero', not bad_count, ctx.floc(fn),
             '' if not bad_count else bad_count[0] + ': True is returned although errors were reported (no test that the count is exactly 0)')
    yield Ob('x12n_document:x12n_document other exits return False', not bad_other, ctx.floc(fn), '' if not bad_other else bad_other[0])
    # the refusal before the loop (not an X12 file) answers False
    early = [n for n in ast.walk(fn) if isinstance(n, ast.Return) and n.lineno < loops[0].lineno]
    ok = all(A.const(r.value) is False for r in early)
    yield Ob('x12n_document:x12n_document a source that is not X12 is answered False', ok, ctx.floc(fn), '' if ok else 'an early exit returns %s' % [norm(r) for r in early])
    # stores to valid
    stores = []
    for n in ast.walk(fn):
        if isinstance(n, ast.Assign) and any(path_of(t) == 'valid' for t in n.targets):
            stores.append(n)
        if isinstance(n, ast.AugAssign) and path_of(n.target) == 'valid':
            stores.append(n)
    inits = [s for s in stores if isinstance(s, ast.Assign)]
    ok = len(inits) == 1 and A.const(inits[0].value) is True and inits[0] in fn.body
    yield Ob('x12n_document:x12n_document valid starts True, once, before the loop', ok, ctx.floc(fn),
             '' if ok else 'assignments to valid: %s' % [norm(s) for s in inits])
    augs = [s for s in stores if isinstance(s, ast.AugAssign)]
    ok = bool(augs) and all(isinstance(s.op, ast.BitAnd) for s in augs) and \
        any(isinstance(s.value, ast.Call) and A.call_target(s.value)[1] == 'is_valid' for s in augs)
    yield Ob('x12n_document:x12n_document valid is and-ed with node.is_valid(seg, errh)', ok, ctx.floc(fn),
             '' if ok else 'updates: %s' % [norm(s) for s in augs])


# --------------------------------------------------------------------------- R2
EVIDENCE = ('errors', 'elements', 'children')
DECIDERS = ('get_error_count', 'err_count', '_get_ack_code', 'close')


def r2_evidence(ctx):
    m = ctx.mod('error_handler')
    for cname in ('err_isa', 'err_gs', 'err_st', 'err_seg'):
        cls = ctx.cls('error_handler', cname)
        meths = {f.name: f for f in cls.body if isinstance(f, ast.FunctionDef)}
        init = meths.get('__init__')
        if init is None:
            raise AnalysisError('%s.__init__ vanished' % cname)
        stored = set()
        for n in ast.walk(init):
            if isinstance(n, ast.Assign):
                for t in n.targets:
                    p = path_of(t)
                    if p and p.startswith('self.') and p[5:] in EVIDENCE:
                        stored.add(p[5:])
        # fields that can actually receive evidence: appended to somewhere in the module (x.<field>.append)
        fed = set()
        for n in ast.walk(m.tree):
            if isinstance(n, ast.Call) and isinstance(n.func, ast.Attribute) and n.func.attr == 'append':
                p = path_of(n.func.value)
                if p and p.split('.')[-1] in EVIDENCE:
                    fed.add(p.split('.')[-1])
        stored &= fed | {'errors'}

        def consulted(name, seen):
            if name in seen or name not in meths:
                return set()
            seen.add(name)
            out = set()
            for n in ast.walk(meths[name]):
                if isinstance(n, ast.Attribute) and isinstance(n.ctx, ast.Load) and path_of(n.value) == 'self' and n.attr in EVIDENCE:
                    out.add(n.attr)
                if isinstance(n, ast.Call) and A.call_target(n)[0] == 'self':
                    out |= consulted(A.call_target(n)[1], seen)
            return out
        for d in DECIDERS:
            if d not in meths:
                continue
            if d == 'close' and not any(A.call_target(c)[0] == 'self' and A.call_target(c)[1] in DECIDERS for c in A.calls_in(meths[d])):
                continue
            got = consulted(d, set())
            missing = sorted(stored - got)
            yield Ob('error_handler:%s.%s consults every evidence field' % (cname, d), not missing, ctx.loc(m, meths[d]),
                     '' if not missing else '%s stores errors in %s but %s ignores %s: an error recorded there leaves the '
                     'set/group "accepted" while the verdict is false' % (cname, sorted(stored), d, missing))
    # (err_handler.get_error_count = sum over every interchange: decided by constant propagation in R14)


# --------------------------------------------------------------------------- R3
def r3_tags(ctx):
    prod = {}
    arity = set()
    for q in ('_isa_error', '_gs_error', '_st_error', '_seg_error'):
        f = ctx.func('x12file', 'X12Base.' + q)
        for c in A.calls_in(f):
            if A.call_target(c) == ('self.err_list', 'append') and isinstance(c.args[0], ast.Tuple):
                prod[A.const(c.args[0].elts[0])] = q
                arity.add(len(c.args[0].elts))
    if len(prod) != 4:
        raise AnalysisError('reader error producers not recognised: %s' % prod)
    ok = len(arity) == 1
    yield Ob('x12file:X12Base error tuples have one arity', ok, 'pyx12/x12file.py', '' if ok else 'arities %s' % sorted(arity))
    for cname in ('err_handler', 'errh_list'):
        f = ctx.func('error_handler', cname + '.handle_errors')
        loops = [n for n in ast.walk(f) if isinstance(n, ast.For)]
        if len(loops) != 1 or not isinstance(loops[0].target, ast.Tuple):
            raise AnalysisError('%s.handle_errors: unpacking loop not found' % cname)
        ok = len(loops[0].target.elts) in arity and len(arity) == 1
        yield Ob('error_handler:%s.handle_errors unpack arity = producer arity' % cname, ok, ctx.floc(f),
                 '' if ok else 'unpacks %d, producers append %s' % (len(loops[0].target.elts), sorted(arity)))
        var = path_of(loops[0].target.elts[0])
        disp = {}
        for lab, body, extra, node in A.branch_chain(loops[0].body, A.name_or_call_pred(var)):
            for st in body:
                for c in A.calls_in(st):
                    r, mth = A.call_target(c)
                    if r == 'self' and mth.endswith('_error'):
                        disp[lab] = mth
        want = {tag: q[1:] for tag, q in prod.items()}
        ok = disp == want
        yield Ob('error_handler:%s.handle_errors dispatches exactly the produced tags' % cname, ok, ctx.floc(f),
                 '' if ok else 'dispatch %s, produced %s' % (disp, want))


# --------------------------------------------------------------------------- R4
def _map_codes(ctx, fname, eid):
    m = ctx.maps.map(fname)
    if m is None:
        raise AnalysisError('%s vanished' % fname)
    for n in m.walk():
        if n.kind == 'element' and n.id == eid:
            return set(n.codes)
    raise AnalysisError('%s: element %s not found' % (fname, eid))


def _tuple_const(fn, name):
    """the code whitelist of a visitor method: the tuple bound to `name`, or - when the code does not keep it in a
    local - the one constant tuple the error code is tested against"""
    for n in ast.walk(fn):
        if isinstance(n, ast.Assign) and path_of(n.targets[0]) == name and isinstance(n.value, (ast.Tuple, ast.List)):
            return [A.const(x) for x in n.value.elts], n
    # the table is computed (tuple(str(i) for i in range(..)), a comprehension): its value by constant propagation
    for n in ast.walk(fn):
        if isinstance(n, ast.Assign) and path_of(n.targets[0]) == name:
            try:
                v = A.ev(n.value, {})
                if isinstance(v, (tuple, frozenset)) and all(isinstance(x, str) for x in v):
                    return list(v), n
            except (A.NotClosed, TypeError, ValueError):
                pass
    cands = []
    for n in ast.walk(fn):
        if isinstance(n, ast.Compare) and len(n.ops) == 1 and isinstance(n.ops[0], (ast.In, ast.NotIn)) \
                and isinstance(n.comparators[0], (ast.Tuple, ast.List)) and n.comparators[0].elts \
                and all(isinstance(x, ast.Constant) and isinstance(x.value, str) for x in n.comparators[0].elts) \
                and isinstance(n.left, ast.Name):
            cands.append(n)
    texts = {ast.unparse(c.comparators[0]) for c in cands}
    if len(texts) == 1:
        c = cands[0]
        return [A.const(x) for x in c.comparators[0].elts], c
    raise AnalysisError('%s: %s not found' % (fn.name, name))


def _sink_literals(ctx, sink_names, modules):
    out = {}
    for mn in modules:
        m = ctx.mod(mn)
        for c in A.calls_in(m.tree):
            r, nm = A.call_target(c)
            if nm in sink_names and c.args:
                code = None
                if nm == '_error':     # element_if._error(errh, err_str, err_cde, elem_val)
                    code = A.const(c.args[2]) if len(c.args) > 2 else None
                else:
                    code = A.const(c.args[0])
                if isinstance(code, str):
                    out.setdefault(code, []).append(ctx.loc(m, c))
    return out


def r4_code_tables(ctx):
    specs = [('error_997', 'error_997_visitor.visit_seg', 'valid_AK3_codes', '997.4010.xml', 'AK304', 'seg'),
             ('error_997', 'error_997_visitor.visit_ele', 'valid_AK4_codes', '997.4010.xml', 'AK403', 'ele'),
             ('error_999', 'error_999_visitor.visit_seg', 'valid_IK3_codes', '999.5010.xml', 'IK304', 'seg'),
             ('error_999', 'error_999_visitor.visit_ele', 'valid_IK4_codes', '999.5010.xml', 'IK403', 'ele')]
    seg_lits = _sink_literals(ctx, {'seg_error', '_seg_error'}, ['map_walker', 'x12file', 'x12n_document'])
    ele_lits = _sink_literals(ctx, {'ele_error', '_error'}, ['map_if'])
    for mod, qual, name, mapf, eid, level in specs:
        fn = ctx.func(mod, qual)
        vals, node = _tuple_const(fn, name)
        mc = _map_codes(ctx, mapf, eid)
        extra = sorted(set(vals) - mc)
        yield Ob('%s:%s %s within the %s code list of %s' % (mod, qual, name, eid, mapf), not extra, ctx.floc(fn, node),
                 '' if not extra else 'codes %s are written but the acknowledgement\'s own map does not list them' % extra)
        lits = seg_lits if level == 'seg' else ele_lits
        for code, sites in sorted(lits.items()):
            if code in mc:
                ok = code in vals
                yield Ob('%s:%s itemises reported %s code %s' % (mod, qual, level, code), ok, sites[0],
                         '' if ok else 'code %r is reported at %s and is a standard %s code, but %s drops it' % (code, sites[0], eid, name))


# --------------------------------------------------------------------------- R5
HOOKS = {'err_handler': ('visit_root_pre', 'visit_root_post'), 'err_isa': ('visit_isa_pre', 'visit_isa_post'),
         'err_gs': ('visit_gs_pre', 'visit_gs_post'), 'err_st': ('visit_st_pre', 'visit_st_post')}


def r5_visitors(ctx):
    base = ctx.cls('error_visitor', 'error_visitor')
    hooks = sorted(f.name for f in base.body if isinstance(f, ast.FunctionDef) and f.name.startswith('visit_'))
    for mod, cname in (('error_997', 'error_997_visitor'), ('error_999', 'error_999_visitor')):
        cls = ctx.cls(mod, cname)
        have = {f.name for f in cls.body if isinstance(f, ast.FunctionDef)}
        missing = [h for h in hooks if h not in have]
        yield Ob('%s:%s implements every hook' % (mod, cname), not missing, 'pyx12/%s.py' % mod,
                 '' if not missing else 'hooks %s fall back to the empty base method' % missing)
    for cname, (pre, post) in HOOKS.items():
        f = ctx.func('error_handler', cname + '.accept')
        seq = []
        for s in f.body:
            if isinstance(s, ast.Expr) and isinstance(s.value, ast.Call):
                seq.append(A.call_target(s.value)[1])
            elif isinstance(s, ast.For):
                it = norm(s.iter)
                inner = [A.call_target(c)[1] for c in A.calls_in(s)]
                seq.append('for %s: %s' % (it, ','.join(inner)))
        want = [pre, 'for self.children: accept', post]
        ok = seq == want
        yield Ob('error_handler:%s.accept visits pre, children, post' % cname, ok, ctx.floc(f), '' if ok else 'sequence %s' % seq)
    f = ctx.func('error_handler', 'err_seg.accept')
    seq = [A.call_target(c)[1] for c in A.calls_in(f)]
    ok = seq == ['visit_seg', 'accept'] and any(isinstance(s, ast.For) and norm(s.iter) == 'self.elements' for s in f.body)
    yield Ob('error_handler:err_seg.accept visits the segment then every element', ok, ctx.floc(f), '' if ok else 'calls %s' % seq)
    f = ctx.func('error_handler', 'err_ele.accept')
    ok = [A.call_target(c)[1] for c in A.calls_in(f)] == ['visit_ele']
    yield Ob('error_handler:err_ele.accept visits the element', ok, ctx.floc(f), '' if ok else 'changed')
    # element errors recorded on ISA/GS/ST nodes are not visited by accept() -> they must be folded in by the __get_*_errors
    # helpers: each helper decided by constant propagation - the node's own error codes are in the answer, and an element
    # error at some position of the header / trailer adds a code to it
    from ..absint import run_function as _rf, helper_oracles as _ho5, NotClosedTest as _NC5
    for mod, cname in (('error_997', 'error_997_visitor'), ('error_999', 'error_999_visitor')):
        cls = ctx.cls(mod, cname)
        hf5 = _ho5(ctx, mod)
        for f in cls.body:
            if isinstance(f, ast.FunctionDef) and f.name.endswith(('__get_gs_errors', '__get_st_errors', '__get_isa_errors')):
                level = f.name.split('__get_')[1].split('_')[0].upper()
                own = {'ISA': '001', 'GS': '4', 'ST': '4'}[level]
                trailer = {'ISA': 'IEA', 'GS': 'GE', 'ST': 'SE'}[level]

                def answer(errors, elements, f=f):
                    node = A.Model('err_' + level.lower(), errors=tuple(errors), elements=tuple(elements), child_err_count=lambda: 0)
                    try:
                        r = _rf(ctx.cfg(f), f, [None, node], hf5, env=dict(A.module_constants(ctx.mod(mod).tree)))
                    except (_NC5, A.NotClosed) as e2:
                        raise AnalysisError('%s.%s cannot be decided: %s' % (cname, f.name, e2))
                    return tuple(r) if isinstance(r, (tuple, list)) else r
                base = answer([(own, 'm')], [])
                ok_own = isinstance(base, tuple) and own in base
                grows = False
                for sid in (level, trailer):
                    for pos in range(1, 17):
                        ele = A.Model('ele', ele_pos=pos, subele_pos=None, errors=(('7', 'Invalid value in (%s%02d)' % (sid, pos), 'x'),))
                        got = answer([(own, 'm')], [ele])
                        if isinstance(got, tuple) and set(got) - set(base or ()):
                            grows = True
                ok = ok_own and grows
                yield Ob('%s:%s.%s folds in errors and element errors' % (mod, cname, f.name), ok, ctx.loc(mod, f),
                         '' if ok else ('the node\'s own error code %s is not in the answer %s' % (own, base) if not ok_own else
                                        'no element error of the %s / %s segment adds a code to the answer: element errors recorded on the loop node never reach the acknowledgement' % (level, trailer)))


# --------------------------------------------------------------------------- R6
def _ak9_args(ctx, mod, cname):
    f = ctx.func(mod, cname + '.visit_gs_post')
    vals = {}
    order = 0
    seg = None
    for s in ast.walk(f):
        if isinstance(s, ast.Assign) and isinstance(s.value, ast.Call) and A.call_target(s.value)[1] == 'Segment' \
                and s.value.args and A.const(s.value.args[0]) == 'AK9':
            seg = path_of(s.targets[0])
    if seg is None:
        raise AnalysisError('%s.visit_gs_post: AK9 segment not found' % cname)
    locals_ = {}
    for s in f.body:
        if isinstance(s, ast.Assign) and isinstance(s.targets[0], ast.Name):
            locals_[s.targets[0].id] = s.value
    active = False
    for s in f.body:
        if isinstance(s, ast.Assign) and path_of(s.targets[0]) == seg:
            active = isinstance(s.value, ast.Call) and bool(s.value.args) and A.const(s.value.args[0]) == 'AK9'
            continue
        if not active:
            continue
        if isinstance(s, ast.Expr) and isinstance(s.value, ast.Call) and A.call_target(s.value)[0] == seg:
            c = s.value
            mth = A.call_target(c)[1]
            if mth == 'append':
                order += 1
                vals[order] = c.args[0]
            elif mth == 'set':
                vals[int(A.const(c.args[0])[-2:])] = c.args[1]

    def inner(e):
        if isinstance(e, ast.BinOp) and isinstance(e.op, ast.Mod) and A.is_str(e.left):
            e = e.right
            if isinstance(e, ast.Tuple) and len(e.elts) == 1:
                e = e.elts[0]
        if isinstance(e, ast.Name) and e.id in locals_:
            e = locals_[e.id]
        return A.canon(e)
    return f, {k: inner(v) for k, v in vals.items() if k <= 4}


def r6_totals(ctx):
    want = {1: 'err_gs.ack_code', 2: 'err_gs.st_count_orig', 3: 'err_gs.st_count_recv'}
    got = {}
    for mod, cname in (('error_997', 'error_997_visitor'), ('error_999', 'error_999_visitor')):
        f, vals = _ak9_args(ctx, mod, cname)
        got[cname] = vals
        for k, w in want.items():
            ok = vals.get(k) == w
            yield Ob('%s:%s.visit_gs_post AK9%02d = %s' % (mod, cname, k, w), ok, ctx.floc(f), '' if ok else 'AK9%02d is %s' % (k, vals.get(k)))
        v4 = vals.get(4, '')
        ok = 'err_gs.st_count_recv' in v4 and 'count_failed_st()' in v4 and 'Sub' in v4
        yield Ob('%s:%s.visit_gs_post AK904 = received - failed' % (mod, cname), ok, ctx.floc(f), '' if ok else 'AK904 is %s' % v4)
    a, b = got['error_997_visitor'], got['error_999_visitor']
    yield Ob('997 and 999 visitors build AK9 from the same expressions', a == b, 'pyx12/error_999.py', '' if a == b else '%s vs %s' % (a, b))
    # sources of the fields
    f = ctx.func('error_handler', 'err_gs.close')
    src = {}
    for s in ast.walk(f):
        if isinstance(s, ast.Assign):
            p = path_of(s.targets[0])
            if p in ('self.st_count_orig', 'self.st_count_recv', 'self.ack_code'):
                src.setdefault(p[5:], []).append(s.value)
    def _reaches_ge01(v, depth=0):
        if 'GE01' in norm(v, 400):
            return True
        if depth > 3:
            return False
        for x in ast.walk(v):
            if isinstance(x, ast.Name):
                for s2 in ast.walk(f):
                    if isinstance(s2, ast.Assign) and any(path_of(t) == x.id for t in s2.targets) and _reaches_ge01(s2.value, depth + 1):
                        return True
        return False
    ok = any(_reaches_ge01(v) for v in src.get('st_count_orig', []))
    yield Ob('error_handler:err_gs.close st_count_orig comes from GE01', ok, ctx.floc(f), '' if ok else 'sources %s' % [norm(v) for v in src.get('st_count_orig', [])])
    ok = [norm(v) for v in src.get('st_count_recv', [])] == ['src.st_count']
    yield Ob('error_handler:err_gs.close st_count_recv comes from the reader\'s st_count', ok, ctx.floc(f), '' if ok else 'sources %s' % [norm(v) for v in src.get('st_count_recv', [])])
    ok = [norm(v) for v in src.get('ack_code', [])] == ['self._get_ack_code()']
    yield Ob('error_handler:err_gs.close ack_code comes from _get_ack_code()', ok, ctx.floc(f), '' if ok else 'changed')
    f = ctx.func('error_handler', 'err_gs.count_failed_st')
    ok = any(isinstance(n, (ast.For, ast.comprehension)) and norm(n.iter) == 'self.children' for n in ast.walk(f)) and 'ack_code' in ast.unparse(f)
    require_idiom(ok, 'c05.py:360')
    yield Ob('error_handler:err_gs.count_failed_st counts children by ack_code', ok, ctx.floc(f), '' if ok else 'changed')
    # err_st.close: ack 'A' exactly when err_count() == 0
    f = ctx.func('error_handler', 'err_st.close')
    from ..absint import explore
    g_ = ctx.cfg(f)

    def _ack_for(k):
        outs = set()

        def on_node(nd, env):
            if nd is g_.exit:
                outs.add(env.get('self.ack_code', '?'))
        try:
            explore(g_, {}, funcs={'self.err_count': lambda: k}, on_node=on_node)
        except RuntimeError as e:
            raise AnalysisError('err_st.close: %s' % e)
        return outs
    okc = _ack_for(0) == {'A'} and _ack_for(3) == {'R'} and _ack_for(1) == {'R'}
    yield Ob('error_handler:err_st.close accepts the set exactly when it has no error', okc, ctx.floc(f), '' if okc else 'ack code assignment changed')
    f = ctx.func('error_handler', 'err_gs._get_ack_code')
    rets = [A.const(n.value) for n in ast.walk(f) if isinstance(n, ast.Return)]
    last = f.body[-1]
    ok = isinstance(last, ast.Return) and A.const(last.value) == 'A' and set(rets) <= {'A', 'R', 'E', 'P'} and rets.count('A') == 1
    yield Ob('error_handler:err_gs._get_ack_code accepts only as the fall-through', ok, ctx.floc(f), '' if ok else 'returns %s' % rets)


def r7_sinks_do_not_swallow(ctx):
    """an error handed to a sink of err_handler must be recorded or the failure must surface: the recording call may
    not sit in a try whose catch-all handler neither re-raises nor records it elsewhere (the verdict is computed from
    the recorded errors only)"""
    for sink in ('isa_error', 'gs_error', 'st_error', 'seg_error', 'ele_error'):
        f = ctx.func('error_handler', 'err_handler.' + sink)
        recs = [c for c in A.calls_in(f) if A.call_target(c)[1] == 'add_error']
        if not recs:
            raise AnalysisError('err_handler.%s no longer records through add_error' % sink)
        for c in recs:
            swallowed = False
            p_ = A.parent(c)
            child = c
            while p_ is not None and p_ is not f:
                if isinstance(p_, ast.Try) and child in p_.body:
                    for h in p_.handlers:
                        catch_all = h.type is None or (path_of(h.type) or '') in ('Exception', 'BaseException')
                        reraises = any(isinstance(x, ast.Raise) for x in ast.walk(h))
                        records = any(isinstance(x, ast.Call) and A.call_target(x)[1] in ('add_error', 'isa_error', 'gs_error', 'st_error') for x in ast.walk(h))
                        if catch_all and not reraises and not records:
                            swallowed = True
                child = p_
                p_ = A.parent(p_)
            yield Ob('error_handler:err_handler.%s records the error or fails loudly' % sink, not swallowed, ctx.floc(f, c),
                     '' if not swallowed else 'the recording call sits in a catch-all `except` that only logs: when no segment node can take the error '
                     '(segment-level error while the current node is an ISA/GS/ST node, or before any ST) it is dropped and the verdict stays True')
    # arity agreement of add_error across every class that can be the current segment node
    f = ctx.func('error_handler', 'err_handler.seg_error')
    call = [c for c in A.calls_in(f) if A.call_target(c) == ('self.cur_seg_node', 'add_error')]
    if call:
        nargs = len(call[0].args)
        for cname in ('err_isa', 'err_gs', 'err_st', 'err_seg'):
            g = ctx.func('error_handler', cname + '.add_error')
            npar = len(g.args.args) - 1
            ndef = len(g.args.defaults)
            ok = npar - ndef <= nargs <= npar
            yield Ob('error_handler:%s.add_error accepts the %d arguments seg_error passes to the current segment node' % (cname, nargs), ok, ctx.floc(g),
                     '' if ok else '%s.add_error takes %d argument(s); seg_error passes %d when this node is current: TypeError, swallowed by the bare except' % (cname, npar, nargs))


def r8_shared_reader_counts(ctx):
    """AK903 is the reader's st_count: its wiring is C04.R1 (shared)"""
    from . import c04
    for o in c04.r1_wiring(ctx):
        yield o

def r9_reader_errors_before_close(ctx):
    """the acknowledgement code of a set / group / interchange is fixed when its loop is closed (err_x.close): the
    reader's errors about the trailer (count, control number, unterminated loops) must have been handed to the error
    tree before - in each trailer branch handle_errors(src.pop_errors()) dominates close_*_loop, and nothing is
    popped from the reader after the close in that branch"""
    fn = ctx.func('x12n_document', 'x12n_document')
    g = ctx.cfg(fn)
    dom = g.dominators()

    def find(pred):
        return [nd for nd in g.nodes if any(isinstance(x, ast.Call) and pred(x) for x in g.walk_exprs(nd))]
    handles = find(lambda c: A.call_target(c)[1] == 'handle_errors' and c.args and isinstance(c.args[0], ast.Call)
                   and A.call_target(c.args[0])[1] == 'pop_errors')
    if len(handles) < 4:
        raise AnalysisError('x12n_document: handle_errors(src.pop_errors()) sites not found')
    for lvl in ('isa', 'gs', 'st'):
        closes = find(lambda c, lvl=lvl: A.call_target(c)[1] == 'close_%s_loop' % lvl)
        if len(closes) != 1:
            raise AnalysisError('x12n_document: close_%s_loop call not found' % lvl)
        cl = closes[0]
        blk_owner = A.parent(cl.stmt)
        same_block = [h for h in handles if A.parent(h.stmt) is blk_owner]
        before = [h for h in same_block if h.id in dom[cl.id]]
        after = [h for h in same_block if cl.id in dom[h.id]]
        ok = bool(before) and not after
        yield Ob('x12n_document:x12n_document reader errors reach the error tree before close_%s_loop' % lvl, ok, ctx.floc(fn, cl.stmt),
                 '' if ok else ('the reader\'s errors are handled only after the loop was closed: its acknowledgement code is already fixed '
                                'and says accepted while an error is itemised' if after else 'no handle_errors(src.pop_errors()) before the close in this branch'))


def r10_element_position(ctx):
    """an element error is itemised "at the right element position": the first element of AK4/IK4 is built from the
    element, component and repetition position of the error node, each in its own place.  The expressions written
    there are evaluated with three distinct positions (6, 2, 3)."""
    env = {'err_ele.ele_pos': 6, 'err_ele.subele_pos': 2, 'err_ele.repeat_pos': 3}
    for mod, cname, segid in (('error_997', 'error_997_visitor', 'AK4'), ('error_999', 'error_999_visitor', 'IK4')):
        f = ctx.func(mod, cname + '.visit_ele')
        n = 0
        sites = []
        for c in A.calls_in(f):
            r, m = A.call_target(c)
            if m not in ('set', 'append') or not c.args:
                continue
            val = c.args[-1]
            if isinstance(val, ast.Name):
                # the value was put into a local first (one binding per case): each binding is a write site of its own
                for d in ast.walk(f):
                    if isinstance(d, ast.Assign) and len(d.targets) == 1 and path_of(d.targets[0]) == val.id:
                        sites.append((c, m, d.value, d))
            else:
                sites.append((c, m, val, A.enclosing(c, (ast.stmt,))))
        for c, m, val, st in sites:
            if not any((path_of(x) or '').startswith('err_ele.') and (path_of(x) or '').endswith('_pos') for x in ast.walk(val)):
                continue
            n += 1
            try:
                got = A.ev(val, env)
            except (A.NotClosed, TypeError) as e:
                raise AnalysisError('%s.visit_ele: position expression not closed: %s' % (cname, norm(val)))
            conds = A.path_condition(st, f)
            if m == 'set':
                rd = A.const(c.args[0]) or ''
                comp = rd.split('-')[1] if '-' in rd else '1'
                want = {'1': '6', '2': '2', '3': '3'}.get(comp)
                where = 'component %s of %s01' % (comp, segid)
            else:
                has_sub = any(pol and 'subele_pos' in norm(t) for t, pol in conds)
                want = '6:2' if has_sub else '6'
                where = '%s01 (%s a component position)' % (segid, 'with' if has_sub else 'without')
            ok = str(got) == want
            yield Ob('%s:%s.visit_ele %s carries its own position' % (mod, cname, where), ok, ctx.floc(f, c),
                     '' if ok else 'for element 6, component 2, repetition 3 the expression `%s` writes %r, expected %r' % (norm(val), got, want))
        if n < 2:
            raise AnalysisError('%s.visit_ele: position expressions not found' % cname)


def r11_trailer_errors_count(ctx):
    """the trailer of a set or group is validated (node.is_valid) AFTER its loop was closed, and its element errors are
    attached to the closed loop node.  A set / group is marked accepted exactly when no error was reported inside it,
    so the code must not be frozen at close time: either the trailer is validated before close_*_loop, or the
    acknowledgement code is re-evaluated from the error counts whenever it is read (a property that consults
    err_count() / _get_ack_code())."""
    fn = ctx.func('x12n_document', 'x12n_document')
    g = ctx.cfg(fn)
    dom = g.dominators()
    cur = A.current_node_var(fn) or 'node'
    valid_nodes = [nd for nd in g.nodes if any(isinstance(x, ast.Call) and A.call_target(x) == (cur, 'is_valid') for x in g.walk_exprs(nd))]
    if not valid_nodes:
        raise AnalysisError('x12n_document: node.is_valid call not found')
    for lvl, cname, counter in (('st', 'err_st', 'err_count'), ('gs', 'err_gs', '_get_ack_code')):
        closes = [nd for nd in g.nodes if any(isinstance(x, ast.Call) and A.call_target(x)[1] == 'close_%s_loop' % lvl for x in g.walk_exprs(nd))]
        if len(closes) != 1:
            raise AnalysisError('x12n_document: close_%s_loop call not found' % lvl)
        validated_first = any(v.id in dom[closes[0].id] for v in valid_nodes)
        cls = ctx.cls('error_handler', cname)
        lazy = False
        for f in cls.body:
            if isinstance(f, ast.FunctionDef) and f.name == 'ack_code' and any(isinstance(d, ast.Name) and d.id == 'property' for d in f.decorator_list):
                lazy = any(A.call_target(c) == ('self', counter) for c in A.calls_in(f))
        ok = validated_first or lazy
        yield Ob('error_handler:%s acknowledgement code reflects errors on the trailer segment itself' % cname, ok, ctx.floc(fn, closes[0].stmt),
                 '' if ok else 'close_%s_loop fixes the code before the trailer is validated (node.is_valid runs afterwards) and %s.ack_code is a plain '
                 'attribute: an error on the %s segment leaves the %s marked accepted while the verdict is False'
                 % (lvl, cname, 'SE' if lvl == 'st' else 'GE', 'set' if lvl == 'st' else 'group'))


def r16_group_totals(ctx):
    """the AK9 both visitors write carries, in this order, the group's code, the number of sets the GE declared, the number
    received, and the number accepted = received minus the sets not accepted (never below 0): visit_gs_post decided by
    constant propagation over codes x declared x received x failed, the positions taken from the construction (append
    order after the literal 'AK9', or the designator of set)."""
    from ..absint import traces, NotClosedTest
    import itertools as _it
    for mod, cname in (('error_997', 'error_997_visitor'), ('error_999', 'error_999_visitor')):
        fn = ctx.func(mod, cname + '.visit_gs_post')
        g = ctx.cfg(fn)
        bad = []
        runs = 0
        for code, orig, recv, failed in _it.product(('A', 'R', 'E', None), (3, 5, None), (3, 4, None), (0, 1, 4, 9)):
            gs = A.Model('err_gs', ack_code=code, st_count_orig=orig, st_count_recv=recv, count_failed_st=lambda failed=failed: failed,
                         errors=(), elements=(), gs_control_num='17', fic='HC')

            def key(c):
                r, m = A.call_target(c)
                if m in ('append', 'set') and r and '.' not in r:
                    return 'seg_data.' + m
                if m == 'Segment' and c.args and A.is_str(c.args[0]):
                    return 'new'
                if r in ('self', 'self.wr') and m in ('_write', 'Write'):
                    return 'write'
                return None
            try:
                env_ = {k_: v_ for k_, v_ in A.module_constants(ctx.mod(mod).tree).items() if isinstance(v_, (int, str, tuple))}
                env_['err_gs'] = gs
                res = traces(g, env_, key, funcs={'self.__get_gs_errors': lambda *_a: ('5',), 'self._error_997_visitor__get_gs_errors': lambda *_a: ('5',)})
            except NotClosedTest as e:
                raise AnalysisError('%s.visit_gs_post cannot be decided: %s' % (cname, e))
            runs += 1
            want = [code or 'R', str(orig or 0), str(recv or 0), str(max((recv or 0) - failed, 0))]
            for tr, _e in res:
                # first segment built in the hook = AK9: collect its first four positions
                pos = {}
                nxt = 1
                on = False
                for k_, vals in tr:
                    if k_ == 'new':
                        if on:
                            break
                        on = vals[:1] == ('AK9',)
                        continue
                    if not on:
                        continue
                    if k_ == 'write':
                        break
                    if k_ == 'seg_data.append' and vals:
                        pos.setdefault(nxt, vals[0])
                        nxt += 1
                    elif k_ == 'seg_data.set' and len(vals) == 2 and isinstance(vals[0], str) and vals[0][-2:].isdigit():
                        pos[int(vals[0][-2:])] = vals[1]
                        nxt = max(nxt, int(vals[0][-2:]) + 1)
                got = [pos.get(i) for i in (1, 2, 3, 4)]
                if got != want and len(bad) < 3:
                    bad.append('group code %r, %r sets declared, %r received, %r not accepted: AK901-04 = %s, expected %s' % (code, orig, recv, failed, got, want))
        yield Ob('%s:%s.visit_gs_post AK9 = code, declared, received, accepted' % (mod, cname), not bad, ctx.floc(fn), '' if not bad else bad[0],
                 note='%d combinations' % runs)


def r15_accept_iff_no_error(ctx):
    """a group is marked accepted exactly when nothing below it, none of its own elements and none of its own errors was
    reported; the failed-set count is the number of sets not accepted; the error counts of a set / segment are positive
    exactly when something was reported on it.  Decided by constant propagation on nodes with every combination of
    (children with/without errors, elements with/without errors, own errors)."""
    from ..absint import run_function, helper_oracles, NotClosedTest
    hfuncs = helper_oracles(ctx, 'error_handler')
    import itertools as _it

    def kid(n, code='A', stored=None):
        # `ack_code` is what the node answers now; `_ack_code` what was stored when its loop was closed (an acceptance
        # stored before the trailer's own errors arrived is stale)
        return A.Model('kid', get_error_count=lambda n=n: n, err_count=lambda n=n: n, ack_code=code, _ack_code=stored if stored is not None else code)

    def run(cname, meth, env):
        fn = ctx.func('error_handler', '%s.%s' % (cname, meth))
        try:
            return fn, run_function(ctx.cfg(fn), fn, [None], hfuncs, env=env)
        except (NotClosedTest, A.NotClosed) as e:
            raise AnalysisError('%s.%s cannot be decided: %s' % (cname, meth, e))
    bad = []
    for kids, eles, errs in _it.product(((), (0, 0), (0, 2), (1, 0)), ((), (0,), (3,)), (0, 1)):
        env = {'self.children': tuple(kid(n) for n in kids), 'self.elements': tuple(kid(n) for n in eles), 'self.errors': tuple(('c', 'm') for _ in range(errs))}
        fn, got = run('err_gs', '_get_ack_code', env)
        want = 'A' if (sum(kids) == 0 and sum(eles) == 0 and errs == 0) else 'R'
        if got != want:
            bad.append('children %s, element errors %s, %d own error(s): code %r, expected %r' % (list(kids), list(eles), errs, got, want))
    yield Ob('error_handler:err_gs._get_ack_code accepts exactly when nothing was reported in or on the group', not bad,
             ctx.floc(ctx.func('error_handler', 'err_gs._get_ack_code')), '' if not bad else bad[0])
    bad = []
    for codes in ((), ('A',), ('R',), ('A', 'R', 'E', 'R'), ('E',), ('M', 'W', 'X', 'A'), ('A', 'R/A'), ('R/A', 'R/A', 'E')):
        env = {'self.children': tuple(kid(0, c.split('/')[0], c.split('/')[-1]) for c in codes)}
        codes = tuple(c.split('/')[0] for c in codes)
        fn, got = run('err_gs', 'count_failed_st', env)
        want = sum(1 for c in codes if c not in ('A', 'E'))
        if got != want:
            bad.append('sets with codes %s: %r failed, expected %r' % (list(codes), got, want))
    yield Ob('error_handler:err_gs.count_failed_st counts the sets that are not accepted', not bad, ctx.floc(fn), '' if not bad else bad[0])
    # the code a closed set / group answers: an acceptance stored at the close is re-evaluated (errors of the trailer
    # itself arrive afterwards), anything else is what was stored
    for cname, recount in (('err_st', 'err_count'), ('err_gs', '_get_ack_code')):
        cls = ctx.cls('error_handler', cname)
        getter = [f for f in cls.body if isinstance(f, ast.FunctionDef) and f.name == 'ack_code'
                  and any(isinstance(d, ast.Name) and d.id == 'property' for d in f.decorator_list)]
        if not getter:
            raise AnalysisError('%s.ack_code is no longer a property: the rule does not know how the code is answered' % cname)
        bad = []
        for stored, late in _it.product(('A', 'R', 'E', 'M'), (0, 2)):
            env = {'self._ack_code': stored}
            fx = dict(hfuncs)
            fx['self.err_count'] = lambda late=late: late
            fx['self._get_ack_code'] = lambda late=late: 'R' if late else 'A'
            try:
                got = run_function(ctx.cfg(getter[0]), getter[0], [None], fx, env=env)
            except (NotClosedTest, A.NotClosed) as e:
                raise AnalysisError('%s.ack_code cannot be decided: %s' % (cname, e))
            want = 'R' if (stored == 'A' and late) else stored
            if got != want:
                bad.append('stored %r, %s: answers %r, expected %r' % (stored, 'errors after the close' if late else 'no later errors', got, want))
        yield Ob('error_handler:%s.ack_code re-evaluates a stored acceptance, keeps any other code' % cname, not bad, ctx.loc('error_handler', getter[0]), '' if not bad else bad[0])
    for cname in ('err_st', 'err_seg'):
        bad = []
        for child, eles, errs in _it.product((0, 2), ((), (0,), (3, 1)), (0, 2)):
            env = {'self.elements': tuple(kid(n) for n in eles), 'self.errors': tuple(('c', 'm') for _ in range(errs)),
                   'self.children': tuple(kid(child) for _ in range(2))}
            funcs_env = dict(env)
            fnc = ctx.func('error_handler', cname + '.err_count')
            try:
                got = run_function(ctx.cfg(fnc), fnc, [None], dict(hfuncs, **{'self.child_err_count': lambda child=child, eles=eles, cname=cname:
                                                              (child if cname == 'err_st' else sum(1 for n in eles if n > 0))}), env=funcs_env)
            except (NotClosedTest, A.NotClosed) as e:
                raise AnalysisError('%s.err_count cannot be decided: %s' % (cname, e))
            reported = errs > 0 or (child > 0 if cname == 'err_st' else any(n > 0 for n in eles)) or (cname == 'err_st' and sum(eles) > 0)
            if bool(got) != reported or (got is not None and got < 0):
                bad.append('%d own error(s), element errors %s, %s: count %r' % (errs, list(eles), 'segments with errors' if child else 'no segment errors', got))
        yield Ob('error_handler:%s.err_count is positive exactly when something was reported' % cname, not bad, ctx.floc(fnc), '' if not bad else bad[0])


def r14_error_totals(ctx):
    """the verdict rests on err_handler.get_error_count(): structural errors (counts, missing or unknown segments, repeat
    limits) do not touch the `valid` flag, only this total.  Each get_error_count of the error tree is decided by
    constant propagation on a node with several children / elements / own errors of known counts: the result is the
    SUM over all of them (an accumulator that is overwritten instead of added to counts only the last interchange,
    group or set)."""
    from ..absint import run_function, NotClosedTest

    def kid(n):
        return A.Model('kid%d' % n, get_error_count=lambda n=n: n, err_count=lambda n=n: n)
    for cname, fields in (('err_handler', ('children',)), ('err_node', ('children',)), ('err_isa', ('elements', 'children', 'errors')),
                          ('err_gs', ('elements', 'children', 'errors'))):
        fn = ctx.func('error_handler', cname + '.get_error_count')
        bad = []
        for kids, eles, errs in (((2, 0, 3), (1,), 2), ((1, 2), (), 0), ((0, 0, 0), (0,), 0), ((), (), 1), ((4,), (2, 3), 1), ((1, 0), (), 0)):
            env = {'self.children': tuple(kid(n) for n in kids), 'self.elements': tuple(kid(n) for n in eles), 'self.errors': tuple(('c', 'm') for _ in range(errs))}
            want = sum(kids) + (sum(eles) if 'elements' in fields else 0) + (errs if 'errors' in fields else 0)
            try:
                got = run_function(ctx.cfg(fn), fn, [None], {}, env=env)
            except (NotClosedTest, A.NotClosed) as e:
                raise AnalysisError('%s.get_error_count cannot be decided: %s' % (cname, e))
            if got != want:
                bad.append('children with %s errors%s%s: the total is %s, not %s' % (
                    list(kids), ', elements with %s' % list(eles) if 'elements' in fields else '', ', %d own' % errs if 'errors' in fields else '', got, want))
        yield Ob('error_handler:%s.get_error_count is the sum over everything below the node' % cname, not bad, ctx.floc(fn),
                 '' if not bad else bad[0] + ' - errors in an earlier interchange / group / set are reported but the verdict stays True')


def r13_segment_items(ctx):
    """every segment error with a standard code gets its AK3/IK3, and the element errors of a segment are itemised under
    an AK3/IK3 of that segment: visit_seg of both visitors, decided by constant propagation for every combination of
    segment-level codes (standard, non-standard HL1/LX, the SEG1 marker, none) with and without element errors, writes
    one AK3/IK3 per standard code reported, each once, and at least one whenever the segment has element errors - an
    AK4/IK4 without its AK3/IK3 is read as belonging to the previous segment."""
    from ..absint import traces, NotClosedTest
    import itertools as _it
    for mod, cname, des in (('error_997', 'error_997_visitor', 'AK304'), ('error_999', 'error_999_visitor', 'IK304')):
        fn = ctx.func(mod, cname + '.visit_seg')
        g = ctx.cfg(fn)
        std = ('1', '2', '3', '4', '5', '6', '7', '8')
        bad = []
        runs = 0
        for codes in [()] + [c_ for k in (1, 2) for c_ in _it.combinations(('3', '5', '8', 'HL1', 'LX', 'SEG1'), k)]:
            for kids in (0, 2):
                seg = A.Model('err_seg', seg_id='NM1', seg_count=5, ls_id=None, name='x', errors=tuple((c_, 'msg', None) for c_ in codes),
                              child_err_count=lambda kids=kids: kids, elements=())

                def key(c):
                    r, m = A.call_target(c)
                    if m == 'set' and c.args and A.const(c.args[0]) == des:
                        return 'item'
                    return None
                try:
                    res = traces(g, {'err_seg': seg}, key)
                except NotClosedTest as e:
                    raise AnalysisError('%s.visit_seg cannot be decided for the codes %s: %s' % (cname, list(codes), e))
                runs += 1
                for tr, _e in res:
                    written = [a_[1][1] if len(a_[1]) > 1 else '?' for a_ in tr if a_[0] == 'item']
                    need = sorted({c_ for c_ in codes if c_ in std} | ({'8'} if 'SEG1' in codes else set()))
                    prob = None
                    if sorted(set(written)) != sorted(written):
                        prob = 'writes a code twice'
                    elif [c_ for c_ in need if c_ not in written]:
                        prob = 'writes no %s for the code %s' % (des[:3], [c_ for c_ in need if c_ not in written][0])
                    elif kids and not written:
                        prob = 'writes no %s although the segment has element errors: their %s4 lines are read as part of the previous segment' % (des[:3], des[:2])
                    elif [c_ for c_ in written if c_ not in need and c_ != '8']:
                        prob = 'writes the code %s that was not reported' % [c_ for c_ in written if c_ not in need][0]
                    if prob and len(bad) < 3:
                        bad.append('segment codes %s, %d element error(s): %s (written: %s)' % (list(codes), kids, prob, written))
        yield Ob('%s:%s.visit_seg one %s per standard segment code, and one whenever there are element errors' % (mod, cname, des[:3]), not bad, ctx.floc(fn),
                 '' if not bad else bad[0], note='%d combinations' % runs)


def r12_addressed_to_sender(ctx):
    """the acknowledgement goes back to the sender: in the ISA and GS that visit_root_pre builds, the sender fields carry
    the received receiver and the receiver fields the received sender (ISA05/06 <-> ISA07/08, GS02 <-> GS03).  The
    position of every value is derived from the construction (elements of the literal the Segment starts with, then
    one per append; or the constant designator of set) and its source from the get_value designator it reads."""
    want = {('ISA', 5): 'ISA07', ('ISA', 6): 'ISA08', ('ISA', 7): 'ISA05', ('ISA', 8): 'ISA06', ('GS', 2): 'GS03', ('GS', 3): 'GS02'}
    for mod, cname in (('error_997', 'error_997_visitor'), ('error_999', 'error_999_visitor')):
        fn = ctx.func(mod, cname + '.visit_root_pre')
        segs = {}   # local name -> [segment id, next position]
        got = {}
        po = A.preorder(fn)
        for st in sorted([x for x in ast.walk(fn) if isinstance(x, ast.stmt)], key=lambda x: po[id(x)]):
            if isinstance(st, ast.Assign) and isinstance(st.targets[0], ast.Name) and isinstance(st.value, ast.Call) \
                    and A.call_target(st.value)[1] == 'Segment' and st.value.args and A.is_str(st.value.args[0]):
                txt = st.value.args[0].value
                parts = txt.rstrip('*').split('*') if txt else ['']
                segs[st.targets[0].id] = [parts[0], len(parts)]
            elif isinstance(st, ast.Expr) and isinstance(st.value, ast.Call):
                r, m = A.call_target(st.value)
                if r in segs and m == 'append' and st.value.args:
                    sid, pos = segs[r]
                    segs[r][1] = pos + 1
                    got[(sid, pos)] = st.value.args[0]
                elif r in segs and m == 'set' and len(st.value.args) == 2 and isinstance(A.const(st.value.args[0]), str):
                    d = A.const(st.value.args[0])
                    sid = segs[r][0]
                    if d.startswith(sid):
                        d = d[len(sid):]
                    if d[:2].isdigit():
                        got[(sid, int(d[:2]))] = st.value.args[1]
        if not any(k[0] == 'ISA' for k in got) or not any(k[0] == 'GS' for k in got):
            raise AnalysisError('%s.visit_root_pre: construction of the ISA/GS of the acknowledgement not recognised' % cname)
        for key, src in sorted(want.items()):
            e = got.get(key)
            reads = sorted({A.const(c.args[0]) for c in A.calls_in(e) if A.call_target(c)[1] == 'get_value' and c.args} if e is not None else [])
            ok = reads == [src]
            yield Ob('%s:%s.visit_root_pre %s%02d of the acknowledgement is the received %s' % (mod, cname, key[0], key[1], src), ok,
                     ctx.floc(fn, e if e is not None else fn),
                     '' if ok else '%s%02d is filled from %s: the acknowledgement is not addressed back to the sender of the document'
                     % (key[0], key[1], reads or (norm(e) if e is not None else 'nothing')))


def r17_false_means_reported(ctx):
    """the verdict is false only for a reported error: every way an element / composite / segment validator answers False
    passes a report first (C15.R2, shared) - a silent False makes the verdict disagree with an error count of zero and an
    acknowledgement that accepts"""
    from . import c15
    for o in c15.r2_false_implies_reported(ctx):
        yield o

class _ENode(object):
    """an error-tree loop node for the current-node bookkeeping: knows its level and its children"""
    _sa_model = True

    def __init__(self, level, parent=None):
        self.level = level
        self.id = level
        self.parent = parent
        self.children = []
        self.elements = []
        self.errors = []
        self.closed = []

    def close(self, node, seg, src):
        self.closed.append(seg)
        return None

    def get_cur_line(self):
        return 1

    def __hash__(self):
        return hash(('enode', id(self)))

    def __eq__(self, o):
        return self is o

    def __repr__(self):
        return '<%s node>' % self.level


def r18_current_node_follows_the_envelope(ctx):
    """an error reported for an envelope segment lands on the node the error handler calls current: after the header of
    an interchange / group / set was added, and after its trailer closed it, the current segment node is the node of
    that same interchange / group / set (an error found on the GE then belongs to the group - not to the set before
    it, which would be marked rejected and have the error itemised under it), the new node is the last child of its
    parent, and the pending-segment flag says it is already in the tree.  Decided by constant propagation through
    the six methods."""
    from ..absint import explore, helper_oracles
    hf = helper_oracles(ctx, 'error_handler')
    LEVELS = (('isa', None), ('gs', 'isa'), ('st', 'gs'))
    for lvl, parent_lvl in LEVELS:
        for kind in ('add', 'close'):
            qual = 'err_handler.%s_%s_loop' % (kind, lvl)
            fn = ctx.func('error_handler', qual)
            g = ctx.cfg(fn)
            nodes = {'isa': _ENode('ISA'), 'gs': _ENode('GS'), 'st': _ENode('ST')}
            made = []

            def ctor(level):
                def mk(parent, seg_data=None, src=None):
                    n = _ENode(level.upper(), parent)
                    made.append(n)
                    return n
                return mk
            funcs = dict(hf, err_isa=ctor('isa'), err_gs=ctor('gs'), err_st=ctor('st'))
            env = {'self.cur_isa_node': nodes['isa'], 'self.cur_gs_node': nodes['gs'], 'self.cur_st_node': nodes['st'],
                   'self.cur_seg_node': _ENode('SEG'), 'self.seg_node_added': False,
                   'seg_data': 'SEGDATA', 'seg': 'SEGDATA', 'src': 'SRC', 'node': 'MAPNODE', 'self': _ENode('ROOT')}
            root = env['self']
            if kind == 'add':
                env['self.cur_%s_node' % lvl] = None
                if lvl != 'st':
                    env['self.cur_st_node'] = None
                if lvl == 'isa':
                    env['self.cur_gs_node'] = None
            fin = []

            closes = []

            def on_node(nd, e, g=g):
                if nd is g.exit:
                    fin.append(dict(e))
                for x in g.walk_exprs(nd):
                    if isinstance(x, ast.Call) and isinstance(x.func, ast.Attribute) and x.func.attr == 'close':
                        try:
                            closes.append((A.ev(x.func.value, e, funcs), tuple(A.ev(a_, e, funcs) for a_ in x.args)))
                        except (A.NotClosed, TypeError, AttributeError, IndexError, KeyError, ValueError):
                            closes.append((norm(x.func.value), None))

            def unk(nd, e):
                raise AnalysisError('%s: a test cannot be decided: %s' % (qual, norm(nd.ast)))
            from ..absint import NotClosedTest
            try:
                explore(g, env, funcs=funcs, on_node=on_node, on_unknown=unk)
            except NotClosedTest as e_:
                raise AnalysisError('%s cannot be decided: %s' % (qual, e_))
            if not fin:
                raise AnalysisError('%s: no outcome' % qual)
            msg = ''
            for e in fin:
                own = e.get('self.cur_%s_node' % lvl)
                cur = e.get('self.cur_seg_node')
                if kind == 'add':
                    if not made or own is not made[-1]:
                        msg = 'the new %s node does not become the current %s node (it is %r)' % (lvl.upper(), lvl.upper(), own)
                    elif parent_lvl is not None and (not nodes[parent_lvl].children or nodes[parent_lvl].children[-1] is not own or own.parent is not nodes[parent_lvl]):
                        msg = 'the new %s node is not the last child of the current %s node' % (lvl.upper(), parent_lvl.upper())
                    elif parent_lvl is None and (not root.children or root.children[-1] is not own or own.parent is not root):
                        msg = 'the new ISA node is not the last child of the error tree root'
                else:
                    if own is not nodes[lvl]:
                        msg = 'closing replaces the current %s node' % lvl.upper()
                    elif len(closes) != 1 or closes[0][0] is not nodes[lvl] or closes[0][1] != ('MAPNODE', 'SEGDATA', 'SRC'):
                        msg = 'the %s node is not closed with the map node, the trailer and the reader (close calls: %s)' % (lvl.upper(), closes)
                if not msg and cur is not own:
                    msg = 'the current segment node afterwards is %r, not the %s node: an error on this %s is attached to the wrong node' % (
                        cur, lvl.upper(), 'header' if kind == 'add' else 'trailer')
                if not msg and e.get('self.seg_node_added') is not True:
                    msg = 'seg_node_added is %r afterwards: the envelope node would be appended again as a segment of the set' % (e.get('self.seg_node_added'),)
            yield Ob('error_handler:%s leaves the %s node as the current segment node' % (qual, lvl.upper()), not msg, ctx.floc(fn), msg)

def r19_open_envelope_ids(ctx):
    """the acknowledgement names every group and set with its own control number: the error-tree nodes take them from
    the reader's get_isa_id / get_gs_id / get_st_id (and the AK3 loop identifier from get_ls_id), which must answer the
    control number of the open loop of THAT kind - whatever else is open above or below it - and None when no such loop
    is open; get_seg_count / get_cur_line answer the two counters.  Decided by constant propagation over stacks of open
    loops."""
    from ..absint import run_function, helper_oracles, NotClosedTest
    hf = helper_oracles(ctx, 'x12file', all_methods_of='X12Base')
    STACKS = ((), (('ISA', 'i1'),), (('ISA', 'i1'), ('GS', 'g1')), (('ISA', 'i1'), ('GS', 'g1'), ('ST', 's1')),
              (('ISA', 'i1'), ('GS', 'g1'), ('ST', 's1'), ('LS', 'l1')), (('GS', 'g9'),), (('ST', 's9'), ('LS', 'l9')))
    for kind, nm in (('ISA', 'get_isa_id'), ('GS', 'get_gs_id'), ('ST', 'get_st_id'), ('LS', 'get_ls_id')):
        fn = ctx.func('x12file', 'X12Base.' + nm)
        bad = []
        for st in STACKS:
            try:
                got = run_function(ctx.cfg(fn), fn, [None], hf, env={'self.loops': st})
            except (NotClosedTest, A.NotClosed) as e:
                raise AnalysisError('X12Base.%s cannot be decided on the stack %s: %s' % (nm, [t for t, _ in st], e))
            want = next((i for t, i in st if t == kind), None)
            if got != want:
                bad.append('with %s open %s() answers %r, expected %r' % ([t for t, _ in st] or 'nothing', nm, got, want))
        yield Ob('x12file:X12Base.%s answers the control number of the open %s loop' % (nm, kind), not bad, ctx.floc(fn), '' if not bad else bad[0])
    for nm, attr in (('get_seg_count', 'self.seg_count'), ('get_cur_line', 'self.cur_line')):
        fn = ctx.func('x12file', 'X12Base.' + nm)
        try:
            got = run_function(ctx.cfg(fn), fn, [None], hf, env={'self.seg_count': 17, 'self.cur_line': 42, 'self.loops': ()})
        except (NotClosedTest, A.NotClosed) as e:
            raise AnalysisError('X12Base.%s cannot be decided: %s' % (nm, e))
        want = 17 if attr == 'self.seg_count' else 42
        yield Ob('x12file:X12Base.%s answers %s' % (nm, attr), got == want, ctx.floc(fn), '' if got == want else 'answers %r with seg_count 17, cur_line 42' % (got,))


def r20_element_error_joins_the_current_segment(ctx):
    """an element error is itemised (and shown) under the segment being validated: _add_cur_ele decided by constant
    propagation - when the pending element node is linked into the tree it goes into the elements of the CURRENT
    segment node, whatever node it was created under (the "too many elements" error is raised before any element of
    the segment was registered: the pending node still belongs to the previous segment), once, and the flag says so;
    an element node that is already linked is not linked again."""
    from ..absint import explore, helper_oracles
    fn = ctx.func('error_handler', 'err_handler._add_cur_ele')
    g = ctx.cfg(fn)
    msgs = []
    for added in (False, True):
        prev_seg, cur_seg = _ENode('PREVSEG'), _ENode('SEG')
        ele = _ENode('ELE', parent=prev_seg)
        env = {'self.cur_seg_node': cur_seg, 'self.cur_ele_node': ele, 'self.ele_node_added': added, 'self.seg_node_added': True,
               'self.cur_st_node': _ENode('ST'), 'self': _ENode('ROOT')}
        fin = []

        def on_node(nd, e, g=g):
            if nd is g.exit:
                fin.append(dict(e))

        def unk(nd, e):
            raise AnalysisError('err_handler._add_cur_ele: a test cannot be decided: %s' % norm(nd.ast))
        explore(g, env, funcs=dict(helper_oracles(ctx, 'error_handler'), **{'self._add_cur_seg': lambda: None}), on_node=on_node, on_unknown=unk)
        if not fin:
            raise AnalysisError('err_handler._add_cur_ele: no outcome')
        for e in fin:
            want = [] if added else [ele]
            if [x for x in cur_seg.elements] != want or prev_seg.elements:
                msgs.append('with the pending element node %s, the current segment node gets %s and the node it was created under gets %s; expected %s and nothing'
                            % ('already linked' if added else 'not linked yet', cur_seg.elements, prev_seg.elements, want))
            elif e.get('self.ele_node_added') is not True:
                msgs.append('ele_node_added is %r afterwards: the node would be linked again by the next error' % (e.get('self.ele_node_added'),))
    yield Ob('error_handler:err_handler._add_cur_ele links the pending element node into the current segment node, once', not msgs, ctx.floc(fn), msgs[0] if msgs else '')


RULES = [
    Rule('C05.R17', 'shared with C15.R2: a validator answers False only after a report', r17_false_means_reported, floor=5),
    Rule('C05.R1', 'verdict True only through valid and error-count-zero edges; other exits False', r1_verdict, floor=3),
    Rule('C05.R2', 'sibling "has errors" deciders consult every stored evidence field', r2_evidence, floor=6),
    Rule('C05.R3', 'reader error tags/arity = error-handler dispatch', r3_tags, floor=3),
    Rule('C05.R4', 'acknowledgement code tuples vs the 997/999 maps and the codes actually reported', r4_code_tables, floor=7),
    Rule('C05.R5', 'every error-tree node visited; both visitors implement every hook', r5_visitors, floor=9),
    Rule('C05.R6', 'AK9 totals wiring and 997/999 sibling agreement', r6_totals, floor=9),
    Rule('C05.R7', 'error sinks record or fail loudly; add_error arity agrees across current-node classes', r7_sinks_do_not_swallow, floor=6),
    Rule('C05.R8', 'shared with C04.R1: the received-set count the acknowledgement reports is the reader\'s, counted unconditionally', r8_shared_reader_counts, floor=37),
    Rule('C05.R9', 'reader errors are handed to the error tree before the loop they concern is closed', r9_reader_errors_before_close, floor=3),
    Rule('C05.R10', 'AK401/IK401 carry element, component and repetition position each in its own place', r10_element_position, floor=4),
    Rule('C05.R16', 'AK9 totals of both visitors decided by constant propagation (code, declared, received, accepted)', r16_group_totals, floor=2),
    Rule('C05.R15', 'accept code / failed-set count / error counts decided by constant propagation over all evidence combinations', r15_accept_iff_no_error, floor=3),
    Rule('C05.R14', 'get_error_count of every error-tree level is the sum over children, elements and own errors (constant propagation)', r14_error_totals, floor=3),
    Rule('C05.R13', 'visit_seg: an AK3/IK3 for every standard segment code and for every segment with element errors (constant propagation)', r13_segment_items, floor=2),
    Rule('C05.R12', 'ISA05-08 / GS02-03 of the acknowledgement are the received receiver and sender, swapped', r12_addressed_to_sender, floor=9),
    Rule('C05.R18', 'after add_/close_ of an interchange, group or set the current segment node is that envelope node (constant propagation)', r18_current_node_follows_the_envelope, floor=6),
    Rule('C05.R19', 'get_isa_id / get_gs_id / get_st_id / get_ls_id answer the open loop of their kind; position getters answer their counter (constant propagation)', r19_open_envelope_ids, floor=6),
    Rule('C05.R20', '_add_cur_ele links the pending element node into the current segment node, once (constant propagation)', r20_element_error_joins_the_current_segment, floor=1),
    Rule('C05.R11', 'errors on SE/GE themselves are reflected in the set/group code (validated before close, or code evaluated when read)', r11_trailer_errors_count, floor=2),
]
