"""C09 Context reader partitions the document without loss, duplication or reordering."""
import ast

from ..core import require_idiom, Ob, Rule, AnalysisError, norm, KeyMaker
from ..cfg import path_of
from .. import astutil as A
from .. import guards

META = {
    'explanation': (
        'R1 flush at end: in X12ContextReader.iter_segments, from every definition `cur_tree = X12LoopDataNode(...)` '
        'every feasible path to the end of the generator passes `yield cur_tree` (paths that contradict "cur_tree is '
        'not None" are pruned) - otherwise the last tree of the requested loop (ISA_LOOP, or any loop that ends the '
        'file) is never handed out. R2 one disposition per segment: on every path through one iteration of the source '
        'loop (paths ending in a raise excluded) the segment is placed in the tree by _add_segment or yielded as a '
        'plain segment node, exactly once in total (min = max = 1 over all paths). R3 position fields: every '
        'definition of cur_data_node in iter_segments is followed, before the iteration ends, by assignments of '
        'seg_count and cur_line_number from the reader getters of the same name. R4 every self.method() called in '
        'x12context resolves in its class chain (an unresolved call kills the iteration for a whole document type), '
        'and _add_segment attaches the new node to the loop node it computed (parent set and appended to the same '
        'node), replaying popped loops before pushed ones.'),
    'not_decided': 'tree shape, "precisely the segments of that instance", order of yielded nodes',
    'trusted_base': ['sa/cfg.py; generator exit = normal exit of the function'],
    'technique': 'static analysis: must-pass-through with contradiction pruning, min/max event counting over the acyclic paths of the loop body, method resolution',
}


META['explanation'] += ' Rounds 4-5: ' + 'R8 (= C10.R3) the tombstone sweep keeps the live children in source order.'


def _iter(ctx):
    fn = ctx.func('x12context', 'X12ContextReader.iter_segments')
    g = ctx.cfg(fn)
    heads = [n for n in g.nodes if n.kind == 'for' and isinstance(n.stmt, ast.For) and norm(n.stmt.iter) == 'self.src']
    if len(heads) != 1:
        raise AnalysisError('iter_segments: loop over self.src not found')
    return fn, g, heads[0]


def _contradicts_notnone(n, label, var):
    """edge (n,label) cannot be taken while `var` is not None"""
    if n.kind != 'test':
        return False
    e = n.ast
    if path_of(e) == var:
        return label == 'F'
    if isinstance(e, ast.Compare) and len(e.ops) == 1 and path_of(e.left) == var and A.const(e.comparators[0]) is None \
            and isinstance(e.comparators[0], ast.Constant):
        if isinstance(e.ops[0], (ast.IsNot, ast.NotEq)):
            return label == 'F'
        if isinstance(e.ops[0], (ast.Is, ast.Eq)):
            return label == 'T'
    return False


def r1_flush(ctx):
    fn, g, head = _iter(ctx)
    defs = [n for n in g.nodes if n.kind == 'stmt' and isinstance(n.ast, ast.Assign) and path_of(n.ast.targets[0]) == 'cur_tree'
            and isinstance(n.ast.value, ast.Call)]
    if not defs:
        raise AnalysisError('iter_segments: no tree construction found')

    def is_yield_tree(n):
        return any(isinstance(x, ast.Yield) and path_of(x.value) == 'cur_tree' for x in g.walk_exprs(n))

    def redef(n):
        return n.kind == 'stmt' and isinstance(n.ast, ast.Assign) and any(path_of(t) == 'cur_tree' for t in n.ast.targets)
    for d in defs:
        path = g.find_path(d, lambda n: n is g.exit, blocked=lambda n: is_yield_tree(n) or redef(n),
                           edge_ok=lambda a, l, b: not _contradicts_notnone(a, l, 'cur_tree'))
        yield Ob('x12context:X12ContextReader.iter_segments tree built by `%s` is yielded before the generator ends' % norm(d.ast, 50), path is None,
                 ctx.floc(fn, d.ast),
                 '' if path is None else 'when the source is exhausted the tree under construction is dropped: the last instance of the '
                 'requested loop (or the only one, for ISA_LOOP) is never yielded',
                 detail={'path': [repr(p) for p in (path or [])][-6:]})
    # a yielded tree is not yielded twice: after `yield cur_tree` the variable is rebound before the next yield of it
    ys = [n for n in g.nodes if is_yield_tree(n)]
    for y in ys:
        p = g.find_path(y, is_yield_tree, blocked=redef)
        yield Ob('x12context:X12ContextReader.iter_segments a yielded tree is not yielded again [L%s]' % '', p is None, ctx.floc(fn, y.ast),
                 '' if p is None else 'the same tree object can be yielded twice (no rebinding of cur_tree in between)')


def _events(g, n):
    k = 0
    for x in g.walk_exprs(n):
        if isinstance(x, ast.Call) and A.call_target(x) == ('self', '_add_segment'):
            k += 1
        if isinstance(x, ast.Yield) and path_of(x.value) == 'cur_data_node':
            k += 1
    return k


def r2_one_disposition(ctx):
    fn, g, head = _iter(ctx)
    start = [s for s, l in head.succ if l == 'next']
    if len(start) != 1:
        raise AnalysisError('iter_segments: loop body entry not found')
    # DP over the acyclic body: min/max number of events on paths from start back to head
    memo = {}
    onstack = set()

    def walk(n):
        if n is head:
            return (0, 0)
        if n is g.exit or n is g.rexit or n.kind == 'raise':
            return None       # not a completed iteration
        if n.id in memo:
            return memo[n.id]
        if n.id in onstack:
            raise AnalysisError('iter_segments: inner loop in the body, event counting not applicable')
        onstack.add(n.id)
        best = None
        for s, l in n.succ:
            if l == 'exc':
                continue
            r = walk(s)
            if r is None:
                continue
            best = r if best is None else (min(best[0], r[0]), max(best[1], r[1]))
        onstack.discard(n.id)
        if best is not None:
            e = _events(g, n)
            best = (best[0] + e, best[1] + e)
        memo[n.id] = best
        return best
    r = walk(start[0])
    if r is None:
        raise AnalysisError('iter_segments: no path completes an iteration')
    ok = r == (1, 1)
    yield Ob('x12context:X12ContextReader.iter_segments each segment is placed or yielded exactly once per iteration', ok, ctx.floc(fn, head.stmt),
             '' if ok else 'over the paths of one iteration the segment is disposed of between %d and %d times: %s' %
             (r[0], r[1], 'a segment can be lost' if r[0] == 0 else 'a segment can be delivered twice'))
    # the plain-segment branch wraps the current segment
    news = [c for c in A.calls_in(fn) if A.call_target(c)[1] == 'X12SegmentDataNode']
    ok = bool(news) and all(len(c.args) >= 2 and norm(c.args[0]) == 'self.x12_map_node' and path_of(c.args[1]) == 'seg' for c in news)
    yield Ob('x12context:X12ContextReader.iter_segments plain nodes wrap the current segment and its map node', ok, ctx.floc(fn),
             '' if ok else 'constructor arguments %s' % [norm(c) for c in news])
    adds = [c for c in A.calls_in(fn) if A.call_target(c) == ('self', '_add_segment')]
    ok = bool(adds) and all(len(c.args) == 5 and norm(c.args[1]) == 'self.x12_map_node' and path_of(c.args[2]) == 'seg'
                            and path_of(c.args[3]) == 'pop_loops' and path_of(c.args[4]) == 'push_loops' for c in adds)
    yield Ob('x12context:X12ContextReader.iter_segments _add_segment receives the current segment, its node and the walker\'s loop lists', ok, ctx.floc(fn),
             '' if ok else 'arguments %s' % [norm(c) for c in adds])
    # walker result unpacked in the walker's order
    # (the call may be the last alternative of a conditional expression that answers fixed triples for ISA and GS)
    def _is_walk_value(v):
        if isinstance(v, ast.IfExp):
            return _is_walk_value(v.orelse) or _is_walk_value(v.body)
        return isinstance(v, ast.Call) and A.call_target(v)[1] == 'walk'
    walks = [s for s in ast.walk(fn) if isinstance(s, ast.Assign) and _is_walk_value(s.value)]
    ok = False
    if len(walks) == 1 and isinstance(walks[0].targets[0], ast.Tuple) and len(walks[0].targets[0].elts) == 3:
        t0, t1, t2 = [path_of(t) for t in walks[0].targets[0].elts]
        # the second and third results are the popped and pushed loops: they are what _add_segment receives in its
        # pop/push parameters (whatever the locals are called)
        addf = ctx.func('x12context', 'X12ContextReader._add_segment')
        pnames = [a.arg for a in addf.args.args]
        ok = t0 in ('seg_node', 'self.x12_map_node', 'found_node', 'node') and bool(adds) and all(path_of(c.args[3]) == t1 and path_of(c.args[4]) == t2 for c in adds) \
            and len(pnames) >= 6 and 'pop' in pnames[4] and 'push' in pnames[5]
    yield Ob('x12context:X12ContextReader.iter_segments unpacks (node, popped, pushed) from walk()', ok, ctx.floc(fn), '' if ok else 'unpacking changed')


def r3_position_fields(ctx):
    fn, g, head = _iter(ctx)
    pd = g.postdominators()
    defs = [n for n in g.nodes if n.kind == 'stmt' and isinstance(n.ast, ast.Assign) and path_of(n.ast.targets[0]) == 'cur_data_node'
            and isinstance(n.ast.value, ast.Call)]
    if len(defs) < 2:
        raise AnalysisError('iter_segments: %d definitions of cur_data_node found, expected at least 2' % len(defs))
    want = {'cur_data_node.seg_count': 'self.src.get_seg_count()', 'cur_data_node.cur_line_number': 'self.src.get_cur_line()'}
    km = KeyMaker()
    for d in defs:
        for attr, getter in want.items():
            # the next assignment of attr reachable from d without passing another def of cur_data_node
            found = None
            seen = {d.id}
            st = [d]
            while st and found is None:
                n = st.pop()
                for s, l in n.succ:
                    if l == 'exc' or s.id in seen or s is head:
                        continue
                    seen.add(s.id)
                    if s.kind == 'stmt' and isinstance(s.ast, ast.Assign) and path_of(s.ast.targets[0]) == attr:
                        found = s
                        break
                    if s in defs:
                        continue
                    st.append(s)
            ok = found is not None and norm(found.ast.value) == getter and found.id in pd[d.id]
            yield Ob(km('x12context:X12ContextReader.iter_segments node from `%s` gets %s' % (norm(d.ast.value, 40), attr.split('.')[1])), ok, ctx.floc(fn, d.ast),
                     '' if ok else ('%s is assigned %s' % (attr, norm(found.ast.value)) if found is not None else '%s is never assigned for this node' % attr))
    # the segment node reports them
    f = ctx.func('x12context', 'X12SegmentDataNode.iterate_segments')
    txt = ast.unparse(f)
    ok = "'seg_count': self.seg_count" in txt and "'cur_line_number': self.cur_line_number" in txt and "'segment': self.seg_data" in txt
    require_idiom(ok, 'c09.py:180')
    yield Ob('x12context:X12SegmentDataNode.iterate_segments exposes the segment with its position fields', ok, ctx.floc(f), '' if ok else 'dict keys changed')


def unresolved_self_calls(ctx, modname):
    """(class, function, call) for self.m(...) where m is defined neither in the class chain nor assigned as attribute"""
    m = ctx.mod(modname)
    for cls in [n for n in m.tree.body if isinstance(n, ast.ClassDef)]:
        chain = guards.class_chain(ctx, modname, cls.name)
        external_base = any(path_of(b) and path_of(b).split('.')[-1] not in {c.name for c in m.tree.body if isinstance(c, ast.ClassDef)} | {'object'}
                            for c in chain for b in c.bases)
        names = set()
        for c in chain:
            for x in c.body:
                if isinstance(x, ast.FunctionDef):
                    names.add(x.name)
                elif isinstance(x, ast.Assign):
                    for t in x.targets:
                        if isinstance(t, ast.Name):
                            names.add(t.id)
            for x in ast.walk(c):
                if isinstance(x, ast.Assign):
                    for t in x.targets:
                        p = path_of(t)
                        if p and p.startswith('self.') and p.count('.') == 1:
                            names.add(p[5:])
        for f in cls.body:
            if isinstance(f, ast.FunctionDef):
                for c in A.calls_in(f):
                    r, meth = A.call_target(c)
                    if r == 'self':
                        yield cls.name, f, c, (meth in names or external_base or meth.startswith('__'))


def r4_resolution_and_attachment(ctx):
    km = KeyMaker()
    n = 0
    for cname, f, c, ok in unresolved_self_calls(ctx, 'x12context'):
        n += 1
        yield Ob(km('x12context:%s.%s calls self.%s' % (cname, f.name, A.call_target(c)[1])), ok, ctx.loc('x12context', c),
                 '' if ok else 'self.%s is not defined in the class (AttributeError as soon as this line runs: the 4010 278 BHT branch kills the iteration)' % A.call_target(c)[1])
    if n < 20:
        raise AnalysisError('x12context: only %d self-calls found' % n)
    f = ctx.func('x12context', 'X12ContextReader._add_segment')
    txt = ast.unparse(f)
    import re as _re0
    # (whatever the two locals are called: <new>.parent = <loop>  and  <loop>.children.append(<new>) with the same pair,
    # <new> being the node built from the segment)
    newv = {path_of(st.targets[0]) for st in ast.walk(f) if isinstance(st, ast.Assign) and isinstance(st.value, ast.Call)
            and A.call_target(st.value)[1] == 'X12SegmentDataNode' and len(st.targets) == 1}
    pairs_a = {(m_.group(1), m_.group(2)) for m_ in _re0.finditer(r'\b(\w+)\.parent = (\w+)\b', txt)}
    pairs_b = {(m_.group(2), m_.group(1)) for m_ in _re0.finditer(r'\b(\w+)\.children\.append\((\w+)\)', txt)}
    ok = any(a_ in pairs_b and a_[0] in newv for a_ in pairs_a)
    require_idiom(ok, 'c09.py:225')
    yield Ob('x12context:X12ContextReader._add_segment attaches the node to the loop it computed', ok, ctx.floc(f), '' if ok else 'attachment changed')
    loops = [s for s in ast.walk(f) if isinstance(s, ast.For)]
    po_ = A.preorder(f)
    order = [norm(s.iter) for s in sorted(loops, key=lambda s: po_[id(s)])]
    ok = order == ['pop_loops', 'push_loops']
    yield Ob('x12context:X12ContextReader._add_segment replays popped loops before pushed loops', ok, ctx.floc(f), '' if ok else 'order %s' % order)
    import re as _re
    ok = bool(_re.search(r'\b(\w+) = \1\.parent\b', txt)) and bool(_re.search(r'\b(\w+) = \1\._add_loop_node\(x12_loop\)', txt))
    require_idiom(ok, 'c09.py:231')
    yield Ob('x12context:X12ContextReader._add_segment pops to the parent and pushes a child loop node', ok, ctx.floc(f), '' if ok else 'replay statements changed')
    news = [c for c in A.calls_in(f) if A.call_target(c)[1] == 'X12SegmentDataNode']
    ok = len(news) == 1 and path_of(news[0].args[1]) == 'seg_data'
    yield Ob('x12context:X12ContextReader._add_segment wraps the segment it was given', ok, ctx.floc(f), '' if ok else 'constructor %s' % [norm(c) for c in news])


def r5_shared_insertion(ctx):
    """the reader places child loops with X12DataNode._get_insert_idx (through _add_loop_node): C10.R5 (shared)"""
    from . import c10
    for o in c10.r5_insertion(ctx):
        yield o
    f = ctx.func('x12context', 'X12ContextReader._add_segment')
    ok = sum(1 for c in A.calls_in(f) if A.call_target(c)[1] == '_add_loop_node') == 2
    yield Ob('x12context:X12ContextReader._add_segment opens child loops through _add_loop_node', ok, ctx.floc(f), '' if ok else 'loop creation changed')

def _identity_compares(tree):
    out = []
    for n in ast.walk(tree):
        if isinstance(n, ast.Compare):
            left = n.left
            for op, r in zip(n.ops, n.comparators):
                if isinstance(op, (ast.Is, ast.IsNot)):
                    if not any(isinstance(x, ast.Constant) and (x.value is None or isinstance(x.value, bool)) for x in (left, r)):
                        out.append(n)
                left = r
    return out


def r6_no_identity_of_map_nodes(ctx):
    """the context reader swaps the map object in the middle of a transaction set (278: BHT02 selects another map):
    nodes of the old and the new map with the same path are the same position.  Map and data nodes are therefore
    compared by id / path, never by object identity - an `is` test between them fails after the switch and aborts
    the iteration.  (Expected count on the reference tree: zero; the matcher is exercised on a built-in example.)"""
    probe = ast.parse('if cur.x12_map_node is not x12_loop:\n    raise E()\nif a is None or b is not True:\n    pass')
    if len(_identity_compares(probe)) != 1:
        raise AnalysisError('identity-comparison matcher does not recognise its own example')
    m = ctx.mod('x12context')
    hits = _identity_compares(m.tree)
    for n in hits:
        fn = A.enclosing_function(n)
        yield Ob('x12context:%s compares objects by identity: %s' % (fn.name if fn else '?', norm(n)), False, ctx.loc(m, n),
                 'after the map is re-loaded at a BHT the same position is a different object: this test then fails for a conformant document')
    yield Ob('x12context: nodes are compared by id/path, not by identity', not hits, m.relpath, '' if not hits else '%d identity comparison(s)' % len(hits),
             note='matcher checked on a built-in example')
    # the consistency test of the loop pops is on ids
    fn = ctx.func('x12context', 'X12ContextReader._add_segment')
    raises = [r for r in ast.walk(fn) if isinstance(r, ast.Raise)]
    for r in raises:
        ifn = A.enclosing(r, (ast.If,))
        if ifn is None or 'Loop pop' not in ast.unparse(r):
            continue
        t = ifn.test
        ok = isinstance(t, ast.Compare) and len(t.ops) == 1 and isinstance(t.ops[0], ast.NotEq) \
            and norm(t.left).endswith('.id') and norm(t.comparators[0]).endswith('.id')
        yield Ob('x12context:X12ContextReader._add_segment loop-pop consistency test compares loop ids', ok, ctx.floc(fn, ifn),
                 '' if ok else 'the test is `%s`: anything stricter than equal ids rejects the same loop of a re-loaded map' % norm(t))


def r7_reanchor_at_gs(ctx):
    """every functional group restarts the walk at the GS node of the TRANSACTION map - whether or not the map file
    had to be (re)loaded for it.  Decided by constant propagation through one iteration of the segment loop of both
    drivers with the segment id fixed to GS (tests on the map file are followed both ways): on every way to the end of
    the iteration the current node is the one `<transaction map>.getnodebypath('/ISA_LOOP/GS_LOOP/GS')` returned - a
    second group of the same type would otherwise be walked from the control map, which has no transaction sets."""
    from ..absint import explore
    from ..cfg import CFG
    for mod, qual, target, it in (('x12context', 'X12ContextReader.iter_segments', 'self.x12_map_node', 'self.src'), ('x12n_document', 'x12n_document', 'node', 'src')):
        fn = ctx.func(mod, qual)
        if target == 'node':
            target = A.current_node_var(fn) or 'node'
        loops = [n for n in ast.walk(fn) if isinstance(n, ast.For) and path_of(n.iter) == it and isinstance(n.target, ast.Name)]
        if len(loops) != 1:
            raise AnalysisError('%s:%s: the segment loop was not found' % (mod, qual))
        lp = loops[0]
        synth = ast.parse('def _one_iteration():\n    for _once in (0,):\n        pass').body[0]
        synth.body[0].body = list(lp.body)
        ast.fix_missing_locations(synth)
        g = CFG(synth)
        seg = A.Model('GS segment', get_seg_id=lambda: 'GS', get_value=lambda rd: 'value of ' + rd)
        funcs = {}
        for c in A.calls_in(lp):
            r, m = A.call_target(c)
            if m == 'getnodebypath' and r:
                last = r.split('.')[-1].split('__')[-1]
                kind = 'TXN' if last == 'cur_map' else ('CTL' if last == 'control_map' else None)
                if kind:
                    funcs[r + '.' + m] = (lambda p_, kind=kind: '%s:%s' % (kind, p_))
        if not any(k.split('.')[-2].split('__')[-1] == 'cur_map' for k in funcs):
            raise AnalysisError('%s:%s: no lookup in the transaction map (cur_map.getnodebypath) in the segment loop' % (mod, qual))
        finals = []

        def on_node(nd, env, g=g):
            if nd is g.exit:
                finals.append(env.get(target, 'undetermined'))
        try:
            explore(g, {lp.target.id: seg, target: 'OLD'}, funcs=funcs, on_node=on_node, unknown='both')
        except RuntimeError as e:
            raise AnalysisError('%s:%s: %s' % (mod, qual, e))
        if not finals:
            raise AnalysisError('%s:%s: the end of the iteration is not reached for a GS segment' % (mod, qual))
        bad = sorted({str(f) for f in finals if f != 'TXN:/ISA_LOOP/GS_LOOP/GS'})
        yield Ob("%s:%s GS branch re-binds the current node to the transaction map's GS on every path" % (mod, qual), not bad, ctx.floc(fn, lp),
                 '' if not bad else 'after a GS segment %s can be %s: the segments of this group are then not found in any transaction set' % (target, ', '.join(bad)))


def r8_shared_children_order(ctx):
    """the children of a loop are kept in the order the source gave them: the tombstone sweep that runs whenever a child
    loop is added (_cleanup via _get_insert_idx) keeps the live nodes in place, and iterations skip deleted nodes
    (C10.R3, shared)"""
    from . import c10
    for o in c10.r3_tombstones(ctx):
        yield o


def r9_shared_tokenizer(ctx):
    """the context reader sees every segment of the source: the tokenizer underneath ends only when the stream is exhausted and loses nothing at a buffer boundary (C01.R3 / R5, shared)"""
    from . import c01
    for fn in (c01.r3_tokenizer_exits, c01.r5_strip_set, c01.r11_reader_iteration):
        for o in fn(ctx):
            yield o


def r10_shared_position_counter(ctx):
    """the position a segment is stamped with is the reader's running count within the set: every body segment counts
    exactly once, ST restarts it (C04.R7, shared)"""
    from . import c04
    for o in c04.r7_header_semantics(ctx):
        yield o


def r11_shared_matching(ctx):
    """a segment is placed under the map node it matches: the matcher decided in C02.R14 (shared) - a node that stops
    matching its own segments leaves them on the previous node and the trees are cut in the wrong places"""
    from . import c02
    for o in c02.r14_is_match_semantics(ctx):
        yield o


def r12_shared_wrapper_loops(ctx):
    """the tree a segment is placed in is the one the walker matched: a loop that only wraps other loops is entered when
    any of its child loops begins with the segment - with a later child overlooked the segment is located elsewhere (or
    not at all) and the yielded trees no longer follow the map.  C02.R10 (shared)."""
    from . import c02
    for o in c02.r10_wrapper_loops(ctx):
        yield o

def r13_shared_position_getters(ctx):
    """each yielded segment carries its position in the set and its source line: the values come from the reader's
    get_seg_count / get_cur_line (and the LS identifier from get_ls_id), which must answer their counter / the open
    loop of their kind.  C05.R19 (shared)."""
    from . import c05
    for o in c05.r19_open_envelope_ids(ctx):
        yield o


class _ItChild(object):
    _sa_model = True

    def __init__(self, name, typ, pos, below):
        self.name = name
        self.type = typ
        self.below = tuple(below)
        self.x12_map_node = A.Model('mapnode', pos=pos, id=name)
        self.id = name

    def iterate_segments(self):
        return self.below

    def __hash__(self):
        return hash(('itchild', self.name))


def r14_flattening_keeps_source_order(ctx):
    """the segments of a yielded tree, concatenated, are the source segments in source order: X12LoopDataNode.
    iterate_segments decided by constant propagation on a node whose live children do NOT rise in map position (an
    interchange tree: GS, sets, GE, GS, sets, GE) and include a deleted one - it yields what each live child yields, child
    after child in the order the children are held, nothing for the deleted one."""
    from ..absint import run_generator, helper_oracles, NotClosedTest
    fn = ctx.func('x12context', 'X12LoopDataNode.iterate_segments')
    kids = (_ItChild('ISA', 'seg', 10, ('isa',)), _ItChild('GS1', 'seg', 20, ('gs1',)), _ItChild('ST1', 'loop', 30, ('st1', 'bht1', 'se1')),
            _ItChild('GE1', 'seg', 40, ('ge1',)), _ItChild('gone', None, 20, ('gone',)), _ItChild('GS2', 'seg', 20, ('gs2',)),
            _ItChild('ST2', 'loop', 30, ('st2', 'se2')), _ItChild('GE2', 'seg', 40, ('ge2',)), _ItChild('IEA', 'seg', 50, ('iea',)))
    try:
        got = run_generator(ctx.cfg(fn), fn, [None], helper_oracles(ctx, 'x12context', all_methods_of='X12LoopDataNode'), env={'self.children': kids, 'self.type': 'loop'})
    except (NotClosedTest, A.NotClosed) as e:
        raise AnalysisError('X12LoopDataNode.iterate_segments cannot be decided: %s' % e)
    want = tuple(x for k in kids if k.type is not None for x in k.below)
    ok = tuple(got) == want
    yield Ob('x12context:X12LoopDataNode.iterate_segments yields the children\'s segments in the order the children are held', ok, ctx.floc(fn),
             '' if ok else 'children at map positions %s yield %s, expected %s' % ([k.x12_map_node.pos for k in kids if k.type is not None], list(got), list(want)))


RULES = [
    Rule('C09.R11', 'shared with C02.R14: segment_if.is_match decided by constant propagation', r11_shared_matching, floor=1),
    Rule('C09.R1', 'the tree under construction is yielded on every path to the end of the generator', r1_flush, floor=1),
    Rule('C09.R2', 'each source segment is placed in the tree or yielded exactly once per iteration', r2_one_disposition, floor=3),
    Rule('C09.R3', 'every node created in iter_segments gets seg_count and cur_line_number from the right getters', r3_position_fields, floor=6),
    Rule('C09.R4', 'every self.method() in x12context resolves; _add_segment attaches to the computed loop, pops before pushes', r4_resolution_and_attachment, floor=18),
    Rule('C09.R5', 'shared with C10.R5: child loops are placed by map position after existing siblings', r5_shared_insertion, floor=6),
    Rule('C09.R6', 'nodes are compared by id/path, never by identity (the map object is replaced at a 278 BHT)', r6_no_identity_of_map_nodes, floor=1),
    Rule('C09.R10', 'shared with C04.R7: the position counter counts every body segment once and restarts at ST (constant propagation)', r10_shared_position_counter, floor=1),
    Rule('C09.R9', 'shared with C01.R3/R5: the tokenizer ends only at end of input, nothing lost at a buffer boundary', r9_shared_tokenizer, floor=6),
    Rule('C09.R8', 'shared with C10.R3: the tombstone sweep keeps the live children in source order', r8_shared_children_order, floor=10),
    Rule('C09.R12', 'shared with C02.R10: a wrapper loop matches iff any of its child loops does (constant propagation)', r12_shared_wrapper_loops, floor=1),
    Rule('C09.R13', 'shared with C05.R19: the reader getters behind seg_count / cur_line_number / ls_id answer their own counter', r13_shared_position_getters, floor=6),
    Rule('C09.R14', 'iterate_segments of a tree yields the segments child after child in held (source) order (constant propagation)', r14_flattening_keeps_source_order, floor=1),
    Rule('C09.R7', 'both drivers restart every functional group at the GS node of the transaction map (constant propagation through one iteration)', r7_reanchor_at_gs, floor=2),
]
