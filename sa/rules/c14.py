"""C14 Syntax notes (P, R, E, C, L) are evaluated exactly as X12 defines them."""
import ast
import itertools

from ..core import require_idiom, Ob, Rule, AnalysisError, norm
from ..cfg import path_of
from .. import astutil as A
from . import datarules as D

META = {
    'explanation': (
        'R1 every <syntax> note of every indexed map parses the way _split_syntax parses it (letter in PRECL, an even number >= 4 of digits, distinct positions >= 1; F-DATA, 1818 notes; range vs. element count is C16.R4). '
        'R2 the letter list of segment_if._split_syntax = the branch labels of is_syntax_valid = {P,R,E,C,L}, the '
        'fall-through rejects, and the position slices tile the digit string (letters and slices decided by constant '
        'propagation through _split_syntax). R3 is_syntax_valid is decided as a whole by constant propagation through '
        'its CFG: per letter, for notes of 2-4 positions (adjacent and spaced), segments of 0-6 elements and every '
        'pattern of empty / non-empty values (762 runs per letter) the verdict equals the X12 definition; the shape of '
        'the code (counting loops, comprehensions, helpers) does not matter. '
        'R4 in segment_if.is_valid a failed note reaches ele_error with code 10 iff the letter is E, else 2, and '
        'clears the result.'),
    'not_decided': 'notes of more than four positions and segments of more than six elements (the code is uniform in both); '
                   'error text is not checked',
    'trusted_base': ['constant propagation sa/absint.explore', 'finite evaluator sa/astutil.ev',
                     'model of Segment.get_value: None beyond the last element, else the stored string'],
    'technique': 'static analysis: conditional constant propagation over the CFG on finite input domains; data sweep over map XML',
}

SPEC_VIOLATED = {
    'P': lambda c, n: 0 < c < n,
    'R': lambda c, n: c == 0,
    'E': lambda c, n: c > 1,
    'C': lambda c, n: c < n - 1,     # over the rest (n-1 positions), given the first is present
    'L': lambda c, n: c == 0,        # over the rest, given the first is present
}
REST = {'C', 'L'}


def r1_data(ctx):
    # range (note vs. number of elements) is a C16 matter: evaluation stays correct for out-of-range notes
    return D.syntax_note_obs(ctx, ctx.maps.indexed_files(), check_range=False)


def _branches(ctx):
    fn = ctx.func('syntax', 'is_syntax_valid')
    arms = list(A.branch_chain(fn.body, A.name_or_call_pred('syn_code', 'syn[0]')))
    if not arms:
        # syn[0] compared directly
        def pred(e):
            return isinstance(e, ast.Subscript) and path_of(e.value) == 'syn' and A.const(e.slice) == 0
        arms = list(A.branch_chain(fn.body, pred))
    if not arms:
        raise AnalysisError('syntax:is_syntax_valid: no dispatch on the note letter found')
    return fn, arms


def r2_letters(ctx):
    fn, arms = _branches(ctx)
    labels = [a[0] for a in arms if a[0] not in (None, '?')]
    sp = ctx.func('map_if', 'segment_if._split_syntax')
    want = set('PRECL')
    # which note letters does _split_syntax let through?  Decided by running the function (constant propagation over its
    # CFG) on one note per letter; a module-level compiled regex it consults is applied as the constant function it is.
    import re as _re
    rx_funcs = {}
    for n in ctx.mod('map_if').tree.body:
        if isinstance(n, ast.Assign) and len(n.targets) == 1 and isinstance(n.targets[0], ast.Name) and isinstance(n.value, ast.Call) \
                and path_of(n.value.func) == 're.compile' and n.value.args and A.is_str(n.value.args[0]) and len(n.value.args) == 1:
            rx = _re.compile(n.value.args[0].value)
            for meth in ('match', 'search', 'fullmatch'):
                rx_funcs['%s.%s' % (n.targets[0].id, meth)] = (lambda t, _m=getattr(rx, meth): (_m(t) is not None) if isinstance(t, str) else None)
    accepted = set()
    for letter in 'ABCDEFGHIJKLMNOPQRSTUVWXYZ':
        if _split(ctx, sp, letter + '0102', rx_funcs) is not None:
            accepted.add(letter)
    yield Ob('map_if:segment_if._split_syntax letters', accepted == want, ctx.floc(sp),
             '' if accepted == want else 'accepts letters %s, X12 defines %s' % (sorted(accepted), sorted(want)))
    okdrop = not (accepted - want)
    yield Ob('map_if:segment_if._split_syntax drops unknown letters', okdrop, ctx.floc(sp),
             '' if okdrop else 'a note with the unknown letter %s is not dropped' % sorted(accepted - want)[0])
    yield Ob('syntax:is_syntax_valid branch labels', set(labels) == want and len(labels) == len(set(labels)),
             ctx.floc(fn), '' if set(labels) == want and len(labels) == len(set(labels))
             else 'branches for %s, X12 defines %s' % (labels, sorted(want)))
    # fall-through rejects
    last = fn.body[-1]
    ok = isinstance(last, ast.Return) and isinstance(last.value, ast.Tuple) and A.const(last.value.elts[0]) is False
    else_arms = [a for a in arms if a[0] is None]
    if else_arms:
        ok = all(_returns(a[1]) is False for a in else_arms)
    yield Ob('syntax:is_syntax_valid fall-through rejects', ok, ctx.floc(fn, last),
             '' if ok else 'an unknown note letter is not rejected')
    # what _split_syntax returns for notes of 2..6 positions, by constant propagation through the function (loop or
    # comprehension): the letter followed by every two-digit position in order
    def split(text):
        return _split(ctx, sp, text, rx_funcs)
    bad_t, bad_n = [], []
    for npos in range(2, 7):
        poss = [3 * k + 1 for k in range(npos)]
        text = 'P' + ''.join('%02d' % p_ for p_ in poss)
        got = split(text)
        want = ('P',) + tuple(poss)
        if got is None or tuple(got) != want:
            if got is not None and len(got) != len(want):
                bad_n.append((npos, len(got) - 1))
            else:
                bad_t.append((text, got))
    yield Ob('map_if:segment_if._split_syntax position slices tile the note', not bad_t, ctx.floc(sp),
             '' if not bad_t else 'note %r is split into %s' % bad_t[0])
    yield Ob('map_if:segment_if._split_syntax reads every position', not bad_n, ctx.floc(sp),
             '' if not bad_n else 'a note with %d positions yields %d' % bad_n[0])


def _split(ctx, sp, text, funcs):
    """the value _split_syntax returns for the note `text`, by constant propagation through its CFG"""
    from ..absint import explore
    g = ctx.cfg(sp)
    outs = []

    def on_node(nd, env):
        if nd.kind == 'return':
            if nd.ast.value is None:
                outs.append(None)
            else:
                try:
                    outs.append(A.ev(nd.ast.value, env, funcs))
                except A.NotClosed as e:
                    raise AnalysisError('_split_syntax: returned value not closed: %s' % e)

    def unk(nd, env):
        raise AnalysisError('_split_syntax: test not closed: %s' % norm(nd.ast))
    explore(g, {'syntax': text}, funcs=funcs, on_node=on_node, on_unknown=unk)
    if len(outs) != 1:
        raise AnalysisError('_split_syntax: %d results for %r' % (len(outs), text))
    return outs[0]


def _returns(stmts):
    """True/False if the statement list ends by returning a tuple starting with that constant, else None"""
    for s in stmts:
        if isinstance(s, ast.Return) and isinstance(s.value, ast.Tuple) and s.value.elts \
                and isinstance(A.const(s.value.elts[0]), bool):
            return A.const(s.value.elts[0])
    return None


def _get_value(seg, refdes):
    if not (isinstance(refdes, str) and len(refdes) == 2 and refdes.isdigit()):
        raise A.NotClosed('designator %r is not two digits' % (refdes,))
    i = int(refdes)
    if i < 1:
        raise A.NotClosed('designator 00')
    if i > len(seg.vals):
        return None
    return seg.vals[i - 1]


class _Seg(object):
    """what is_syntax_valid can observe of a segment: len(), get_value('NN') and the segment id"""
    _sa_model = True

    def __init__(self, vals):
        self.vals = tuple(vals)

    def __len__(self):
        return len(self.vals)

    def get_value(self, refdes):
        return _get_value(self, refdes)

    def get_seg_id(self):
        return 'XX'

    def __hash__(self):
        return hash(self.vals)

    def __eq__(self, o):
        return isinstance(o, _Seg) and o.vals == self.vals


def r3_semantics(ctx):
    """is_syntax_valid decided as a whole: by constant propagation through its CFG for every note letter, notes of two to
    four positions (adjacent and spaced), every segment length 0..6 and every pattern of empty / non-empty values, the
    verdict is compared with the X12 definition - P: none or all present; R: at least one; E: at most one; C: if the
    first is present all the others are; L: if the first is present at least one other is.  A position is present
    when it lies within the segment and its value is not empty.  The shape of the code - loops or comprehensions,
    helpers, counters or any()/all() - does not matter; a test that cannot be decided is an analysis error."""
    from ..absint import explore
    fn = ctx.func('syntax', 'is_syntax_valid')
    g = ctx.cfg(fn)
    consts = A.module_constants(ctx.mod('syntax').tree)
    POS = ((1, 2), (2, 4), (1, 2, 3), (2, 4, 5), (1, 2, 3, 4), (1, 3, 4, 6))
    for letter in 'PRECL':
        bad = []
        n = 0
        for pos in POS:
            for L in range(0, 7):
                for vals in itertools.product(('', 'X'), repeat=L):
                    if L == 3 and vals == ('X', 'X', 'X'):
                        vals = ('X', ' ', 'X')       # a blank is a value
                    seg = _Seg(vals)
                    funcs = {'syntax_str': lambda *a_: 'S', 'syntax_ele_id_str': lambda *a_: 'E'}
                    outs = []

                    def on_node(nd, env, funcs=funcs):
                        if nd.kind == 'return':
                            try:
                                v = A.ev(nd.ast.value, env, funcs)
                                outs.append(bool(v[0]) if isinstance(v, tuple) and v else '?')
                            except (A.NotClosed, TypeError, IndexError, ValueError):
                                # only the first component (the verdict) matters
                                rv = nd.ast.value
                                if isinstance(rv, ast.Tuple) and rv.elts:
                                    try:
                                        outs.append(bool(A.ev(rv.elts[0], env, funcs)))
                                        return
                                    except (A.NotClosed, TypeError):
                                        pass
                                outs.append('?')

                    def unk(nd, env):
                        raise AnalysisError('syntax:is_syntax_valid[%s]: a test cannot be decided (note positions %s, segment %s): %s'
                                            % (letter, list(pos), list(vals), norm(nd.ast)))
                    try:
                        explore(g, dict(consts, syn=(letter,) + pos, seg_data=seg), funcs=funcs, on_node=on_node, on_unknown=unk)
                    except RuntimeError as e:
                        raise AnalysisError('syntax:is_syntax_valid: %s' % e)
                    n += 1
                    present = [p_ <= L and vals[p_ - 1] != '' for p_ in pos]
                    if letter in REST:
                        violated = present[0] and SPEC_VIOLATED[letter](sum(present[1:]), len(pos))
                    else:
                        violated = SPEC_VIOLATED[letter](sum(present), len(pos))
                    if '?' in outs or not outs:
                        raise AnalysisError('syntax:is_syntax_valid[%s]: the verdict returned is not determined (note positions %s, segment %s)'
                                            % (letter, list(pos), list(vals)))
                    if set(outs) != {not violated}:
                        bad.append('note %s%s on a segment with values %s: %s, X12 says %s' % (
                            letter, ''.join('%02d' % p_ for p_ in pos), list(vals),
                            'undecided' if '?' in outs or not outs else ('satisfied' if True in outs else 'violated'), 'violated' if violated else 'satisfied'))
        yield Ob('syntax:is_syntax_valid[%s] decision' % letter, not bad, ctx.floc(fn),
                 '' if not bad else bad[0], detail={'evaluated': n, 'counterexamples': bad[:5]})


def r4_routing(ctx):
    fn = ctx.func('map_if', 'segment_if.is_valid')
    loops = [n for n in ast.walk(fn) if isinstance(n, ast.For) and norm(n.iter) == 'self.syntax']
    if len(loops) != 1:
        raise AnalysisError('segment_if.is_valid: loop over self.syntax not found')
    lp = loops[0]
    var = path_of(lp.target)
    call = None
    for s in ast.walk(lp):
        if isinstance(s, ast.stmt) and not isinstance(s, (ast.If, ast.For, ast.While, ast.Try, ast.With)):
            for c in A.calls_in(s):
                if A.call_target(c)[1] == 'is_syntax_valid':
                    call = (s, c)
    if call is None:
        raise AnalysisError('segment_if.is_valid: call of is_syntax_valid not found')
    s, c = call
    # every note of the segment is evaluated: no path through an iteration avoids the call
    from ..cfg import skips_in_iteration
    g = ctx.cfg(fn)
    skip = skips_in_iteration(g, lp, lambda nd: any(x is c for x in g.walk_exprs(nd)))
    yield Ob('map_if:segment_if.is_valid every syntax note is evaluated', skip is None, ctx.floc(fn, lp),
             '' if skip is None else 'an iteration over self.syntax can end without calling is_syntax_valid (through line %s): '
             'that note is never checked' % [getattr(n_, 'lineno', None) for n_ in skip][-2:-1])
    # the statements that follow the call in the same block handle its result
    blk_owner = A.parent(s)
    blk = next(b_ for b_ in (getattr(blk_owner, 'body', None), getattr(blk_owner, 'orelse', None)) if isinstance(b_, list) and s in b_)
    lp_body = blk
    ok = len(c.args) == 2 and path_of(c.args[0]) == 'seg_data' and path_of(c.args[1]) == var
    yield Ob('map_if:segment_if.is_valid is_syntax_valid(seg_data, note)', ok, ctx.floc(fn, c),
             '' if ok else 'arguments are %s' % [norm(a) for a in c.args])
    if not (isinstance(s, ast.Assign) and isinstance(s.targets[0], ast.Tuple) and len(s.targets[0].elts) == 2):
        raise AnalysisError('segment_if.is_valid: result of is_syntax_valid is not unpacked into two names')
    res = path_of(s.targets[0].elts[0])
    ifs = [x for x in lp_body if isinstance(x, ast.If)]
    fail_if = None
    for x in ifs:
        t = x.test
        if isinstance(t, ast.UnaryOp) and isinstance(t.op, ast.Not) and path_of(t.operand) == res:
            fail_if = x
    if fail_if is None:
        raise AnalysisError('segment_if.is_valid: `if not %s` not found' % res)
    # ele_error only under the failure branch
    stray = [c2 for st in lp_body if st is not fail_if for c2 in A.calls_in(st) if A.call_target(c2)[1] == 'ele_error']
    stray += [c2 for st in fail_if.orelse for c2 in A.calls_in(st) if A.call_target(c2)[1] == 'ele_error']
    yield Ob('map_if:segment_if.is_valid satisfied note reports nothing', not stray, ctx.floc(fn, fail_if),
             '' if not stray else 'ele_error outside the failure branch at line %d' % stray[0].lineno)
    # letter -> code
    typ_names = {var + '[0]'}
    for st in fail_if.body:
        if isinstance(st, ast.Assign) and norm(st.value) == var + '[0]':
            typ_names.add(path_of(st.targets[0]))

    def pred(e):
        return norm(e) in typ_names
    arms = list(A.branch_chain(fail_if.body, pred))
    # codes reported per note letter: a constant code counts for the letters of its arm, any other code expression is
    # evaluated with the note letter bound
    per_letter = {l: set() for l in 'PRECL'}
    labelled = {lab for lab, _b, _e, _n in arms if lab is not None}
    in_arms = set()
    for lab, body, extra, node in arms:
        for st in body:
            in_arms.add(id(st))
    groups = [(lab, body) for lab, body, extra, node in arms] + [('*', [st for st in fail_if.body if id(st) not in in_arms and not isinstance(st, ast.If)])]
    for lab, body in groups:
        for st in body:
            for c2 in A.calls_in(st):
                if A.call_target(c2)[1] != 'ele_error' or not c2.args:
                    continue
                for l in 'PRECL':
                    if lab == '*' or lab == l or (lab is None and l not in labelled):
                        a0 = c2.args[0]
                        if isinstance(a0, ast.Name):
                            defs = [x.value for x in ast.walk(fail_if) if isinstance(x, ast.Assign) and path_of(x.targets[0]) == a0.id]
                            a0 = defs[0] if len(defs) == 1 else a0
                        try:
                            env = {var: (l, 1, 2)}
                            for tn in typ_names:
                                env[tn] = l
                            per_letter[l].add(A.ev(a0, env))
                        except A.NotClosed:
                            per_letter[l].add('?')
    want = {l: ({'10'} if l == 'E' else {'2'}) for l in 'PRECL'}
    ok = per_letter == want
    yield Ob('map_if:segment_if.is_valid note letter -> code', ok, ctx.floc(fn, fail_if),
             '' if ok else 'routing is %s, expected E -> 10, otherwise -> 2' % {k: sorted(v) for k, v in sorted(per_letter.items())})
    # result cleared on the failure branch
    cleared = False
    for st in fail_if.body:
        if isinstance(st, ast.AugAssign) and path_of(st.target) == 'valid' and isinstance(st.op, ast.BitAnd) and A.const(st.value) is False:
            cleared = True
        if isinstance(st, ast.Assign) and path_of(st.targets[0]) == 'valid' and A.const(st.value) is False:
            cleared = True
    yield Ob('map_if:segment_if.is_valid failed note clears the result', cleared, ctx.floc(fn, fail_if),
             '' if cleared else 'no `valid = False` / `valid &= False` on the failure branch')
    # the position handed to ele_error is the first position of the note
    pos_ok = all(len(c2.args) >= 4 and norm(c2.args[3]) == var + '[1]' for st in fail_if.body for c2 in A.calls_in(st)
                 if A.call_target(c2)[1] == 'ele_error')
    yield Ob('map_if:segment_if.is_valid note error names the first position', pos_ok, ctx.floc(fn, fail_if),
             '' if pos_ok else 'ele_error refdes argument is not %s[1]' % var)


def r5_attachment_lookup(ctx):
    """a violated note is reported on the element of its first position; when the map defines fewer elements the
    lookup must answer None (the caller then falls back to the last element) - never raise.  The bound test of
    segment_if.get_child_node_by_idx is evaluated over index x number of children: None exactly for idx >= n."""
    for cls in ('segment_if', 'composite_if'):
        fn = ctx.func('map_if', cls + '.get_child_node_by_idx', required=False)
        if fn is None:
            continue
        guards_ = [n for n in ast.walk(fn) if isinstance(n, ast.If) and any(isinstance(s_, ast.Return) and (s_.value is None or (isinstance(s_.value, ast.Constant) and s_.value.value is None)) for s_ in n.body)]
        if len(guards_) != 1:
            raise AnalysisError('%s.get_child_node_by_idx: bound test returning None not found' % cls)
        t = A.abstract(guards_[0].test, {'len(self.children)': 'N'})
        bad = []
        for idx, n_ in itertools.product(range(0, 6), range(0, 5)):
            try:
                got = bool(A.ev(t, {'idx': idx, 'N': n_}))
            except A.NotClosed as e:
                raise AnalysisError('%s.get_child_node_by_idx: bound test not closed: %s' % (cls, e))
            if got != (idx >= n_):
                bad.append('index %d with %d children: %s' % (idx, n_, 'None' if got else 'searched (raises "idx not found")'))
        yield Ob('map_if:%s.get_child_node_by_idx answers None exactly beyond the defined children' % cls, not bad, ctx.floc(fn, guards_[0]),
                 '' if not bad else bad[0], detail={'evaluated': 30})
    sf = ctx.func('map_if', 'segment_if.is_valid')
    txt = ast.unparse(sf)
    ok = 'get_child_node_by_ordinal(' in txt and 'is None' in txt
    require_idiom(ok, 'c14.py:attachment fallback')
    yield Ob('map_if:segment_if.is_valid falls back when the note points beyond the defined elements', ok, ctx.floc(sf))


def r6_reports_reach_the_tree(ctx):
    """a violated note is reported through add_ele + ele_error; the node add_ele creates must be linked into the error tree
    when the error arrives, whatever else the segment already reported (C03.R2, shared)"""
    from . import c03
    for o in c03.attach_on_first_report(ctx):
        yield o


def r7_presence_through_format(ctx):
    """presence of a position is `get_value(..) != ''`, and get_value prints a composite through Composite.format: an absent composite written as separators only must print as the empty string (C01.R8, shared)"""
    from . import c01
    for o in c01.r8_format_keeps_values(ctx):
        yield o


def r8_reads_are_pure(ctx):
    """presence is read through Segment.get_value / len(): the reading methods of Segment, Composite and Element leave
    the object as it was and remember nothing (a memo of get_value that set() does not clear makes the notes be
    evaluated on values the segment no longer has).  C17.R6 (shared)."""
    from . import c17
    for o in c17.r6_reads_do_not_write(ctx):
        yield o


def r10_positions(ctx):
    """a note is evaluated on which positions are present: the segment must count every position it holds (a note that
    mentions position 4 of a three-element segment sees it absent; trailing empty elements the text had are positions
    too) and hold a separate object for each (presence of one position must not follow another).  C17.R8 (shared)."""
    from . import c17
    for o in c17.r8_positions(ctx):
        yield o


def r9_every_note_is_loaded(ctx):
    """a note can only be evaluated if the loader kept it: segment_if.__init__ decided by constant propagation on a
    segment definition with several notes - two notes of different type on the same positions (QTY has E0204 and R0204),
    the same note twice, a note of each type: every well-formed note of the definition is in `syntax`, in order, parsed
    into its type and positions (the parser _split_syntax is followed)."""
    from ..absint import explore, run_function, NotClosedTest
    fn = ctx.func('map_if', 'segment_if.__init__')
    sp = ctx.func('map_if', 'segment_if._split_syntax')
    g = ctx.cfg(fn)
    notes = ('E0204', 'R0204', 'P0304', 'C0506', 'L010203', 'E0204', 'X0102')

    class _Elem(object):
        _sa_model = True

        def __init__(self, attrs, notes=()):
            self.attrs, self.notes = attrs, notes
            self.text = attrs.get('text')

        def get(self, k, d=None):
            return self.attrs.get(k, d)

        def findtext(self, k):
            return self.attrs.get(k)

        def findall(self, k):
            return tuple(_Elem({'text': t}) for t in self.notes) if k == 'syntax' else ()

    def split(text):
        try:
            r = run_function(ctx.cfg(sp), sp, [None, text], {})
        except (NotClosedTest, A.NotClosed) as e:
            raise AnalysisError('segment_if._split_syntax cannot be decided for %r: %s' % (text, e))
        return tuple(r) if isinstance(r, (list, tuple)) else r
    elem = _Elem({'xid': 'QTY', 'type': 's', 'name': 'Quantity', 'usage': 'S', 'pos': '100', 'max_use': '1', 'repeat': None, 'end_tag': None}, notes)
    fin = []

    def on_node(nd, env):
        if nd is g.exit:
            fin.append(env.get('self.syntax', 'undetermined'))

    def unk(nd, env):
        raise AnalysisError('segment_if.__init__: a test cannot be decided: %s' % norm(nd.ast))
    funcs = {'self._split_syntax': split, 'x12_node.__init__': lambda *a_: None}
    try:
        explore(g, {'elem': elem, 'root': 'ROOT', 'parent': 'PARENT'}, funcs=funcs, on_node=on_node, on_unknown=unk)
    except NotClosedTest as e:
        raise AnalysisError('segment_if.__init__ cannot be decided: %s' % e)
    want = tuple((t[0],) + tuple(int(t[i:i + 2]) for i in range(1, len(t), 2)) for t in notes if t[0] in 'PRCLE')
    got = [tuple(tuple(x) if isinstance(x, (list, tuple)) else x for x in f) if isinstance(f, tuple) else f for f in fin]
    ok = bool(got) and all(f == want for f in got)
    yield Ob('map_if:segment_if.__init__ keeps every well-formed note of the definition', ok, ctx.floc(fn),
             '' if ok else 'from the notes %s the segment keeps %s' % (list(notes), got[0] if got else 'nothing'))


RULES = [
    Rule('C14.R9', 'the loader keeps every well-formed note, parsed into type and positions (constant propagation through segment_if.__init__)', r9_every_note_is_loaded, floor=1),
    Rule('C14.R1', 'syntax notes of every indexed map are well formed (parse as _split_syntax expects)', r1_data, floor=1500),
    Rule('C14.R2', 'letter list = branch labels = PRECL; fall-through rejects; position slices tile the note', r2_letters, floor=4),
    Rule('C14.R3', 'is_syntax_valid decided per letter over all presence patterns (notes of 2-4 positions, segments of 0-6 elements) against the X12 definitions', r3_semantics, floor=5),
    Rule('C14.R4', 'failed note -> ele_error code 10 iff E else 2, result cleared; satisfied note reports nothing', r4_routing, floor=3),
    Rule('C14.R7', 'shared with C01.R8: a composite of empty components formats to the empty string', r7_presence_through_format, floor=2),
    Rule('C14.R8', 'shared with C17.R6: reading a segment (get_value, len, format) does not modify it and caches nothing', r8_reads_are_pure, floor=30),
    Rule('C14.R10', 'shared with C17.R8: len() counts every position, one separate Composite per element', r10_positions, floor=3),
    Rule('C14.R6', 'shared with C03.R2: the error node of a violated note is linked into the error tree on every path', r6_reports_reach_the_tree, floor=2),
    Rule('C14.R5', 'the element a note error is attached to is looked up without raising', r5_attachment_lookup, floor=2),
]
