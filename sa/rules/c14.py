"""C14 Syntax notes (P, R, E, C, L) are evaluated exactly as X12 defines them."""
import ast
import itertools

from ..core import require_idiom, Ob, Rule, AnalysisError, norm
from ..cfg import path_of
from .. import astutil as A
from . import datarules as D

META = {
    'explanation': (
        'R1 every <syntax> note of every indexed map parses the way _split_syntax parses it (letter in PRECL, an even number >= 4 of digits, distinct positions >= 1; F-DATA, 1818 notes; range vs. element count is C16.R4). '
        'R2 the letter list of segment_if._split_syntax = the branch labels of is_syntax_valid = {P,R,E,C,L}, the '
        'fall-through rejects, and the position slices tile the digit string. R3 per branch the counting idiom is '
        'recognised (loop over all positions, or all but the first for C/L; increment guarded by the presence test; '
        'C/L guarded by the presence test of the first position) and its three closed expressions - presence test, '
        'first-position guard, final condition - are evaluated over finite domains (segment length 0..6 x position '
        '1..6 x value in {absent, empty, non-empty}; count 0..n for n 2..8) and compared with the X12 definitions. '
        'R4 in segment_if.is_valid a failed note reaches ele_error with code 10 iff the letter is E, else 2, and '
        'clears the result.'),
    'not_decided': 'the composition of the recognised idiom parts is trusted to mean "count the present positions" '
                   '(the idiom recogniser rejects anything else as ANALYSIS-ERROR); error text is not checked',
    'trusted_base': ['idiom recogniser in sa/rules/c14.py', 'finite evaluator sa/astutil.ev',
                     'model of Segment.get_value: None beyond the last element, else the stored string'],
    'technique': 'static analysis: idiom recognition on the AST + evaluation of closed sub-expressions over finite domains; data sweep over map XML',
}

SPEC_VIOLATED = {
    'P': lambda c, n: 0 < c < n,
    'R': lambda c, n: c == 0,
    'E': lambda c, n: c > 1,
    'C': lambda c, n: c < n - 1,     # over the rest (n-1 positions), given the first is present
    'L': lambda c, n: c == 0,        # over the rest, given the first is present
}
REST = {'C', 'L'}


def r1_data(ctx):
    # range (note vs. number of elements) is a C16 matter: evaluation stays correct for out-of-range notes
    return D.syntax_note_obs(ctx, ctx.maps.indexed_files(), check_range=False)


def _branches(ctx):
    fn = ctx.func('syntax', 'is_syntax_valid')
    arms = list(A.branch_chain(fn.body, A.name_or_call_pred('syn_code', 'syn[0]')))
    if not arms:
        # syn[0] compared directly
        def pred(e):
            return isinstance(e, ast.Subscript) and path_of(e.value) == 'syn' and A.const(e.slice) == 0
        arms = list(A.branch_chain(fn.body, pred))
    if not arms:
        raise AnalysisError('syntax:is_syntax_valid: no dispatch on the note letter found')
    return fn, arms


def r2_letters(ctx):
    fn, arms = _branches(ctx)
    labels = [a[0] for a in arms if a[0] not in (None, '?')]
    sp = ctx.func('map_if', 'segment_if._split_syntax')
    want = set('PRECL')
    # which note letters does _split_syntax let through?  Decided by running the function (constant propagation over its
    # CFG) on one note per letter; a module-level compiled regex it consults is applied as the constant function it is.
    import re as _re
    rx_funcs = {}
    for n in ctx.mod('map_if').tree.body:
        if isinstance(n, ast.Assign) and len(n.targets) == 1 and isinstance(n.targets[0], ast.Name) and isinstance(n.value, ast.Call) \
                and path_of(n.value.func) == 're.compile' and n.value.args and A.is_str(n.value.args[0]) and len(n.value.args) == 1:
            rx = _re.compile(n.value.args[0].value)
            for meth in ('match', 'search', 'fullmatch'):
                rx_funcs['%s.%s' % (n.targets[0].id, meth)] = (lambda t, _m=getattr(rx, meth): (_m(t) is not None) if isinstance(t, str) else None)
    accepted = set()
    for letter in 'ABCDEFGHIJKLMNOPQRSTUVWXYZ':
        if _split(ctx, sp, letter + '0102', rx_funcs) is not None:
            accepted.add(letter)
    yield Ob('map_if:segment_if._split_syntax letters', accepted == want, ctx.floc(sp),
             '' if accepted == want else 'accepts letters %s, X12 defines %s' % (sorted(accepted), sorted(want)))
    okdrop = not (accepted - want)
    yield Ob('map_if:segment_if._split_syntax drops unknown letters', okdrop, ctx.floc(sp),
             '' if okdrop else 'a note with the unknown letter %s is not dropped' % sorted(accepted - want)[0])
    yield Ob('syntax:is_syntax_valid branch labels', set(labels) == want and len(labels) == len(set(labels)),
             ctx.floc(fn), '' if set(labels) == want and len(labels) == len(set(labels))
             else 'branches for %s, X12 defines %s' % (labels, sorted(want)))
    # fall-through rejects
    last = fn.body[-1]
    ok = isinstance(last, ast.Return) and isinstance(last.value, ast.Tuple) and A.const(last.value.elts[0]) is False
    else_arms = [a for a in arms if a[0] is None]
    if else_arms:
        ok = all(_returns(a[1]) is False for a in else_arms)
    yield Ob('syntax:is_syntax_valid fall-through rejects', ok, ctx.floc(fn, last),
             '' if ok else 'an unknown note letter is not rejected')
    # what _split_syntax returns for notes of 2..6 positions, by constant propagation through the function (loop or
    # comprehension): the letter followed by every two-digit position in order
    def split(text):
        return _split(ctx, sp, text, rx_funcs)
    bad_t, bad_n = [], []
    for npos in range(2, 7):
        poss = [3 * k + 1 for k in range(npos)]
        text = 'P' + ''.join('%02d' % p_ for p_ in poss)
        got = split(text)
        want = ('P',) + tuple(poss)
        if got is None or tuple(got) != want:
            if got is not None and len(got) != len(want):
                bad_n.append((npos, len(got) - 1))
            else:
                bad_t.append((text, got))
    yield Ob('map_if:segment_if._split_syntax position slices tile the note', not bad_t, ctx.floc(sp),
             '' if not bad_t else 'note %r is split into %s' % bad_t[0])
    yield Ob('map_if:segment_if._split_syntax reads every position', not bad_n, ctx.floc(sp),
             '' if not bad_n else 'a note with %d positions yields %d' % bad_n[0])


def _split(ctx, sp, text, funcs):
    """the value _split_syntax returns for the note `text`, by constant propagation through its CFG"""
    from ..absint import explore
    g = ctx.cfg(sp)
    outs = []

    def on_node(nd, env):
        if nd.kind == 'return':
            if nd.ast.value is None:
                outs.append(None)
            else:
                try:
                    outs.append(A.ev(nd.ast.value, env, funcs))
                except A.NotClosed as e:
                    raise AnalysisError('_split_syntax: returned value not closed: %s' % e)

    def unk(nd, env):
        raise AnalysisError('_split_syntax: test not closed: %s' % norm(nd.ast))
    explore(g, {'syntax': text}, funcs=funcs, on_node=on_node, on_unknown=unk)
    if len(outs) != 1:
        raise AnalysisError('_split_syntax: %d results for %r' % (len(outs), text))
    return outs[0]


def _returns(stmts):
    """True/False if the statement list ends by returning a tuple starting with that constant, else None"""
    for s in stmts:
        if isinstance(s, ast.Return) and isinstance(s.value, ast.Tuple) and s.value.elts \
                and isinstance(A.const(s.value.elts[0]), bool):
            return A.const(s.value.elts[0])
    return None


class SegModel(object):
    """what is_syntax_valid can observe of a segment: len() and get_value('NN')"""

    def __init__(self, vals):
        self.vals = vals

    def __len__(self):
        return len(self.vals)


def _get_value(seg, refdes):
    if not (isinstance(refdes, str) and len(refdes) == 2 and refdes.isdigit()):
        raise A.NotClosed('designator %r is not two digits' % (refdes,))
    i = int(refdes)
    if i < 1:
        raise A.NotClosed('designator 00')
    if i > len(seg.vals):
        return None
    return seg.vals[i - 1]


def _presence_eval(test, inl, posvar):
    """evaluate a presence test over the finite domain; returns list of counterexamples"""
    bad = []
    funcs = {'seg_data.get_value': lambda r: None}
    n = 0
    for L in range(0, 7):
        for s in range(1, 7):
            for v in ('', 'X', ' '):
                vals = ['Q'] * L
                if s <= L:
                    vals[s - 1] = v
                elif v != '':
                    continue
                seg = SegModel(vals)
                env = {'seg_data': seg}
                env.update(posvar(s))
                funcs = {'seg_data.get_value': lambda r, seg=seg: _get_value(seg, r), 'seg_data.__len__': lambda seg=seg: len(seg)}
                for name, expr in inl:
                    env[name] = A.ev(expr, env, funcs)
                got = bool(A.ev(test, env, funcs))
                want = s <= L and v != ''
                n += 1
                if got != want:
                    bad.append('len=%d pos=%d value=%r: test says %s' % (L, s, v if s <= L else None, got))
    return bad, n


def r3_semantics(ctx):
    fn, arms = _branches(ctx)
    for letter, body, extra, ifnode in arms:
        if letter in (None, '?'):
            continue
        if letter not in SPEC_VIOLATED:
            yield Ob('syntax:is_syntax_valid[%s] letter' % letter, False, ctx.floc(fn, ifnode), 'no X12 definition for %r' % letter)
            continue
        if extra:
            raise AnalysisError('branch %s has extra conditions %s' % (letter, [norm(x) for x in extra]))
        key = 'syntax:is_syntax_valid[%s]' % letter
        stmts = body
        guard = None
        if letter in REST:
            ifs = [s for s in stmts if isinstance(s, ast.If)]
            if len(ifs) != 1 or not any(isinstance(x, ast.For) for x in ast.walk(ifs[0])):
                raise AnalysisError('%s: first-position guard idiom not recognised' % key)
            guard = ifs[0]
            stmts = guard.body
            # unguarded path accepts
            other = guard.orelse or [s for s in body[body.index(guard) + 1:]]
            ok = _returns(other) is True
            yield Ob(key + ' absent first position accepts', ok, ctx.floc(fn, guard),
                     '' if ok else 'when the first position is absent the note must be satisfied')
        loops = [s for s in stmts if isinstance(s, ast.For)]
        if len(loops) != 1:
            raise AnalysisError('%s: expected exactly one counting loop, found %d' % (key, len(loops)))
        lp = loops[0]
        it = norm(lp.iter)
        if it == 'syn_idx':
            rest = False
        elif it == 'syn_idx[1:]':
            rest = True
        else:
            raise AnalysisError('%s: loop range %s not recognised' % (key, it))
        ok = rest == (letter in REST)
        yield Ob(key + ' loop range', ok, ctx.floc(fn, lp),
                 '' if ok else 'counts over %s, X12 %s needs %s' % (it, letter, 'all but the first' if letter in REST else 'all positions'))
        var = lp.target.id if isinstance(lp.target, ast.Name) else None
        if var is None:
            raise AnalysisError('%s: loop target not a name' % key)
        # counter: initialised to 0 before the loop, incremented by one only under the presence test
        cname = None
        inl = []
        ptest = None
        for s in lp.body:
            if isinstance(s, ast.Assign) and len(s.targets) == 1 and isinstance(s.targets[0], ast.Name):
                inl.append((s.targets[0].id, s.value))
            elif isinstance(s, ast.If) and not s.orelse and len(s.body) == 1 and isinstance(s.body[0], ast.AugAssign) \
                    and isinstance(s.body[0].op, ast.Add) and A.const(s.body[0].value) == 1 \
                    and isinstance(s.body[0].target, ast.Name):
                if ptest is not None:
                    raise AnalysisError('%s: two increments in the loop' % key)
                ptest = s.test
                cname = s.body[0].target.id
            else:
                raise AnalysisError('%s: loop body statement not part of the counting idiom: %s' % (key, norm(s)))
        if ptest is None:
            raise AnalysisError('%s: no guarded increment found' % key)
        inits = [s for s in stmts[:stmts.index(lp)] if isinstance(s, ast.Assign) and path_of(s.targets[0]) == cname]
        ok = len(inits) == 1 and A.const(inits[0].value) == 0
        others = [n for n in ast.walk(ast.Module(body=stmts, type_ignores=[])) if isinstance(n, (ast.Assign, ast.AugAssign))
                  and any(path_of(t) == cname for t in (n.targets if isinstance(n, ast.Assign) else [n.target]))]
        ok = ok and len(others) == 2
        yield Ob(key + ' counter starts at 0 and is only incremented in the loop', ok, ctx.floc(fn, lp),
                 '' if ok else 'counter %s is initialised/assigned %d times' % (cname, len(others)))
        try:
            bad, n = _presence_eval(ptest, inl, lambda s: {var: s})
        except A.NotClosed as e:
            raise AnalysisError('%s: presence test not closed: %s' % (key, e))
        yield Ob(key + ' presence test', not bad, ctx.floc(fn, ptest),
                 '' if not bad else 'presence test `%s` differs from "position within the segment and value not empty": %s'
                 % (norm(ptest), bad[0]), detail={'evaluated': n, 'counterexamples': bad[:5]})
        if guard is not None:
            try:
                bad, n = _presence_eval(guard.test, [], lambda s: {'syn_idx': (s, 99, 98)})
            except A.NotClosed as e:
                raise AnalysisError('%s: first-position guard not closed: %s' % (key, e))
            yield Ob(key + ' first-position guard', not bad, ctx.floc(fn, guard),
                     '' if not bad else 'guard `%s` differs from "first position present": %s' % (norm(guard.test), bad[0]),
                     detail={'evaluated': n, 'counterexamples': bad[:5]})
        # final condition
        after = stmts[stmts.index(lp) + 1:]
        conds = [s for s in after if isinstance(s, ast.If) and any(path_of(x) == cname for x in ast.walk(s.test))]
        if len(conds) != 1:
            raise AnalysisError('%s: final condition on the counter not recognised' % key)
        c = conds[0]
        tr = _returns(c.body)
        fl = _returns(c.orelse) if c.orelse else _returns(after[after.index(c) + 1:])
        if tr is None or fl is None or tr == fl:
            raise AnalysisError('%s: the two outcomes of the final condition are not (False,..)/(True,..)' % key)
        bad = []
        n = 0
        for npos in range(2, 9):
            m = npos - 1 if rest else npos
            for cnt in range(0, m + 1):
                try:
                    got = bool(A.ev(c.test, {cname: cnt, 'syn_idx': tuple(range(1, npos + 1))}))
                except A.NotClosed as e:
                    raise AnalysisError('%s: final condition not closed: %s' % (key, e))
                violated = got if tr is False else not got
                want = SPEC_VIOLATED[letter](cnt, npos)
                n += 1
                if violated != want:
                    bad.append('%d positions, %d present%s: code says %s' % (
                        npos, cnt, ' among the rest' if rest else '', 'violated' if violated else 'satisfied'))
        yield Ob(key + ' decision', not bad, ctx.floc(fn, c),
                 '' if not bad else 'condition `%s` differs from the X12 definition of %s: %s' % (norm(c.test), letter, bad[0]),
                 detail={'evaluated': n, 'counterexamples': bad[:5]})


def r4_routing(ctx):
    fn = ctx.func('map_if', 'segment_if.is_valid')
    loops = [n for n in ast.walk(fn) if isinstance(n, ast.For) and norm(n.iter) == 'self.syntax']
    if len(loops) != 1:
        raise AnalysisError('segment_if.is_valid: loop over self.syntax not found')
    lp = loops[0]
    var = path_of(lp.target)
    call = None
    for s in ast.walk(lp):
        if isinstance(s, ast.stmt) and not isinstance(s, (ast.If, ast.For, ast.While, ast.Try, ast.With)):
            for c in A.calls_in(s):
                if A.call_target(c)[1] == 'is_syntax_valid':
                    call = (s, c)
    if call is None:
        raise AnalysisError('segment_if.is_valid: call of is_syntax_valid not found')
    s, c = call
    # every note of the segment is evaluated: no path through an iteration avoids the call
    from ..cfg import skips_in_iteration
    g = ctx.cfg(fn)
    skip = skips_in_iteration(g, lp, lambda nd: any(x is c for x in g.walk_exprs(nd)))
    yield Ob('map_if:segment_if.is_valid every syntax note is evaluated', skip is None, ctx.floc(fn, lp),
             '' if skip is None else 'an iteration over self.syntax can end without calling is_syntax_valid (through line %s): '
             'that note is never checked' % [getattr(n_, 'lineno', None) for n_ in skip][-2:-1])
    # the statements that follow the call in the same block handle its result
    blk_owner = A.parent(s)
    blk = next(b_ for b_ in (getattr(blk_owner, 'body', None), getattr(blk_owner, 'orelse', None)) if isinstance(b_, list) and s in b_)
    lp_body = blk
    ok = len(c.args) == 2 and path_of(c.args[0]) == 'seg_data' and path_of(c.args[1]) == var
    yield Ob('map_if:segment_if.is_valid is_syntax_valid(seg_data, note)', ok, ctx.floc(fn, c),
             '' if ok else 'arguments are %s' % [norm(a) for a in c.args])
    if not (isinstance(s, ast.Assign) and isinstance(s.targets[0], ast.Tuple) and len(s.targets[0].elts) == 2):
        raise AnalysisError('segment_if.is_valid: result of is_syntax_valid is not unpacked into two names')
    res = path_of(s.targets[0].elts[0])
    ifs = [x for x in lp_body if isinstance(x, ast.If)]
    fail_if = None
    for x in ifs:
        t = x.test
        if isinstance(t, ast.UnaryOp) and isinstance(t.op, ast.Not) and path_of(t.operand) == res:
            fail_if = x
    if fail_if is None:
        raise AnalysisError('segment_if.is_valid: `if not %s` not found' % res)
    # ele_error only under the failure branch
    stray = [c2 for st in lp_body if st is not fail_if for c2 in A.calls_in(st) if A.call_target(c2)[1] == 'ele_error']
    stray += [c2 for st in fail_if.orelse for c2 in A.calls_in(st) if A.call_target(c2)[1] == 'ele_error']
    yield Ob('map_if:segment_if.is_valid satisfied note reports nothing', not stray, ctx.floc(fn, fail_if),
             '' if not stray else 'ele_error outside the failure branch at line %d' % stray[0].lineno)
    # letter -> code
    typ_names = {var + '[0]'}
    for st in fail_if.body:
        if isinstance(st, ast.Assign) and norm(st.value) == var + '[0]':
            typ_names.add(path_of(st.targets[0]))

    def pred(e):
        return norm(e) in typ_names
    arms = list(A.branch_chain(fail_if.body, pred))
    # codes reported per note letter: a constant code counts for the letters of its arm, any other code expression is
    # evaluated with the note letter bound
    per_letter = {l: set() for l in 'PRECL'}
    labelled = {lab for lab, _b, _e, _n in arms if lab is not None}
    in_arms = set()
    for lab, body, extra, node in arms:
        for st in body:
            in_arms.add(id(st))
    groups = [(lab, body) for lab, body, extra, node in arms] + [('*', [st for st in fail_if.body if id(st) not in in_arms and not isinstance(st, ast.If)])]
    for lab, body in groups:
        for st in body:
            for c2 in A.calls_in(st):
                if A.call_target(c2)[1] != 'ele_error' or not c2.args:
                    continue
                for l in 'PRECL':
                    if lab == '*' or lab == l or (lab is None and l not in labelled):
                        a0 = c2.args[0]
                        if isinstance(a0, ast.Name):
                            defs = [x.value for x in ast.walk(fail_if) if isinstance(x, ast.Assign) and path_of(x.targets[0]) == a0.id]
                            a0 = defs[0] if len(defs) == 1 else a0
                        try:
                            env = {var: (l, 1, 2)}
                            for tn in typ_names:
                                env[tn] = l
                            per_letter[l].add(A.ev(a0, env))
                        except A.NotClosed:
                            per_letter[l].add('?')
    want = {l: ({'10'} if l == 'E' else {'2'}) for l in 'PRECL'}
    ok = per_letter == want
    yield Ob('map_if:segment_if.is_valid note letter -> code', ok, ctx.floc(fn, fail_if),
             '' if ok else 'routing is %s, expected E -> 10, otherwise -> 2' % {k: sorted(v) for k, v in sorted(per_letter.items())})
    # result cleared on the failure branch
    cleared = False
    for st in fail_if.body:
        if isinstance(st, ast.AugAssign) and path_of(st.target) == 'valid' and isinstance(st.op, ast.BitAnd) and A.const(st.value) is False:
            cleared = True
        if isinstance(st, ast.Assign) and path_of(st.targets[0]) == 'valid' and A.const(st.value) is False:
            cleared = True
    yield Ob('map_if:segment_if.is_valid failed note clears the result', cleared, ctx.floc(fn, fail_if),
             '' if cleared else 'no `valid = False` / `valid &= False` on the failure branch')
    # the position handed to ele_error is the first position of the note
    pos_ok = all(len(c2.args) >= 4 and norm(c2.args[3]) == var + '[1]' for st in fail_if.body for c2 in A.calls_in(st)
                 if A.call_target(c2)[1] == 'ele_error')
    yield Ob('map_if:segment_if.is_valid note error names the first position', pos_ok, ctx.floc(fn, fail_if),
             '' if pos_ok else 'ele_error refdes argument is not %s[1]' % var)


def r5_attachment_lookup(ctx):
    """a violated note is reported on the element of its first position; when the map defines fewer elements the
    lookup must answer None (the caller then falls back to the last element) - never raise.  The bound test of
    segment_if.get_child_node_by_idx is evaluated over index x number of children: None exactly for idx >= n."""
    for cls in ('segment_if', 'composite_if'):
        fn = ctx.func('map_if', cls + '.get_child_node_by_idx', required=False)
        if fn is None:
            continue
        guards_ = [n for n in ast.walk(fn) if isinstance(n, ast.If) and any(isinstance(s_, ast.Return) and (s_.value is None or (isinstance(s_.value, ast.Constant) and s_.value.value is None)) for s_ in n.body)]
        if len(guards_) != 1:
            raise AnalysisError('%s.get_child_node_by_idx: bound test returning None not found' % cls)
        t = A.abstract(guards_[0].test, {'len(self.children)': 'N'})
        bad = []
        for idx, n_ in itertools.product(range(0, 6), range(0, 5)):
            try:
                got = bool(A.ev(t, {'idx': idx, 'N': n_}))
            except A.NotClosed as e:
                raise AnalysisError('%s.get_child_node_by_idx: bound test not closed: %s' % (cls, e))
            if got != (idx >= n_):
                bad.append('index %d with %d children: %s' % (idx, n_, 'None' if got else 'searched (raises "idx not found")'))
        yield Ob('map_if:%s.get_child_node_by_idx answers None exactly beyond the defined children' % cls, not bad, ctx.floc(fn, guards_[0]),
                 '' if not bad else bad[0], detail={'evaluated': 30})
    sf = ctx.func('map_if', 'segment_if.is_valid')
    txt = ast.unparse(sf)
    ok = 'get_child_node_by_ordinal(' in txt and 'is None' in txt
    require_idiom(ok, 'c14.py:attachment fallback')
    yield Ob('map_if:segment_if.is_valid falls back when the note points beyond the defined elements', ok, ctx.floc(sf))


RULES = [
    Rule('C14.R1', 'syntax notes of every indexed map are well formed (parse as _split_syntax expects)', r1_data, floor=1500),
    Rule('C14.R2', 'letter list = branch labels = PRECL; fall-through rejects; position slices tile the note', r2_letters, floor=4),
    Rule('C14.R3', 'counting idiom recognised; presence test, guard and decision equal the X12 definitions on finite domains', r3_semantics, floor=15),
    Rule('C14.R4', 'failed note -> ele_error code 10 iff E else 2, result cleared; satisfied note reports nothing', r4_routing, floor=3),
    Rule('C14.R5', 'the element a note error is attached to is looked up without raising', r5_attachment_lookup, floor=2),
]
