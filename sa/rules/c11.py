"""C11 The writer always emits balanced envelopes with correct counts."""
import ast

from ..core import Ob, Rule, AnalysisError, norm, KeyMaker
from ..cfg import path_of, must_facts, has
from .. import astutil as A
from .. import guards
from . import c04

META = {
    'explanation': (
        'R1 only _write_segment/_write_isa_segment write to the output stream, both format with the writer\'s own three '
        'delimiters and append eol. R2 for each trailer the count expression X12Writer formats into the synthesized '
        'trailer equals (canonical AST) the expression X12Reader compares the declared count with (gs_count, st_count, '
        'seg_count+1); the control number is the popped loop\'s own; the trailer template prints id, count, control '
        'number in that order; the writer does not override the shared counting. R3 Write maps IEA->ISA, GE->GS, '
        'SE->ST exactly as the reader pairs them, _close_loop dispatches exactly the pushed types to the closer that '
        'emits the matching trailer, _popToLoop closes inner loops first and the target last (guarded pops), Close '
        'pops to ISA. R4 _write_isa_segment stores the writer\'s component separator in ISA16 (and the repetition '
        'separator in ISA11 for 00501) before formatting. R5 every arm of Write either regenerates a trailer or '
        'writes the supplied segment exactly once, after the shared bookkeeping ran.'),
    'not_decided': 'that counts are true for a given write history; prefix closure; that users call Close()',
    'trusted_base': ['sibling agreement: the reader (checked by C04.R1) is the oracle for the writer'],
    'technique': 'static analysis: sibling-implementation agreement (canonical AST), who-may-write, dominance on the CFG',
}


META['explanation'] += ' Rounds 4-5: ' + "R3 _popToLoop decided by constant propagation on every stack of open loops up to depth 4 x target type; Close reaches _popToLoop('ISA') on every path to its return. R5 Write decided per segment id x check_837_lx: bookkeeping first, trailers regenerated, ISA through _write_isa_segment, LX renumbered, anything else written once."
META['technique'] = META.get('technique', 'static analysis: AST/CFG rules over /repo source + shipped XML data') + '; conditional constant propagation over the CFG on finite, complete input domains (DESIGN.md 10.4.1)'


def _reader_pairs(ctx):
    """from the reader's trailer branches: trailer -> (header type, canonical count expression)"""
    rfn, rdr = c04._arms(ctx, 'X12Reader._parse_segment')
    out = {}
    for t, arm in rdr.items():
        htype = None
        cnt = None
        for c in arm.compares:
            if len(c.ops) != 1 or not isinstance(c.ops[0], ast.NotEq):
                continue
            sides = [c.left, c.comparators[0]]
            texts = [norm(s) for s in sides]
            if 'self.loops[-1][0]' in texts:
                htype = next((A.const(s) for s in sides if isinstance(s, ast.Constant)), htype)
            for s in sides:
                rd = arm.refdes_of(s)
                if rd and rd.endswith('01'):
                    other = [x for x in sides if x is not s][0]
                    cnt = A.canon(other)
        if htype and cnt:
            out[t] = (htype, cnt)
    if set(out) != {'IEA', 'GE', 'SE'}:
        raise AnalysisError('reader trailer branches not recognised: %s' % sorted(out))
    return out


def r1_who_writes(ctx):
    cls = ctx.cls('x12file', 'X12Writer')
    km = KeyMaker()
    allowed = {'_write_segment', '_write_isa_segment'}
    n = 0
    for f in cls.body:
        if not isinstance(f, ast.FunctionDef):
            continue
        for c in A.calls_in(f):
            r, m = A.call_target(c)
            if m in ('write', 'writelines') and r in ('self.fd_out', 'self.fd'):
                n += 1
                ok = f.name in allowed
                yield Ob(km('x12file:X12Writer.%s writes to the stream' % f.name), ok, ctx.loc('x12file', c),
                         '' if ok else 'only _write_segment/_write_isa_segment may write: counts and delimiters would be bypassed')
    for name in sorted(allowed):
        f = ctx.func('x12file', 'X12Writer.' + name)
        fm = [c for c in A.calls_in(f) if A.call_target(c) == ('seg_data', 'format')]
        deleg = [c for c in A.calls_in(f) if A.call_target(c)[0] == 'self' and A.call_target(c)[1] in allowed - {name}
                 and [path_of(a) for a in c.args] == ['seg_data']]
        if not fm and len(deleg) == 1:
            yield Ob('x12file:X12Writer.%s formats with the writer delimiters' % name, True, ctx.floc(f),
                     note='delegates the formatting and the write to %s' % A.call_target(deleg[0])[1])
            yield Ob('x12file:X12Writer.%s writes the formatted segment followed by eol' % name, True, ctx.floc(f),
                     note='delegates the formatting and the write to %s' % A.call_target(deleg[0])[1])
            continue
        ok = len(fm) == 1 and [path_of(a) for a in fm[0].args] == ['self.seg_term', 'self.ele_term', 'self.subele_term']
        yield Ob('x12file:X12Writer.%s formats with the writer delimiters' % name, ok, ctx.floc(f),
                 '' if ok else 'format arguments: %s' % [norm(a) for c in fm for a in c.args])
        wr = [c for c in A.calls_in(f) if A.call_target(c)[1] == 'write']
        # what is written must be the formatted text + eol
        okw = False
        for c in wr:
            arg = c.args[0] if c.args else None
            if isinstance(arg, ast.Name):
                for s in ast.walk(f):
                    if isinstance(s, ast.Assign) and path_of(s.targets[0]) == arg.id:
                        arg = s.value
            if isinstance(arg, ast.BinOp) and isinstance(arg.op, ast.Add) and any(x is fm[0] for x in ast.walk(arg.left)) \
                    and path_of(arg.right) == 'self.eol':
                okw = True
        yield Ob('x12file:X12Writer.%s writes the formatted segment followed by eol' % name, okw, ctx.floc(f),
                 '' if okw else 'written text is not `seg_data.format(...) + self.eol`')
    # no other class member replaces the stream after construction
    for f in cls.body:
        if isinstance(f, ast.FunctionDef) and f.name != '__init__':
            for s in ast.walk(f):
                if isinstance(s, ast.Assign) and any(path_of(t) == 'self.fd_out' for t in s.targets):
                    yield Ob('x12file:X12Writer.%s must not rebind fd_out' % f.name, False, ctx.loc('x12file', s), 'output stream replaced')


CLOSERS = {'ISA': ('_close_iea', 'IEA'), 'GS': ('_close_ge', 'GE'), 'ST': ('_close_se', 'SE')}


def r2_counts(ctx):
    pairs = _reader_pairs(ctx)
    cls = ctx.cls('x12file', 'X12Writer')
    names = {f.name for f in cls.body if isinstance(f, ast.FunctionDef)}
    ok = '_parse_segment' not in names
    yield Ob('x12file:X12Writer inherits the shared counting', ok, 'pyx12/x12file.py',
             '' if ok else 'X12Writer overrides _parse_segment: its counters may differ from the reader\'s')
    for htype, (closer, trailer) in CLOSERS.items():
        f = ctx.func('x12file', 'X12Writer.' + closer)
        calls = [c for c in A.calls_in(f) if A.call_target(c) == ('self', '_get_trailer_segment')]
        key = 'x12file:X12Writer.%s' % closer
        if len(calls) != 1 or len(calls[0].args) != 3:
            yield Ob(key + ' builds one trailer', False, ctx.floc(f), 'expected one _get_trailer_segment(id, count, ctrl) call')
            continue
        c = calls[0]
        ok = A.const(c.args[0]) == trailer
        yield Ob(key + ' emits %s' % trailer, ok, ctx.floc(f, c), '' if ok else 'emits %s' % norm(c.args[0]))
        want = pairs[trailer][1]
        got = A.canon(c.args[1])
        ok = got == want
        yield Ob(key + ' count = what the reader compares %s01 with' % trailer, ok, ctx.floc(f, c),
                 '' if ok else 'writer formats %s, reader compares the declared count with %s' % (got, want))
        pname = f.args.args[1].arg if len(f.args.args) > 1 else None
        ok = path_of(c.args[2]) == pname
        yield Ob(key + ' control number is the closed loop\'s own', ok, ctx.floc(f, c),
                 '' if ok else 'third argument is %s' % norm(c.args[2]))
        wr = [x for x in A.calls_in(f) if A.call_target(x) == ('self', '_write_segment')]
        ok = len(wr) == 1
        yield Ob(key + ' writes the trailer once', ok, ctx.floc(f), '' if ok else '%d _write_segment calls' % len(wr))
    # trailer template: the text handed to Segment(), evaluated for two argument triples and two separators
    f = ctx.func('x12file', 'X12Writer._get_trailer_segment')
    params = [a.arg for a in f.args.args][1:]
    segc0 = [c for c in A.calls_in(f) if A.call_target(c)[1] == 'Segment']
    if len(segc0) != 1 or not segc0[0].args or len(params) != 3:
        raise AnalysisError('_get_trailer_segment: template not recognised')
    tmpl = segc0[0].args[0]

    def _text(a, b, c, sep):
        env = {params[0]: a, params[1]: b, params[2]: c, 'self.ele_term': sep}
        for s_ in f.body:
            if isinstance(s_, ast.Assign) and len(s_.targets) == 1 and isinstance(s_.targets[0], ast.Name):
                try:
                    env[s_.targets[0].id] = A.ev(s_.value, env)
                except A.NotClosed:
                    pass
        try:
            return A.ev(tmpl, env)
        except A.NotClosed as e:
            raise AnalysisError('_get_trailer_segment: template not closed: %s' % e)
    text = _text('SE', 12, '0007', '*')
    ok = text == 'SE*12*0007'
    yield Ob('x12file:X12Writer._get_trailer_segment template prints id, count, control number', ok, ctx.floc(f, tmpl),
             '' if ok else 'template yields %r for (SE, 12, 0007)' % text)
    text2 = _text('GE', 3, '17', '|')
    ok = text2 == 'GE|3|17'
    yield Ob('x12file:X12Writer._get_trailer_segment template uses the writer\'s element separator', ok, ctx.floc(f, tmpl),
             '' if ok else 'with element separator | the template yields %r: the trailer is then parsed with another separator than it was built with' % text2)
    segc = [c for c in A.calls_in(f) if A.call_target(c)[1] == 'Segment']
    ok = len(segc) == 1 and [path_of(a) for a in segc[0].args[1:4]] == ['self.seg_term', 'self.ele_term', 'self.subele_term']
    yield Ob('x12file:X12Writer._get_trailer_segment parses the template with the writer delimiters', ok, ctx.floc(f),
             '' if ok else 'Segment arguments %s' % [norm(a) for c in segc for a in c.args[1:]])


def r3_pairing(ctx):
    pairs = _reader_pairs(ctx)
    f = ctx.func('x12file', 'X12Writer.Write')
    arms = list(A.branch_chain(f.body, A.name_or_call_pred('seg_id', 'seg_data.get_seg_id()')))
    got = {}
    for lab, body, extra, node in arms:
        for st in body:
            for c in A.calls_in(st):
                if A.call_target(c) == ('self', '_popToLoop') and c.args:
                    got[lab] = A.const(c.args[0])
    want = {t: h for t, (h, _) in pairs.items()}
    ok = got == want
    yield Ob('x12file:X12Writer.Write trailer -> header pairing equals the reader\'s', ok, ctx.floc(f),
             '' if ok else 'writer pops %s, reader pairs %s' % (got, want))
    # _close_loop dispatch
    f = ctx.func('x12file', 'X12Writer._close_loop')
    disp = {}
    for lab, body, extra, node in A.branch_chain(f.body, A.name_or_call_pred('loop_type')):
        for st in body:
            for c in A.calls_in(st):
                r, m = A.call_target(c)
                if r == 'self':
                    disp[lab] = (m, [path_of(a) for a in c.args])
    want = {h: (cl, ['loop_id']) for h, (cl, t) in CLOSERS.items()}
    ok = disp == want
    yield Ob('x12file:X12Writer._close_loop dispatches exactly the pushed types', ok, ctx.floc(f),
             '' if ok else 'dispatch %s, expected %s' % (disp, want))
    # _popToLoop: guarded pops, each followed by _close_loop(loop[0], loop[1])
    f = ctx.func('x12file', 'X12Writer._popToLoop')
    chain = guards.class_chain(ctx, 'x12file', 'X12Writer')
    pops = 0
    for nd, sub, p, kind, okg in guards.nonempty_obligations(ctx, f, chain, {'loops'}):
        if kind == 'pop':
            pops += 1
        yield Ob('x12file:X12Writer._popToLoop %s of %s is guarded' % (kind, norm(sub)), okg, ctx.floc(f, sub),
                 '' if okg else 'Close() or a trailer with nothing open would raise IndexError')
    # what _popToLoop closes, decided by running it (constant propagation over its CFG) on every stack of open loops up
    # to depth 4 and every target type: the loops from the top of the stack down to and including the nearest loop of
    # the target type are closed, each with its own type and id, innermost first, and removed; the rest stays open
    from ..absint import traces, NotClosedTest
    g_p = ctx.cfg(f)
    import itertools as _it
    types = ('ISA', 'GS', 'ST')
    stacks = [()]
    for depth in (1, 2, 3, 4):
        for combo in _it.product(types, repeat=depth):
            stacks.append(tuple((t_, 'id%d' % i_) for i_, t_ in enumerate(combo)))
    bad = None
    n_runs = 0
    for stack in stacks:
        for target in types:
            try:
                res = traces(g_p, {'self.loops': stack, 'loop_type': target},
                             lambda c: '_close_loop' if A.call_target(c) == ('self', '_close_loop') else None)
            except NotClosedTest as e:
                raise AnalysisError('X12Writer._popToLoop: a test cannot be decided on the stack %s: %s' % ([t_ for t_, _ in stack], e))
            n_runs += 1
            want_closed = []
            rest = list(stack)
            while rest:
                top = rest.pop()
                want_closed.append(('_close_loop', top))
                if top[0] == target:
                    break
            outs = {(t, dict(e_).get('self.loops')) for t, e_ in res}
            if outs != {(tuple(want_closed), tuple(rest))} and bad is None:
                bad = (stack, target, sorted(outs, key=repr)[0] if outs else None, (tuple(want_closed), tuple(rest)))
    yield Ob('x12file:X12Writer._popToLoop closes the open loops down to and including the target, innermost first, each with its own type and id',
             bad is None, ctx.floc(f),
             '' if bad is None else 'with %s open, _popToLoop(%r) closes %s and leaves %s; it must close %s and leave %s'
             % ([t_ for t_, _ in bad[0]], bad[1], [c_[1] for c_ in bad[2][0]] if bad[2] else None, bad[2][1] if bad[2] else None,
                [c_[1] for c_ in bad[3][0]], list(bad[3][1])), note='%d stack/target combinations' % n_runs)
    f = ctx.func('x12file', 'X12Writer.Close')
    pc = [c for c in A.calls_in(f) if A.call_target(c) == ('self', '_popToLoop')]
    ok = len(pc) == 1 and A.const(pc[0].args[0]) == 'ISA'
    yield Ob('x12file:X12Writer.Close pops to ISA', ok, ctx.floc(f), '' if ok else 'Close does not call _popToLoop(\'ISA\')')
    if ok:
        # ... on every path: a normal return of Close that has not passed the pop leaves the open envelopes without trailers.
        # (A return under a test of `self.loops` itself - nothing is open - is the one exception.)
        g = ctx.cfg(f)

        def is_pop(n):
            return any(x is pc[0] for x in g.walk_exprs(n))

        def edge_ok(n, l, s_):
            if n.kind == 'test' and n.ast is not None and 'self.loops' in norm(n.ast, 200):
                t = norm(n.ast, 200)
                empty_on = 'F' if t in ('self.loops', 'len(self.loops) > 0', 'len(self.loops) != 0', 'len(self.loops)') else \
                    'T' if t in ('not self.loops', 'len(self.loops) == 0') else None
                if empty_on is not None and l == empty_on:
                    return False
            return True
        path = g.find_path(g.entry, lambda n: n is g.exit, blocked=is_pop, edge_ok=edge_ok)
        yield Ob('x12file:X12Writer.Close pops to ISA on every path to its return', path is None, ctx.floc(f),
                 '' if path is None else 'Close can return without closing the open envelopes (via %s): the output ends without the trailers it needs'
                 % ' -> '.join('L%s' % n.ast.lineno for n in path if getattr(n, 'ast', None) is not None and hasattr(n.ast, 'lineno'))[:120])


def r4_isa_delims(ctx):
    f = ctx.func('x12file', 'X12Writer._write_isa_segment')
    g = ctx.cfg(f)
    dom = g.dominators()
    IN = must_facts(g)
    fmt = [n for n in g.nodes if any(isinstance(x, ast.Call) and (A.call_target(x) == ('seg_data', 'format') or
                                                                 (A.call_target(x) == ('self', '_write_segment') and [path_of(a) for a in x.args] == ['seg_data']))
                                     for x in g.walk_exprs(n))]
    if len(fmt) != 1:
        raise AnalysisError('_write_isa_segment: format call not found')
    sets = {}
    for n in g.nodes:
        for x in g.walk_exprs(n):
            if isinstance(x, ast.Call) and A.call_target(x) == ('seg_data', 'set') and len(x.args) == 2:
                sets[A.const(x.args[0])] = (n, x)
    s16 = sets.get('ISA16') or sets.get('16')
    ok = s16 is not None and path_of(s16[1].args[1]) == 'self.subele_term' and s16[0].id in dom[fmt[0].id]
    yield Ob('x12file:X12Writer._write_isa_segment ISA16 := writer component separator before formatting', ok, ctx.floc(f),
             '' if ok else 'ISA16 is not set from self.subele_term on every path to format()')
    s11 = sets.get('ISA11') or sets.get('11')
    ok = s11 is not None and path_of(s11[1].args[1]) == 'self.repetition_term'
    if ok:
        facts = IN[s11[0].id] or ()
        # the version tested is ISA12 of the segment being written (directly, or through a local bound to it)
        ok = any(fct[0] == 'Eq' and fct[2] == '00501' and fct[1] in ("seg_data.get_value('ISA12')", "seg_data.get_value('12')") for fct in facts)
        if not ok:
            for s in ast.walk(f):
                if isinstance(s, ast.Assign) and isinstance(s.value, ast.Call) and A.call_target(s.value) == ('seg_data', 'get_value') \
                        and A.const(s.value.args[0]) in ('ISA12', '12') and isinstance(s.targets[0], ast.Name):
                    ok = ok or any(fct[0] == 'Eq' and fct[2] == '00501' and fct[1] == s.targets[0].id for fct in facts)
    yield Ob('x12file:X12Writer._write_isa_segment ISA11 := repetition separator when ISA12 is 00501', ok, ctx.floc(f),
             '' if ok else 'ISA11 handling changed')


def r5_write_arms(ctx):
    """what Write does with a segment, decided per segment id by running Write over its CFG with the id fixed (constant
    propagation; every test on the id and on check_837_lx is then decided): the shared bookkeeping first; a supplied
    trailer is regenerated by _popToLoop(<its header>) and not written; the ISA goes through _write_isa_segment; LX
    under check_837_lx gets the writer's own counter and is written once; every other segment is written once, as is."""
    from ..absint import traces, NotClosedTest
    f = ctx.func('x12file', 'X12Writer.Write')
    g = ctx.cfg(f)
    pairs = _reader_pairs(ctx)
    want_pop = {t: h for t, (h, _) in pairs.items()}

    def key(c):
        r, m = A.call_target(c)
        if r == 'self' and m in ('_parse_segment', '_popToLoop', '_write_segment', '_write_isa_segment', '_close_loop'):
            return m
        if r == 'seg_data' and m in ('set', 'append', 'set_seg_term', 'set_ele_term', 'set_subele_term'):
            return 'seg_data.' + m
        return None
    for sid in ('IEA', 'GE', 'SE', 'ISA', 'LX', 'CLM', 'NM1', 'GS', 'ST', 'HL'):
        for lx in (True, False):
            k = 'x12file:X12Writer.Write[%s%s]' % (sid, ', check_837_lx' if lx else '')
            verdict = None
            # (a segment whose elements are all empty is a segment like any other: counted and written)
            for empty in (False, True):
                seg = A.Model('segment', get_seg_id=lambda sid=sid: sid, is_empty=lambda empty=empty: empty, is_seg_id_valid=lambda: True)
                env = {'seg_id': sid, 'seg_data': seg, 'self.check_837_lx': lx, 'self.lx_count': 7}
                try:
                    res = traces(g, env, key, funcs={'seg_data.get_seg_id': lambda sid=sid: sid})
                except NotClosedTest as e:
                    raise AnalysisError('X12Writer.Write: a test cannot be decided for segment id %s: %s' % (sid, e))
                trs = sorted({t for t, _e in res}, key=repr)
                if len(trs) != 1:
                    verdict = (False, 'the action is not determined by the segment id: %s' % trs)
                    break
                tr = list(trs[0])
                first_ok = tr[:1] == [('_parse_segment', (seg,))]
                acts = tr[1:] if first_ok else tr
                names = [a_[0] for a_ in acts]
                if not first_ok:
                    ok, msg = False, 'the shared bookkeeping (_parse_segment(seg_data)) does not run first: %s' % names
                elif sid in want_pop:
                    ok = acts == [('_popToLoop', (want_pop[sid],))]
                    msg = 'a supplied trailer must be regenerated by _popToLoop(%r) and not written: %s' % (want_pop[sid], acts)
                elif sid == 'ISA':
                    ok = acts == [('_write_isa_segment', (seg,))]
                    msg = 'the ISA must go through _write_isa_segment: %s' % names
                elif sid == 'LX' and lx:
                    ok = len(acts) == 2 and acts[0][0] == 'seg_data.set' and acts[0][1] == ('01', '7') and acts[1] == ('_write_segment', (seg,))
                    msg = 'LX must get the writer\'s own decimal counter in LX01 and be written once: %s' % (names,)
                else:
                    ok = acts == [('_write_segment', (seg,))]
                    msg = 'segment must be written exactly once and unchanged%s: %s' % (' (also when all its elements are empty - it has been counted)' if empty else '', names)
                if not ok:
                    verdict = (False, msg)
                    break
            if verdict is None:
                verdict = (True, '')
            yield Ob(k + ' action', verdict[0], ctx.floc(f), verdict[1])


def r6_shared_counters(ctx):
    """the counts the writer prints are the X12Base counters: where they are incremented and reset is C04.R1"""
    from . import c04 as _c04
    for o in _c04.r1_wiring(ctx):
        yield o


def _writer_flat(ctx, qual, extra=()):
    """`qual` of X12Writer with the writer's own private methods (and the named inherited ones) expanded in place; calls
    that must stay are the two stream writers and the trailer constructor.  A private method that could not be expanded
    leaves the closing sequence undecidable: analysis error, not a verdict."""
    cls = ctx.cls('x12file', 'X12Writer')
    keep = {'__init__', 'Write', 'Close', '_write_segment', '_write_isa_segment', '_get_trailer_segment', qual.split('.')[-1]}
    callees = ['X12Writer.' + f.name for f in cls.body if isinstance(f, ast.FunctionDef) and f.name not in keep] + list(extra)
    if qual != 'X12Writer._popToLoop' and 'X12Writer._popToLoop' not in callees:
        callees.append('X12Writer._popToLoop')
    fn, st, expanded = ctx.flatten('x12file', qual, callees)
    own = {c.split('.')[-1] for c in callees}
    left = sorted({A.call_target(c)[1] for c in ast.walk(fn) if isinstance(c, ast.Call) and A.call_target(c)[0] == 'self'
                   and A.call_target(c)[1] in own})
    if left:
        raise AnalysisError('%s: the calls of %s could not be followed' % (qual, ', '.join(left)))
    return fn


_TRAILER = {'ISA': 'IEA', 'GS': 'GE', 'ST': 'SE'}


def _expect_close(stack, loop_type, counts):
    """the trailers closing `stack` down to and including the innermost `loop_type` (everything when there is none)"""
    rest = list(stack)
    counts = dict(counts)
    out = []
    while rest:
        t, i = rest.pop()
        if t == 'ISA':
            out.append(('IEA', counts['self.gs_count'], i))
            counts['self.gs_count'] = 0
        elif t == 'GS':
            out.append(('GE', counts['self.st_count'], i))
            counts['self.st_count'] = 0
        elif t == 'ST':
            out.append(('SE', counts['self.seg_count'] + 1, i))
            counts['self.seg_count'] = 0
        if t == loop_type:
            break
    return out, tuple(rest), counts


def r7_closing_semantics(ctx):
    """what the writer generates when it closes, decided by constant propagation through _popToLoop with the closing
    methods expanded in place: for every stack of open envelopes (nothing, ISA, ISA/GS, ISA/GS/ST) and every requested
    level, exactly the open envelopes from the innermost down to and including the requested one are closed, innermost
    first, each with its own control number and the count the reader will recompute (segments + the SE itself, sets,
    groups); the closed envelopes leave the stack and their counters restart."""
    from ..absint import traces, NotClosedTest
    fn = _writer_flat(ctx, 'X12Writer._popToLoop')
    g = ctx.cfg(fn)
    counts = {'self.gs_count': 2, 'self.st_count': 3, 'self.seg_count': 7}
    bad = []
    runs = 0
    # (also with headers whose control number is blank: their trailers are due all the same)
    for full, depth in [(f_, d_) for f_ in ((('ISA', 'i1'), ('GS', 'g1'), ('ST', 's1')), (('ISA', 'i1'), ('GS', ''), ('ST', ''))) for d_ in range(4)]:
        if full[1][1] == '' and depth < 2:
            continue
        for lt in ('ISA', 'GS', 'ST'):
            env = dict(counts)
            env['self.loops'] = full[:depth]
            env['loop_type'] = lt

            def key(c):
                r, m = A.call_target(c)
                return 'trailer' if m == '_get_trailer_segment' else None
            try:
                res = traces(g, env, key)
            except NotClosedTest as e:
                raise AnalysisError('X12Writer._popToLoop cannot be decided (stack %s, closing %s): %s' % ([t for t, _ in full[:depth]], lt, e))
            runs += 1
            want, rest, cnt = _expect_close(full[:depth], lt, counts)
            for tr, e_ in res:
                got = [a_[1] for a_ in tr]
                fin = dict(e_)
                diffs = [k for k, v in cnt.items() if fin.get(k) != v]
                if (got != want or fin.get('self.loops') != rest or diffs) and len(bad) < 3:
                    bad.append('open %s, closing down to %s: trailers %s, stack left %s%s; expected %s, %s' % (
                        [t for t, _ in full[:depth]] or 'nothing', lt, got, [t for t, _ in fin.get('self.loops') or ()],
                        ''.join(', %s = %r' % (k, fin.get(k)) for k in diffs), want, [t for t, _ in rest]))
    yield Ob('x12file:X12Writer._popToLoop closes exactly the open envelopes down to the requested one, innermost first, with their counts', not bad,
             ctx.floc(ctx.func('x12file', 'X12Writer._popToLoop')), '' if not bad else bad[0], note='%d combinations' % runs)
    # Close = close everything
    try:
        fnc = _writer_flat(ctx, 'X12Writer.Close')
    except AnalysisError:
        # _popToLoop cannot be expanded in place (it returns from inside its loop): Close is then decided through the call -
        # it asks, once and on every path, for the closing down to the outermost level, which the obligation above decided
        fnc = ctx.func('x12file', 'X12Writer.Close')
        try:
            res = traces(ctx.cfg(fnc), {}, lambda c: 'pop' if A.call_target(c) == ('self', '_popToLoop') else None)
        except NotClosedTest as e:
            raise AnalysisError('X12Writer.Close cannot be decided: %s' % e)
        got = sorted({tuple(a_[1] for a_ in tr) for tr, _e in res})
        ok = got == [(('ISA',),)]
        yield Ob('x12file:X12Writer.Close closes every open envelope, innermost first', ok, ctx.floc(fnc), '' if ok else 'Close asks for %s' % (got,))
        return
    gc = ctx.cfg(fnc)
    bad = []
    for depth in range(4):
        env = dict(counts)
        env['self.loops'] = full[:depth]
        try:
            res = traces(gc, env, lambda c: 'trailer' if A.call_target(c)[1] == '_get_trailer_segment' else None)
        except NotClosedTest as e:
            raise AnalysisError('X12Writer.Close cannot be decided: %s' % e)
        want, rest, cnt = _expect_close(full[:depth], None, counts)
        for tr, e_ in res:
            got = [a_[1] for a_ in tr]
            if got != want or dict(e_).get('self.loops') != ():
                bad.append('open %s at Close: trailers %s, expected %s' % ([t for t, _ in full[:depth]] or 'nothing', got, want))
    yield Ob('x12file:X12Writer.Close closes every open envelope, innermost first', not bad, ctx.floc(ctx.func('x12file', 'X12Writer.Close')),
             '' if not bad else bad[0])


RULES = [
    Rule('C11.R1', 'only the two write helpers touch the stream; both use the writer delimiters + eol', r1_who_writes, floor=4),
    Rule('C11.R2', 'synthesized trailer counts equal what the reader compares with; control number is the loop\'s own', r2_counts, floor=10),
    Rule('C11.R3', 'trailer->header pairing, _close_loop dispatch, _popToLoop order, Close', r3_pairing, floor=4),
    Rule('C11.R4', 'ISA16/ISA11 carry the writer\'s separators before formatting', r4_isa_delims, floor=1),
    Rule('C11.R5', 'every arm of Write regenerates a trailer or writes the segment once after the bookkeeping', r5_write_arms, floor=4),
    Rule('C11.R7', 'closing sequence of the writer decided by constant propagation (open envelopes x requested level)', r7_closing_semantics, floor=2),
    Rule('C11.R6', 'shared with C04.R1: the counters behind the generated trailers are incremented and reset where the envelope says', r6_shared_counters, floor=37),
]
