"""C08 X12 to XML to X12 is the identity on structurally valid documents."""
import ast
import itertools
import re

from ..core import require_idiom, Ob, Rule, AnalysisError, norm, KeyMaker
from ..cfg import path_of
from .. import astutil as A
from . import datarules as D
from .c17 import _rec_path

META = {
    'explanation': (
        'R1 vocabulary agreement: the (tag, attribute) pairs produced by x12xml_simple._get_{loop,seg,comp,ele,subele}'
        '_info are the tags and the attribute xmlx12_simple.convert/get_segment read; and the `id` written for every '
        'element / sub-element of every indexed map is a reference designator that Segment.set resolves to exactly '
        'that node\'s position (segment id, two-digit sequence, component index) - ~21 000 ids checked against the '
        'path regex. R2 escaping: in XMLWriter every content passes _escape_cont and every attribute value '
        '_escape_attr on push/elem; both chains replace & first and cover <, the attribute chain covers the quote '
        'character of its literal template. R3 local balance: in x12xml_simple.seg (and the twin x12xml.seg) the '
        'segment push is post-dominated by its pop and the composite push by its pop inside the same iteration. R4 '
        'the writer emits an element only when it is used by the map and not empty and the reader stores only '
        'non-empty text: the same predicate on both sides; the converter feeds every <seg> to the X12 writer in '
        'document order.'),
    'not_decided': 'loop open/close bookkeeping across segments (path diff over run-time paths), equality of the round trip, '
                   'well-formedness for control characters',
    'trusted_base': ['sa/xmlmodel.py', 'reference designator regex checked by C17.R1'],
    'technique': 'static analysis: writer/reader vocabulary agreement, replace-chain extraction, post-dominance on the CFG, data sweep of element ids',
}


META['explanation'] += ' Rounds 4-5: ' + "R2 escapes decided by constant propagation (decoding the output once gives the input back), pop on a two-element stack. R7 (= C18.R2 restricted) XML writer state is per instance. R8 (= C11.R4) the ISA written back announces the writer's separators."
META['technique'] = META.get('technique', 'static analysis: AST/CFG rules over /repo source + shipped XML data') + '; conditional constant propagation over the CFG on finite, complete input domains (DESIGN.md 10.4.1)'

INFO = {'_get_loop_info': 'loop', '_get_seg_info': 'seg', '_get_comp_info': 'comp', '_get_ele_info': 'ele', '_get_subele_info': 'subele'}


def _writer_vocab(ctx):
    out = {}
    for meth, kind in INFO.items():
        f = ctx.func('x12xml_simple', 'x12xml_simple.' + meth)
        rets = [n for n in ast.walk(f) if isinstance(n, ast.Return)]
        if len(rets) != 1 or not isinstance(rets[0].value, ast.Tuple) or len(rets[0].value.elts) != 2:
            raise AnalysisError('x12xml_simple.%s: (tag, attrs) return not recognised' % meth)
        tag = A.const(rets[0].value.elts[0])
        d = rets[0].value.elts[1]
        attrs = {A.const(k): path_of(v) for k, v in zip(d.keys, d.values)} if isinstance(d, ast.Dict) else None
        out[kind] = (tag, attrs, f)
    return out


def r1_vocabulary(ctx):
    voc = _writer_vocab(ctx)
    conv = ctx.func('xmlx12_simple', 'convert')
    gs = ctx.func('xmlx12_simple', 'get_segment')
    read_tags = set()
    for f in (conv, gs):
        for n in ast.walk(f):
            if isinstance(n, ast.Compare) and norm(n.left).endswith('.tag') and A.is_str(n.comparators[0]):
                read_tags.add(n.comparators[0].value)
            if isinstance(n, ast.Call) and A.call_target(n)[1] in ('findall', 'iter', 'find') and n.args and A.is_str(n.args[0]):
                read_tags.add(n.args[0].value)
    read_attrs = {A.const(c.args[0]) for f in (conv, gs) for c in A.calls_in(f) if A.call_target(c)[1] == 'get' and c.args}
    for kind in ('seg', 'ele', 'comp', 'subele'):
        tag, attrs, f = voc[kind]
        ok = tag == kind and tag in read_tags
        yield Ob('x12xml_simple writes <%s>, xmlx12_simple reads it' % kind, ok, ctx.floc(f),
                 '' if ok else 'writer tag %r, reader looks for %s' % (tag, sorted(read_tags)))
        if kind in ('seg', 'ele', 'subele'):
            ok = attrs is not None and list(attrs) == ['id'] and 'id' in read_attrs
            yield Ob('x12xml_simple <%s> carries the id attribute the reader uses' % kind, ok, ctx.floc(f),
                     '' if ok else 'writer attributes %s, reader reads %s' % (attrs, sorted(read_attrs)))
    tag, attrs, f = voc['loop']
    ok = tag == 'loop' and attrs is not None and list(attrs) == ['id']
    yield Ob('x12xml_simple writes <loop id=...>', ok, ctx.floc(f), '' if ok else 'loop element is %s %s' % (tag, attrs))
    # what the writer passes as ids: child_node.id / subele_node.id / seg node id
    seg = ctx.func('x12xml_simple', 'x12xml_simple.seg')
    calls = {A.call_target(c)[1]: c for c in A.calls_in(seg) if A.call_target(c)[0] == 'self' and A.call_target(c)[1] in INFO}
    want = {'_get_ele_info': 'child_node.id', '_get_subele_info': 'subele_node.id'}
    for meth, w in want.items():
        c = calls.get(meth)
        ok = c is not None and norm(c.args[0]) == w
        yield Ob('x12xml_simple:x12xml_simple.seg %s(%s)' % (meth, w), ok, ctx.floc(seg), '' if ok else 'id passed is %s' % (norm(c.args[0]) if c else None))
    # the values: ele -> seg_data.get_value('%02i' % (i+1)); subele -> comp_data[j].get_value()
    elems = [c for c in A.calls_in(seg) if A.call_target(c) == ('self.writer', 'elem')]
    ok = len(elems) == 2
    yield Ob('x12xml_simple:x12xml_simple.seg writes element and sub-element values', ok, ctx.floc(seg), '' if ok else '%d elem() calls' % len(elems))
    for c in elems:
        v = norm(c.args[1])
        val = c.args[1]
        ok = False
        # the index variables are those of the enclosing `for X in range(..)` loops (outermost = element, innermost = component)
        rloops = []
        p_ = A.parent(c)
        while p_ is not None and p_ is not seg:
            if isinstance(p_, ast.For) and isinstance(p_.target, ast.Name) and isinstance(p_.iter, ast.Call) and path_of(p_.iter.func) == 'range':
                rloops.append(p_.target.id)
            p_ = A.parent(p_)
        iv = rloops[-1] if rloops else 'i'
        jv = rloops[0] if len(rloops) > 1 else 'j'
        if isinstance(val, ast.Call) and A.call_target(val) == ('seg_data', 'get_value') and val.args:
            # the designator expression must print position i+1 with two digits, however it is formatted
            try:
                ok = [A.ev(val.args[0], {iv: k}) for k in (0, 8, 9, 41)] == ['01', '09', '10', '42']
            except (A.NotClosed, TypeError, ValueError):
                ok = False
        elif v == 'comp_data[%s].get_value()' % jv or (re.match(r'^(\w+)\[%s\]\.get_value\(\)$' % re.escape(jv), v) and any(
                isinstance(s_, ast.Assign) and path_of(s_.targets[0]) == v.split('[')[0] and isinstance(s_.value, ast.Call)
                and A.call_target(s_.value) == ('seg_data', 'get') for s_ in ast.walk(seg))):
            ok = True
        yield Ob('x12xml_simple:x12xml_simple.seg value written is the one at the node position [%s]' % v, ok, ctx.floc(seg, c),
                 '' if ok else 'value expression %s does not address position i / component j' % v)
    # reader: ids go to Segment.set together with the text
    sets = [c for c in A.calls_in(gs) if A.call_target(c) == ('seg_data', 'set')]
    ok = len(sets) == 2 and all(len(c.args) == 2 and norm(c.args[1]).endswith('.text') for c in sets)
    yield Ob('xmlx12_simple:get_segment stores text at the id read', ok, ctx.floc(gs), '' if ok else 'set calls %s' % [norm(c) for c in sets])
    # the Segment is created with the value of the node's id attribute (directly, or through a local bound to it)
    ctor = [c for c in A.calls_in(gs) if A.call_target(c)[1] == 'Segment' and c.args]
    ok = False
    if len(ctor) == 1:
        a0 = ctor[0].args[0]
        if isinstance(a0, ast.Name):
            defs = [n.value for n in ast.walk(gs) if isinstance(n, ast.Assign) and len(n.targets) == 1 and path_of(n.targets[0]) == a0.id]
            a0 = defs[0] if len(defs) == 1 else a0
        ok = isinstance(a0, ast.Call) and A.call_target(a0)[1] == 'get' and a0.args and A.const(a0.args[0]) == 'id' \
            and path_of(a0.func.value) == gs.args.args[0].arg
    yield Ob('xmlx12_simple:get_segment segment id from the id attribute', ok, ctx.floc(gs), '' if ok else 'changed')
    # data: every element id designates its own position
    pat, flags, _ = _rec_path(ctx)
    rx = re.compile(pat, flags)
    for n in D.all_nodes(ctx, ctx.maps.indexed_files()):
        if n.kind != 'element':
            continue
        seg_node = n.parent
        comp = None
        if seg_node.kind == 'composite':
            comp = seg_node
            seg_node = seg_node.parent
        if n.usage == 'N' and (comp is None or True) and n.id is None:
            continue
        m = rx.search(n.id or '')
        if comp is None:
            ok = m is not None and m.group('seg_id') == seg_node.id and m.group('ele_idx') is not None \
                and int(m.group('ele_idx')) == n.seq and m.group('subele_idx') is None and m.group('id_val') is None
            want = '%s%02d' % (seg_node.id, n.seq or 0)
        else:
            ok = m is not None and m.group('seg_id') == seg_node.id and m.group('ele_idx') is not None \
                and int(m.group('ele_idx')) == comp.seq and m.group('subele_idx') is not None and int(m.group('subele_idx')) == n.seq
            want = '%s%02d-%d' % (seg_node.id, comp.seq or 0, n.seq or 0)
        if comp is not None and comp.usage == 'N':
            continue   # never written (x12xml_simple skips not-used composites)
        if n.usage == 'N':
            continue   # never written
        yield Ob('%s id designates its own position' % D.nodekey(n), ok, D.where(n),
                 '' if ok else 'id %r does not resolve to this node\'s position (expected a designator like %s): the value lands elsewhere on the way back' % (n.id, want))


def r2_escaping(ctx):
    cls = ctx.cls('xmlwriter', 'XMLWriter')
    # what the two escape functions return, decided by constant propagation through them (str.replace applied to constant
    # text) on probe texts: each special character becomes its entity, an ampersand exactly once (it is replaced first:
    # the ampersands of the other entities are not escaped again), everything else is unchanged
    from ..absint import run_function, NotClosedTest
    ents = {'&': '&amp;', '<': '&lt;', '>': '&gt;', "'": '&apos;', '"': '&quot;'}
    sib = {}
    for meth in ('_escape_cont', '_escape_attr'):
        fm = ctx.func('xmlwriter', 'XMLWriter.' + meth)
        sib['self.' + meth] = (lambda t, _f=fm: run_function(ctx.cfg(_f), _f, [None, t], sib))
    for meth, need in (('_escape_cont', ['&', '<']), ('_escape_attr', ['&', '<', "'"])):
        f = ctx.func('xmlwriter', 'XMLWriter.' + meth)

        def esc(t, f=f):
            try:
                return run_function(ctx.cfg(f), f, [None, t], sib)
            except (NotClosedTest, A.NotClosed) as e:
                raise AnalysisError('XMLWriter.%s cannot be evaluated on the text %r: %s' % (f.name, t, e))
        import html as _html
        probe = "a&b<c>d'e&lt;f"
        got = esc(probe)
        # decoding the entities of the output once gives the input back: nothing is escaped twice, nothing is left raw
        ok = isinstance(got, str) and _html.unescape(got) == probe and '<' not in got and all(
            c_ not in got.replace('&apos;', '') for c_ in (["'"] if "'" in need else []))
        yield Ob('xmlwriter:XMLWriter.%s replaces & first' % meth, ok, ctx.floc(f), '' if ok else '%r is written as %r' % (probe, got))
        for ch in need:
            got = esc('x%sy' % ch)
            ok = got == 'x%sy' % ents[ch]
            yield Ob('xmlwriter:XMLWriter.%s covers %r' % (meth, ch), ok, ctx.floc(f), '' if ok else '%r is written as %r, not as %s' % (ch, got, ents[ch]))
        got = esc('plain text 01-A')
        ok = got == 'plain text 01-A'
        yield Ob('xmlwriter:XMLWriter.%s leaves other text alone' % meth, ok, ctx.floc(f), '' if ok else 'plain text is written as %r' % (got,))
    # what push / elem write, decided by constant propagation with marker oracles for the two escape functions: the
    # opening tag, every attribute as  name='<escaped value>'  (the quote _escape_attr covers), for elem the escaped
    # content and the closing tag of the same element
    from ..absint import traces as _traces
    for meth in ('push', 'elem'):
        f = ctx.func('xmlwriter', 'XMLWriter.' + meth)
        funcs = {'self._escape_attr': lambda v: 'A(%s)' % (v,), 'self._escape_cont': lambda v: 'C(%s)' % (v,)}
        env = {'self.stack': ('root',), 'self.indent': '', 'elem': 'E1', 'content': 'TXT', 'attrs': A.FrozenDict((('id', 'V1'), ('n', 'V2')))}
        try:
            res = _traces(ctx.cfg(f), env, lambda c: 'write' if A.call_target(c) in (('self', '_write'), ('self.out', 'write')) else None, funcs)
        except NotClosedTest as e:
            raise AnalysisError('XMLWriter.%s cannot be decided: %s' % (meth, e))
        texts = set()
        for tr, env_items in res:
            if any(a_[0] == 'write' and not (a_[1] and isinstance(a_[1][0], str)) for a_ in tr):
                raise AnalysisError('XMLWriter.%s: a written text is not determined by the arguments' % meth)
            texts.add((''.join(a_[1][0] for a_ in tr if a_[0] == 'write'), dict(env_items).get('self.stack')))
        if len(texts) != 1:
            raise AnalysisError('XMLWriter.%s: %d outcomes' % (meth, len(texts)))
        (text, stack), = texts
        body = text.strip()
        import re as _re
        m_ = _re.fullmatch(r"<E1((?: [a-z]+=(['\"]).*?\2)*)>(.*)", body, _re.S)
        attrs_txt = m_.group(1) if m_ else ''
        quotes = set(_re.findall(r"=(['\"])", attrs_txt))
        okq = bool(m_) and quotes == {"'"}
        yield Ob('xmlwriter:XMLWriter.%s attribute quote is the one _escape_attr covers' % meth, okq, ctx.floc(f),
                 '' if okq else '%s(E1, id=V1, n=V2) writes %r: attributes are not quoted with the apostrophe' % (meth, text))
        okv = bool(m_) and attrs_txt == " id='A(V1)' n='A(V2)'"
        yield Ob('xmlwriter:XMLWriter.%s attribute values pass _escape_attr' % meth, okv, ctx.floc(f),
                 '' if okv else "%s(E1, id=V1, n=V2) writes %r, expected the attributes  id='<escaped V1>' n='<escaped V2>'" % (meth, text))
        if meth == 'elem':
            rest = m_.group(3) if m_ else ''
            ok = rest.startswith('C(TXT)')
            yield Ob('xmlwriter:XMLWriter.elem content passes _escape_cont', ok, ctx.floc(f), '' if ok else 'elem(E1, TXT) writes %r: the content is not the escaped text' % (text,))
            ok = rest.endswith('</E1>') and rest.count('<') == 1 and stack == ('root',)
            yield Ob('xmlwriter:XMLWriter.elem closes the element it opened', ok, ctx.floc(f), '' if ok else 'elem(E1, TXT) writes %r and leaves the stack %s' % (text, stack))
        else:
            ok = bool(m_) and m_.group(3) == '' and stack == ('root', 'E1')
            yield Ob('xmlwriter:XMLWriter.push opens the element and remembers it', ok, ctx.floc(f), '' if ok else 'push(E1) writes %r and leaves the stack %s' % (text, stack))
    f = ctx.func('xmlwriter', 'XMLWriter.pop')
    # decided by constant propagation through pop on the stack (a, b): the closing tag written is </b>, (a) stays open
    from ..absint import traces
    try:
        res = traces(ctx.cfg(f), {'self.stack': ('a', 'b'), 'self.indent': ' '},
                     lambda c: 'write' if A.call_target(c) in (('self', '_write'), ('self.out', 'write')) else None)
    except NotClosedTest as e:
        raise AnalysisError('XMLWriter.pop cannot be decided: %s' % e)
    outs = set()
    for tr, env_items in res:
        written = ''.join(a_[1][0] for a_ in tr if a_[0] == 'write' and a_[1] and isinstance(a_[1][0], str))
        outs.add((written.strip(), dict(env_items).get('self.stack')))
    ok = outs == {('</b>', ('a',))}
    yield Ob('xmlwriter:XMLWriter.pop closes the innermost open element', ok, ctx.floc(f), '' if ok else 'pop changed')
    f = ctx.func('xmlwriter', 'XMLWriter.push')
    ok = any(A.call_target(c) == ('self.stack', 'append') and path_of(c.args[0]) == 'elem' for c in A.calls_in(f))
    yield Ob('xmlwriter:XMLWriter.push records the opened element', ok, ctx.floc(f), '' if ok else 'push changed')


def r3_balance(ctx):
    for mod, qual in (('x12xml_simple', 'x12xml_simple.seg'), ('x12xml', 'x12xml.seg')):
        fn = ctx.func(mod, qual)
        g = ctx.cfg(fn)
        pd = g.postdominators()

        def wcalls(n, meth):
            return [x for x in g.walk_exprs(n) if isinstance(x, ast.Call) and A.call_target(x) == ('self.writer', meth)]
        pushes = [(n, c) for n in g.nodes for c in wcalls(n, 'push')]
        pops = [n for n in g.nodes if wcalls(n, 'pop')]
        # classify pushes by what info call feeds xname: the assignment just before
        segp = compp = None
        for n, c in pushes:
            # find the preceding tuple assignment from self._get_*_info
            src = None
            for p, l in n.pred:
                if p.kind == 'stmt' and isinstance(p.ast, ast.Assign) and isinstance(p.ast.value, ast.Call):
                    src = A.call_target(p.ast.value)[1]
            if src == '_get_seg_info':
                segp = n
            elif src == '_get_comp_info':
                compp = n
        if segp is None or compp is None:
            raise AnalysisError('%s:%s push sites not recognised' % (mod, qual))
        # seg push post-dominated by a top-level pop (the last statement group)
        last_pops = [p for p in pops if isinstance(A.parent(p.stmt), ast.FunctionDef)]
        ok = any(p.id in pd[segp.id] for p in last_pops)
        yield Ob('%s:%s segment element is closed on every normal path' % (mod, qual), ok, ctx.floc(fn, segp.stmt),
                 '' if ok else 'push(seg) is not post-dominated by a pop at function level')
        # comp push and its pop are siblings in the same block, pop after push, and the pop post-dominates the push
        cblock = A.parent(compp.stmt)
        sibs = getattr(cblock, 'body', []) if compp.stmt in getattr(cblock, 'body', []) else getattr(cblock, 'orelse', [])
        cp = [p for p in pops if p.stmt in sibs and sibs.index(p.stmt) > sibs.index(compp.stmt)]
        ok = len(cp) == 1 and cp[0].id in pd[compp.id]
        yield Ob('%s:%s composite element is closed in the iteration that opened it' % (mod, qual), ok, ctx.floc(fn, compp.stmt),
                 '' if ok else 'push(comp) has no matching pop in the same block')
        ok = len(pushes) <= 4 and len(pops) <= 4
        yield Ob('%s:%s no other push/pop in the element part' % (mod, qual), ok, ctx.floc(fn), '' if ok else '%d pushes, %d pops' % (len(pushes), len(pops)))


def r4_empty_agreement(ctx):
    seg = ctx.func('x12xml_simple', 'x12xml_simple.seg')
    loops = [n for n in ast.walk(seg) if isinstance(n, ast.For) and 'len(seg_data)' in norm(n.iter)]
    if len(loops) != 1:
        raise AnalysisError('x12xml_simple.seg: element loop not found')
    lp = loops[0]
    # an element is written exactly when it is used by the map and not empty in the data: the conditions around every
    # writer call of the loop are evaluated over usage x emptiness (whatever the shape of the branch)
    writes = [c for c in A.calls_in(lp) if A.call_target(c)[0] == 'self.writer' and A.call_target(c)[1] in ('elem', 'push')]
    if len(writes) < 2:
        raise AnalysisError('x12xml_simple.seg: element writes not found')
    bad = []
    for c in writes:
        st = A.enclosing(c, (ast.stmt,))
        conds = A.path_condition(st, seg)
        tab = {}
        for t, _pol in conds:
            for x in ast.walk(t):
                if isinstance(x, ast.Call) and A.call_target(x)[1] == 'is_empty':
                    tab[ast.unparse(x)] = 'EMPTY'
        used = False
        for u, e in itertools.product(('N', 'S', 'R'), (True, False)):
            got = True
            for t, pol in conds:
                t2 = A.abstract(t, tab)
                if not A.free_paths(t2) <= {'child_node.usage', 'EMPTY'}:
                    continue
                used = True
                try:
                    got = got and (bool(A.ev(t2, {'child_node.usage': u, 'EMPTY': e})) == pol)
                except (A.NotClosed, TypeError):
                    raise AnalysisError('x12xml_simple.seg: skip condition not closed: %s' % norm(t))
            if got != (not (u == 'N' or e)):
                bad.append('usage %s, %s element: %s' % (u, 'empty' if e else 'non-empty', 'written' if got else 'skipped'))
        if not used:
            bad.append('%s is not guarded by the usage/emptiness test' % norm(c, 50))
    ok = not bad
    yield Ob('x12xml_simple:x12xml_simple.seg skips exactly not-used or empty elements', ok, ctx.floc(seg, lp), '' if ok else bad[0])
    # loop covers every element position of the data
    okr = True
    for nchild, want in ((9, [0, 1, 2, 3]), (4, [0, 1, 2, 3]), (2, [0, 1])):
        try:
            rng = [A.ev(a, {'seg_data': (0,) * 4, 'seg_node.get_child_count()': nchild}) for a in lp.iter.args]
            okr = okr and list(range(*rng)) == want
        except Exception:
            okr = False
    yield Ob('x12xml_simple:x12xml_simple.seg visits every element position the map defines', okr, ctx.floc(seg, lp),
             '' if okr else 'element range %s skips or exceeds positions' % norm(lp.iter))
    gs = ctx.func('xmlx12_simple', 'get_segment')
    # every seg_data.set(id, X.text) is reached only when X.text is a non-empty string: the conjunction of the
    # enclosing tests is evaluated for text in (None, '', 'v')
    sets = [c for c in A.calls_in(gs) if A.call_target(c)[1] == 'set' and len(c.args) == 2 and norm(c.args[1]).endswith('.text')]
    bad = []
    for c in sets:
        tx = norm(c.args[1])
        st = A.enclosing(c, (ast.stmt,))
        conds = [(t, pol) for t, pol in A.path_condition(st, gs) if A.free_paths(t) <= {tx}]
        for val, want in ((None, False), ('', False), ('v', True), (' ', True), ('  ', True), (' v ', True)):      # (a blank is data)
            try:
                got = all(bool(A.ev(t, {tx: val})) == pol for t, pol in conds)
            except (A.NotClosed, TypeError):
                got = None
            if got != want and not (val is None and got is True and False):
                bad.append('%s is %s for text %r' % (norm(c), 'stored' if got else 'skipped', val))
    ok = len(sets) == 2 and not [b_ for b_ in bad if "''" in b_ or "'v'" in b_ or "' '" in b_ or "'  '" in b_ or "' v '" in b_]
    yield Ob('xmlx12_simple:get_segment stores only non-empty text', ok, ctx.floc(gs), '' if ok else 'conditions: %s' % (bad or '%d stores' % len(sets)))
    conv = ctx.func('xmlx12_simple', 'convert')
    # one loop over the document's nodes in document order - all of them with a test for the <seg> tag, or iter('seg') -
    # in which every such node is converted and written
    ok = False
    for lp in [n for n in ast.walk(conv) if isinstance(n, ast.For) and isinstance(n.target, ast.Name)]:
        it = lp.iter
        if not (isinstance(it, ast.Call) and A.call_target(it)[1] == 'iter' and path_of(it.func.value) == 'doc'):
            continue
        var = lp.target.id
        writes = [c for c in A.calls_in(lp) if A.call_target(c) == ('wr', 'Write') and c.args and norm(c.args[0]) == 'get_segment(%s)' % var]
        if len(writes) != 1:
            continue
        st = A.enclosing(writes[0], (ast.stmt,))
        conds = A.path_condition(st, conv)
        if not it.args:
            ok = len(conds) == 1 and conds[0][1] is True and norm(conds[0][0]) in ("%s.tag == 'seg'" % var, "'seg' == %s.tag" % var)
        else:
            ok = A.const(it.args[0]) == 'seg' and not conds
    yield Ob('xmlx12_simple:convert writes every <seg> in document order', ok, ctx.floc(conv), '' if ok else 'conversion loop changed')
    wr = [c for c in A.calls_in(conv) if A.call_target(c)[1] == 'X12Writer']
    ok = len(wr) == 1 and path_of(wr[0].args[0]) == 'fd_out'
    yield Ob('xmlx12_simple:convert writes through X12Writer on the given stream', ok, ctx.floc(conv), '' if ok else 'writer construction changed')


def r5_nesting_from_current_node(ctx):
    """the loop elements around a segment spell the map path of the node it matched: the path is derived afresh from
    that node at every call.  Between calls a writer remembers only the previous path (to know what to close); any
    other per-instance state read or written by seg() would make the nesting depend on earlier segments - loop ids
    are not unique within a map (2300 under 2000B and under 2000C)."""
    for mod, qual in (('x12xml_simple', 'x12xml_simple.seg'), ('x12xml', 'x12xml.seg')):
        fn = ctx.func(mod, qual)
        cls = ctx.cls(mod, qual.split('.')[0])
        methods = set()
        for c_ in guards_chain(ctx, mod, qual.split('.')[0]):
            methods |= {f.name for f in c_.body if isinstance(f, ast.FunctionDef)}
        reads, writes = set(), set()
        for n in ast.walk(fn):
            if isinstance(n, ast.Attribute) and isinstance(n.value, ast.Name) and n.value.id == 'self':
                if isinstance(n.ctx, ast.Store):
                    writes.add(n.attr)
                elif n.attr not in methods and not (isinstance(A.parent(n), ast.Call) and A.parent(n).func is n):
                    reads.add(n.attr)
        extra_r = sorted(reads - {'last_path', 'writer'})
        extra_w = sorted(writes - {'last_path'})
        yield Ob('%s:%s keeps no state between segments but the previous path' % (mod, qual), not extra_r and not extra_w, ctx.floc(fn),
                 '' if not extra_r and not extra_w else 'seg() also %s: the nesting of a segment then depends on the segments written before it'
                 % '; '.join(x for x in ('reads self.%s' % ', self.'.join(extra_r) if extra_r else '', 'stores self.%s' % ', self.'.join(extra_w) if extra_w else '') if x))
        # the path pushed comes from the matched node
        calls = [c for c in A.calls_in(fn) if A.call_target(c)[1] == 'get_path']
        ok = bool(calls)
        yield Ob('%s:%s derives the path from the matched node' % (mod, qual), ok, ctx.floc(fn), '' if ok else 'no get_path() call on the node')


def guards_chain(ctx, mod, clsname):
    from .. import guards
    try:
        return guards.class_chain(ctx, mod, clsname)
    except Exception:
        return [ctx.cls(mod, clsname)]


def r6_prolog_order(ctx):
    """the rendering is well-formed XML for every parameter setting: a DOCTYPE belongs to the prolog - no element may
    have been opened (writer.push / elem / empty) on any path that reaches the writer.doctype(...) call"""
    fn = ctx.func('x12xml', 'x12xml.__init__')
    g = ctx.cfg(fn)

    def calls(nd, meths):
        return any(isinstance(x, ast.Call) and A.call_target(x)[0] == 'self.writer' and A.call_target(x)[1] in meths for x in g.walk_exprs(nd))
    doct = [nd for nd in g.nodes if calls(nd, ('doctype',))]
    opens = [nd for nd in g.nodes if calls(nd, ('push', 'elem', 'empty'))]
    if not doct or not opens:
        raise AnalysisError('x12xml.__init__: doctype / root push not found')
    bad = None
    for o in opens:
        p = g.find_path(o, lambda n: n in doct)
        if p:
            bad = o
    yield Ob('x12xml:x12xml.__init__ DOCTYPE is written before the root element is opened', bad is None, ctx.floc(fn, doct[0].stmt),
             '' if bad is None else 'an element is opened at line %s before the DOCTYPE is written: with a DTD configured the document is not well-formed' % bad.lineno)
    # the root is opened on every path
    p = g.find_path(g.entry, lambda n: n is g.exit, blocked=lambda n: n in opens)
    yield Ob('x12xml:x12xml.__init__ opens the root element on every path', p is None, ctx.floc(fn), '' if p is None else 'the root push can be skipped')


def r7_writer_state_per_instance(ctx):
    """every XML document is written by its own writer: the element stack and the other state of xmlwriter / x12xml /
    x12xml_simple objects live on the instance.  A class-level list or dict that is mutated in place is one object
    for all writers - a second document in the same process starts with the first one's open elements.  C18.R2
    (shared), restricted to the XML modules."""
    from . import c18
    n = 0
    for o in c18.r2_shared_state(ctx):
        if any(o.key.startswith(m + ' ') for m in ('xmlwriter', 'x12xml', 'x12xml_simple', 'xmlx12_simple')):
            n += 1
            yield o
    if n < 3:
        raise AnalysisError('shared-state audit reached only %d objects of the XML modules' % n)


def r8_isa_carries_writer_delimiters(ctx):
    """the X12 written back from XML uses the writer's own delimiters for every composite; the ISA it writes must announce
    exactly those (ISA16, ISA11) whatever the version of the interchange: C11.R4 (shared)"""
    from . import c11
    for o in c11.r4_isa_delims(ctx):
        yield o


def r9_trailers_regenerated_with_true_counts(ctx):
    """the X12 written back regenerates SE/GE/IEA from the writer's counters: they must be the counts the reader compares with (C11.R2, shared)"""
    from . import c11
    for o in c11.r2_counts(ctx):
        yield o


def r10_shared_tokenizer(ctx):
    """the XML holds the segments the tokenizer yields: none is lost, cut or joined at a buffer boundary and only CR / LF
    are stripped in front of a token (C01.R3 / C01.R5, shared) - the round trip can only return what was read."""
    from . import c01
    for fn in (c01.r3_tokenizer_exits, c01.r5_strip_set, c01.r11_reader_iteration):
        for o in fn(ctx):
            yield o

class _XSegNode(object):
    _sa_model = True

    def __init__(self, first):
        self.first = first
        self.id = 'SEG'
        self.usage = 'R'

    def is_segment(self):
        return True

    def is_first_seg_in_loop(self):
        return self.first

    def get_child_count(self):
        return 0

    def __hash__(self):
        return hash(('xsegnode', self.first))


class _XLoop(object):
    _sa_model = True

    def __init__(self, path):
        self.path = path
        self.id = path[-1] if path else None

    def get_path(self):
        return '/' + '/'.join(self.path)

    def __hash__(self):
        return hash(('xloop', tuple(self.path)))


class _XSegData(object):
    _sa_model = True

    def __len__(self):
        return 0

    def get_seg_id(self):
        return 'SEG'

    def __hash__(self):
        return hash('xsegdata')


def r11_loop_elements_spell_the_path(ctx):
    """each segment is nested inside loop elements that spell exactly the map path of the node it matched, a repeated
    loop opening a fresh element: x12xml_simple.seg decided by constant propagation over (path of the previous segment,
    path of this one, first segment of its loop or not).  With c = the number of leading loops the two paths share -
    one less when this segment starts a loop that is still open (its path is the previous path or a beginning of it) -
    the writer closes the previous path's loops beyond c, innermost first, then opens this path's loops beyond c,
    outermost first, each under its own id, and then the segment."""
    import os as _os
    from ..absint import traces, run_function, helper_oracles, NotClosedTest
    fn = ctx.func('x12xml_simple', 'x12xml_simple.seg')
    g = ctx.cfg(fn)
    base = {}
    for mod, cls in (('x12xml', 'x12xml'), ('x12xml_simple', 'x12xml_simple')):
        for nm in ('_path_list', '_get_path_match_idx', '_get_loop_info', '_get_node_id', '_get_seg_info', '_get_comp_info', '_get_ele_info', '_get_subele_info'):
            f_ = ctx.func(mod, cls + '.' + nm, required=False)
            if f_ is not None:
                def call(*a, _f=f_):
                    return run_function(ctx.cfg(_f), _f, [None] + list(a), base)
                base['self.' + nm] = call
    base['commonprefix'] = base['os.path.commonprefix'] = lambda l: _os.path.commonprefix(list(l))
    D5 = ('ISA_LOOP', 'GS_LOOP', 'ST_LOOP', 'DETAIL', '2000A')
    CASES = [((), ('ISA_LOOP',), True), (('ISA_LOOP',), ('ISA_LOOP', 'GS_LOOP'), True), (D5, D5, False), (D5, D5, True),
             (D5 + ('2010AA',), D5, False), (D5 + ('2010AA',), D5, True), (D5 + ('2010AA',), D5[:4] + ('2000B',), True),
             (D5 + ('2010AA',), D5 + ('2010AB',), True), (D5 + ('2300', '2400'), D5[:2], False), (D5, D5[:4] + ('2000B', '2300'), True),
             (D5 + ('2300', '2400'), D5 + ('2300',), True), (D5[:3] + ('HEADER',), D5[:4] + ('2000A',), True)]
    bad = []
    for last, cur, first in CASES:
        funcs = helper_oracles(ctx, 'x12xml_simple', dict(base, pop_to_parent_loop=lambda n, cur=cur: _XLoop(cur)))

        def key(c):
            r, m = A.call_target(c)
            return m if r == 'self.writer' and m in ('push', 'pop') else None
        try:
            res = traces(g, {'self.last_path': tuple(last), 'seg_node': _XSegNode(first), 'seg_data': _XSegData()}, key, funcs)
        except NotClosedTest as e:
            raise AnalysisError('x12xml_simple.seg cannot be decided (previous path %s, path %s): %s' % ('/'.join(last), '/'.join(cur), e))
        c = 0
        while c < min(len(last), len(cur)) and last[c] == cur[c]:
            c += 1
        if first and tuple(last[:len(cur)]) == tuple(cur):
            c = len(cur) - 1
        want = ['pop'] * (len(last) - c) + ['push ' + x for x in cur[c:]] + ['push SEG', 'pop']
        outs = set()
        for tr, e_ in res:
            got = []
            for k_, a_ in tr:
                if k_ == 'pop':
                    got.append('pop')
                else:
                    nm_, at_ = (a_ + (None, None))[:2]
                    ident = dict(at_).get('id') if isinstance(at_, A.FrozenDict) else None
                    got.append('push %s' % (ident if nm_ in ('loop', 'seg') and ident is not None else nm_))
            outs.add((tuple(got), dict(e_).get('self.last_path')))
        if outs != {(tuple(want), tuple(cur))} and len(bad) < 3:
            o_ = sorted(outs, key=repr)[0] if outs else None
            bad.append('after a segment in /%s, a segment %sin /%s: the writer does %s and remembers %s; expected %s and the new path'
                       % ('/'.join(last), 'that starts its loop ' if first else '', '/'.join(cur), list(o_[0]) if o_ else None, o_[1] if o_ else None, want))
    yield Ob('x12xml_simple:x12xml_simple.seg closes and opens exactly the loop elements between the previous path and this one', not bad, ctx.floc(fn),
             '' if not bad else bad[0], note='%d path pairs' % len(CASES))

class _XChild(object):
    _sa_model = True

    def __init__(self, cid, usage, subs=()):
        self.id = cid
        self.usage = usage
        self.subs = tuple(subs)

    def is_composite(self):
        return bool(self.subs)

    def is_element(self):
        return not self.subs

    def get_child_count(self):
        return len(self.subs)

    def get_child_node_by_idx(self, j):
        return self.subs[j]

    def __hash__(self):
        return hash(('xchild', self.id))


class _XVal(object):
    _sa_model = True

    def __init__(self, text, comps=None):
        self.text = text
        self.comps = tuple(_XVal(c) for c in comps) if comps is not None else None

    def is_empty(self):
        return self.text == '' if self.comps is None else all(c.text == '' for c in self.comps)

    def get_value(self):
        return self.text

    def format(self, st=None):
        return self.text

    def __len__(self):
        return len(self.comps) if self.comps is not None else 1

    def __getitem__(self, j):
        return self.comps[j] if self.comps is not None else self

    def __eq__(self, o):
        return (self.text == o) if isinstance(o, str) else (self is o)

    def __hash__(self):
        return hash(('xval', self.text, id(self)))


class _XSeg(object):
    _sa_model = True

    def __init__(self, vals):
        self.vals = vals

    def __len__(self):
        return len(self.vals)

    def get(self, rd):
        i = int(rd[-2:]) - 1
        return self.vals[i] if i < len(self.vals) else None

    def get_value(self, rd):
        v = self.get(rd)
        return None if v is None else v.text

    def get_seg_id(self):
        return 'SEG'

    def __hash__(self):
        return hash('xseg')


class _XSegNode2(_XSegNode):
    def __init__(self, kids):
        _XSegNode.__init__(self, False)
        self.kids = tuple(kids)

    def get_child_count(self):
        return len(self.kids)

    def get_child_node_by_idx(self, i):
        return self.kids[i]


def r12_every_value_under_its_designator(ctx):
    """the XML labels every element and component with its reference designator and leaves out only empty values and
    elements the map marks not used: the element part of x12xml_simple.seg decided by constant propagation on a segment
    SEG*A*X*B::D**E (a simple value, a value in a not-used element, a composite with an empty middle component, an
    empty element, a value beyond the map's last element) against a map node of four children: written are, in order,
    <seg id=SEG>, <ele id=SEG01>A, <comp id=SEG> with <subele id=SEG03-1>B .. for each component the map defines, and
    the closing of composite and segment - nothing for the not-used, the empty and the unmapped position."""
    from ..absint import traces, run_function, helper_oracles, NotClosedTest
    fn = ctx.func('x12xml_simple', 'x12xml_simple.seg')
    g = ctx.cfg(fn)
    base = {}
    for mod, cls in (('x12xml', 'x12xml'), ('x12xml_simple', 'x12xml_simple')):
        for nm in ('_path_list', '_get_path_match_idx', '_get_loop_info', '_get_node_id', '_get_seg_info', '_get_comp_info', '_get_ele_info', '_get_subele_info'):
            f_ = ctx.func(mod, cls + '.' + nm, required=False)
            if f_ is not None:
                def call(*a, _f=f_):
                    return run_function(ctx.cfg(_f), _f, [None] + list(a), base)
                base['self.' + nm] = call
    import os as _os
    base['commonprefix'] = base['os.path.commonprefix'] = lambda l: _os.path.commonprefix(list(l))
    cur = ('ISA_LOOP', 'GS_LOOP', 'ST_LOOP')
    kids = (_XChild('SEG01', 'R'), _XChild('SEG02', 'N'), _XChild('SEG03', 'S', (_XChild('SEG03-1', 'R'), _XChild('SEG03-2', 'S'), _XChild('SEG03-3', 'S'))), _XChild('SEG04', 'S'))
    seg = _XSeg((_XVal('A'), _XVal('X'), _XVal('B::D', ('B', '', 'D')), _XVal(''), _XVal('E')))
    funcs = helper_oracles(ctx, 'x12xml_simple', dict(base, pop_to_parent_loop=lambda n: _XLoop(cur)))

    def key(c):
        r, m = A.call_target(c)
        return m if r == 'self.writer' and m in ('push', 'pop', 'elem', 'empty') else None
    try:
        res = traces(g, {'self.last_path': cur, 'seg_node': _XSegNode2(kids), 'seg_data': seg}, key, funcs)
    except NotClosedTest as e:
        raise AnalysisError('x12xml_simple.seg cannot be decided for the element part: %s' % e)

    def show(tr):
        out = []
        for k_, a_ in tr:
            if k_ == 'pop':
                out.append('pop')
            elif k_ == 'push':
                out.append('push %s id=%s' % (a_[0], dict(a_[1]).get('id') if len(a_) > 1 and isinstance(a_[1], A.FrozenDict) else '?'))
            else:
                v_ = a_[1].text if len(a_) > 1 and isinstance(a_[1], _XVal) else (a_[1] if len(a_) > 1 else '?')
                out.append('%s %s id=%s value=%r' % (k_, a_[0], dict(a_[2]).get('id') if len(a_) > 2 and isinstance(a_[2], A.FrozenDict) else '?', v_))
        return out
    want = ['push seg id=SEG', "elem ele id=SEG01 value='A'", 'push comp id=SEG', "elem subele id=SEG03-1 value='B'", "elem subele id=SEG03-2 value=''",
            "elem subele id=SEG03-3 value='D'", 'pop', 'pop']
    # (an empty component may be written empty or left out: it reads back the same)
    want = [w for w in want if not w.endswith("value=''")]
    outs = {tuple(x for x in show(tr) if not x.endswith("value=''")) for tr, _e in res}
    ok = outs == {tuple(want)}
    yield Ob('x12xml_simple:x12xml_simple.seg writes every used, non-empty value under its own designator', ok, ctx.floc(fn),
             '' if ok else 'SEG*A*X*B::D**E against a node of four children (second not used, third a composite) is written as %s, expected %s'
             % (sorted(outs)[0] if outs else None, want))


def r13_shared_set(ctx):
    """the way back from XML stores each value with Segment.set at its designator and relies on it to pad the positions in
    between (empty elements and components are not written to the XML): the named element / component changes, every
    other keeps its value, ANY number of missing positions is padded.  C10.R8 (shared)."""
    from . import c10
    for o in c10.r8_set_changes_one_value(ctx):
        yield o


RULES = [
    Rule('C08.R1', 'XML vocabulary agreement writer<->reader; every element id designates its own position', r1_vocabulary, floor=11000),
    Rule('C08.R2', 'content/attribute escaping: & first, <, quote char; every value passes its escape', r2_escaping, floor=9),
    Rule('C08.R3', 'segment/composite push-pop balance (post-dominance)', r3_balance, floor=4),
    Rule('C08.R4', 'same emptiness predicate on both sides; every <seg> converted in order', r4_empty_agreement, floor=3),
    Rule('C08.R5', 'loop nesting is derived from the matched node at every call; no other state between segments', r5_nesting_from_current_node, floor=3),
    Rule('C08.R9', 'shared with C11.R2: regenerated trailer counts are the true counts', r9_trailers_regenerated_with_true_counts, floor=10),
    Rule('C08.R8', 'shared with C11.R4: the ISA written back carries the writer\'s separators', r8_isa_carries_writer_delimiters, floor=1),
    Rule('C08.R7', 'shared with C18.R2: XML writer state is per instance (no mutated class/module-level object)', r7_writer_state_per_instance, floor=3),
    Rule('C08.R10', 'shared with C01.R3/R5: the tokenizer loses or damages no segment at a buffer boundary', r10_shared_tokenizer, floor=6),
    Rule('C08.R11', 'x12xml_simple.seg: loop elements closed / opened between consecutive segments spell the map path (constant propagation over path pairs)', r11_loop_elements_spell_the_path, floor=1),
    Rule('C08.R12', 'x12xml_simple.seg: every used, non-empty element / component written under its designator, in order (constant propagation)', r12_every_value_under_its_designator, floor=1),
    Rule('C08.R13', 'shared with C10.R8: Segment.set stores at exactly the designated position and pads every gap', r13_shared_set, floor=1),
    Rule('C08.R6', 'DOCTYPE precedes the root element; the root is always opened', r6_prolog_order, floor=2),
]
