"""C17 Reference-designator and path addressing is consistent."""
import ast
import itertools
import re

from ..core import Ob, Rule, AnalysisError, norm, KeyMaker
from ..cfg import path_of, must_facts, has
from .. import astutil as A
from .. import rxdfa
from . import datarules as D

META = {
    'explanation': (
        'R1 X12Path.rec_path (assembled from the class constants by finite evaluation) and segment.rec_seg_id are '
        'compared by DFA equivalence with the documented grammar of the last path component / of a segment id '
        '(strings without line breaks; `$` also matches before a final newline, which is outside the quantifier). '
        'R2 printer/parser agreement: format_refdes prints the element index with two zero-padded digits, the '
        'component index unpadded after a hyphen, the qualifier in brackets directly after the segment id, in the '
        'order the regex reads them; every printed form parses back (checked over the finite domain of parts); '
        '__repr__ inserts "/" exactly where __init__ splits. R3 refusals: the two X12PathError conditions, evaluated '
        'over all 32 combinations of present/absent parts, equal "qualifier without segment id" and "index without '
        'segment id after loop ids"; _parse_refdes raises EngineError on a foreign segment id before any index is '
        'used. R4 pad before store: every store into self.elements[i] / [i][j] in Segment.set is dominated by the '
        'padding loop on the same container and index, and get tests each index against the length before subscripting. R5 the path component of every '
        'segment node of every indexed map parses under rec_path into exactly (segment id, qualifier), and no loop id '
        'parses as a segment designator.'),
    'not_decided': 'equality of parse(print(p)) on run-time values beyond the finite part domain; sequences of set/get',
    'trusted_base': ['sa/rxdfa.py', 'documented path grammar transcribed in sa/rules/c17.py'],
    'technique': 'static analysis: regex-constant DFA equivalence, finite evaluation of formatting expressions, dominance on the CFG, data sweep',
}


META['explanation'] += ' Rounds 4-5: ' + 'R3 refusals decided by constant propagation through X12Path.__init__ for all part combinations (compiled regex applied to the constant component). R4 also: the index test measures the container that is subscripted. R6 reading methods do not modify the object. R7 (= C01.R8).'
META['technique'] = META.get('technique', 'static analysis: AST/CFG rules over /repo source + shipped XML data') + '; conditional constant propagation over the CFG on finite, complete input domains (DESIGN.md 10.4.1)'

REF_PATH = r'([A-Z][A-Z0-9]{1,2})?(\[[A-Z0-9]+\])?([0-9]{2})?(-[0-9]+)?'
REF_SEGID = r'[A-Z][A-Z0-9]{1,2}'


def _rec_path(ctx):
    cls = ctx.cls('path', 'X12Path')
    env = {'re.S': re.S, 're.ASCII': re.ASCII, 're.DOTALL': re.S}
    pat = flags = node = None
    for s in cls.body:
        if isinstance(s, ast.Assign) and isinstance(s.targets[0], ast.Name):
            v = s.value
            if isinstance(v, ast.Call) and path_of(v.func) == 're.compile':
                try:
                    pat = A.ev(v.args[0], env)
                    flags = A.ev(v.args[1], env) if len(v.args) > 1 else 0
                except A.NotClosed as e:
                    raise AnalysisError('X12Path.rec_path not closed: %s' % e)
                node = s
            else:
                try:
                    env[s.targets[0].id] = A.ev(v, env)
                except A.NotClosed:
                    pass
    if pat is None:
        raise AnalysisError('X12Path.rec_path vanished')
    return pat, int(flags), node


def _strip_groups(p):
    return re.sub(r'\(\?P<[a-z_]+>', '(', p)


def r1_languages(ctx):
    pat, flags, node = _rec_path(ctx)
    try:
        nfa = rxdfa.compile_nfa(pat, flags)
        res = rxdfa.compare(pat, flags, REF_PATH, re.S, exclude=(10, 13))
    except rxdfa.Unsupported as e:
        raise AnalysisError('rec_path: unsupported construct %s' % e)
    ok = bool(nfa.anch_start) and bool(nfa.anch_end)
    yield Ob('path:X12Path.rec_path anchored at both ends', ok, ctx.loc('path', node), '' if ok else 'pattern %r is used with search() and must be anchored' % pat)
    oa, ob = res['only_a'], res['only_b']
    msg = ''
    if oa is not None:
        msg += 'accepts %r, not a designator of the documented grammar; ' % oa
    if ob is not None:
        msg += 'rejects %r, a designator of the documented grammar' % ob
    yield Ob('path:X12Path.rec_path language', oa is None and ob is None, ctx.loc('path', node), msg,
             detail={'pattern': pat, 'reference': REF_PATH, 'dfa_states': res['states']})
    # the four named groups exist in the order seg_id, id_val, ele_idx, subele_idx
    names = re.findall(r'\(\?P<([a-z_]+)>', pat)
    ok = names == ['seg_id', 'id_val', 'ele_idx', 'subele_idx']
    yield Ob('path:X12Path.rec_path named groups', ok, ctx.loc('path', node), '' if ok else 'groups %s' % names)
    # rec_seg_id
    m = ctx.mod('segment')
    found = None
    for s in m.tree.body:
        if isinstance(s, ast.Assign) and path_of(s.targets[0]) == 'rec_seg_id' and isinstance(s.value, ast.Call):
            found = s
    if found is None:
        raise AnalysisError('segment.rec_seg_id vanished')
    p2 = A.const(found.value.args[0])
    f2 = A.ev(found.value.args[1], {'re.S': re.S, 're.ASCII': re.ASCII}) if len(found.value.args) > 1 else 0
    res = rxdfa.compare(p2, int(f2), REF_SEGID, re.S, exclude=(10, 13))
    n2 = rxdfa.compile_nfa(p2, int(f2))
    ok = res['only_a'] is None and res['only_b'] is None and n2.anch_start and n2.anch_end
    yield Ob('segment.rec_seg_id language', bool(ok), ctx.loc('segment', found),
             '' if ok else 'differs from letter + 1..2 letters/digits: accepts-only %r rejects-only %r' % (res['only_a'], res['only_b']))
    # is_seg_id_valid uses it with search and the length window
    fn = ctx.func('segment', 'Segment.is_seg_id_valid')
    ok = any(A.call_target(c) == ('rec_seg_id', 'search') or A.call_target(c) == ('rec_seg_id', 'match') for c in A.calls_in(fn))
    yield Ob('segment:Segment.is_seg_id_valid applies rec_seg_id', ok, ctx.floc(fn), '' if ok else 'rec_seg_id no longer used')


def r2_print_parse(ctx):
    pat, flags, node = _rec_path(ctx)
    rx = None
    fn = ctx.func('path', 'X12Path.format_refdes')
    # the text printed for every combination of parts, by constant propagation through the function, is parsed back
    # with the reference grammar (whatever the order and nesting of the printing statements)
    from ..absint import explore
    g = ctx.cfg(fn)
    import re as _re
    ref = _re.compile('^(?P<seg_id>[A-Z][A-Z0-9]{1,2})?(\\[(?P<id_val>[A-Z0-9]+)\\])?(?P<ele_idx>[0-9]{2})?(-(?P<subele_idx>[0-9]+))?$')

    def printed(seg, idv, ele, sub):
        env = {'self.seg_id': seg, 'self.id_val': idv, 'self.ele_idx': ele, 'self.subele_idx': sub}
        outs = []

        def on_node(nd, e):
            if nd.kind == 'return' and nd.ast.value is not None:
                try:
                    outs.append(A.ev(nd.ast.value, e))
                except A.NotClosed as ex:
                    raise AnalysisError('format_refdes: returned expression not closed: %s' % ex)

        def unk(nd, e):
            raise AnalysisError('format_refdes: test not closed: %s' % norm(nd.ast))
        explore(g, env, on_node=on_node, on_unknown=unk)
        if len(set(outs)) != 1:
            raise AnalysisError('format_refdes: %d results for one combination of parts' % len(set(outs)))
        return outs[0]
    bad = []
    nest = []
    n = 0
    for seg, idv, ele, sub in itertools.product((None, 'NM1', 'N4'), (None, '1W', 'A'), (None, 1, 9, 10, 99), (None, 1, 2, 12)):
        out = printed(seg, idv, ele, sub)
        n += 1
        if (idv is not None and seg is None) or (sub is not None and ele is None):
            # a qualifier needs a segment id, a component needs an element index: the orphan part is not printed
            want = printed(seg, idv if seg is not None else None, ele, sub if ele is not None else None)
            if out != want:
                nest.append('%s prints %r' % ((seg, idv, ele, sub), out))
            continue
        m = ref.match(out)
        back = None
        if m:
            back = (m.group('seg_id'), m.group('id_val'), int(m.group('ele_idx')) if m.group('ele_idx') else None,
                    int(m.group('subele_idx')) if m.group('subele_idx') else None)
        if back != (seg, idv, ele, sub):
            bad.append('%s prints %r which parses as %s' % ((seg, idv, ele, sub), out, back))
    yield Ob('path:X12Path.format_refdes prints parts in the order the regex reads them', not bad, ctx.floc(fn), '' if not bad else bad[0])
    yield Ob('path:X12Path.format_refdes qualifier needs a segment id, component needs an element index', not nest, ctx.floc(fn),
             '' if not nest else nest[0])
    yield Ob('path:X12Path.format_refdes print/parse agreement over the part domain', not bad, ctx.floc(fn),
             '' if not bad else bad[0], detail={'evaluated': n, 'counterexamples': bad[:5]})
    # __repr__ against the way __init__ reads a path (what __init__ makes of every text is decided in R3)
    rp = ctx.func('path', 'X12Path.__repr__')
    # the text printed for (absolute?, loops, designator) - by constant propagation - is split again the way
    # __init__ reads a path: leading "/" = absolute, items separated by "/", a trailing designator item
    g_rp = ctx.cfg(rp)

    def shown(rel, loops, seg, rd):
        outs = []

        def on_node(nd, e):
            if nd.kind == 'return' and nd.ast.value is not None:
                try:
                    outs.append(A.ev(nd.ast.value, e, {'self.format_refdes': lambda: rd}))
                except A.NotClosed as ex:
                    raise AnalysisError('X12Path.__repr__: returned expression not closed: %s' % ex)

        def unk(nd, e):
            raise AnalysisError('X12Path.__repr__: test not closed: %s' % norm(nd.ast))
        explore(g_rp, {'self.relative': rel, 'self.loop_list': loops, 'self.seg_id': seg, 'self.ele_idx': None if seg else (2 if rd else None)},
                funcs={'self.format_refdes': lambda: rd}, on_node=on_node, on_unknown=unk)
        if len(set(outs)) != 1:
            raise AnalysisError('X12Path.__repr__: %d results for one path' % len(set(outs)))
        return outs[0]
    bad_abs, bad_loops = [], []
    for rel, loops, (seg, rd) in itertools.product((True, False), ((), ('2000A',), ('2000A', '2300'), ('B',), ('2',), ('B', '2')), ((None, ''), ('NM1', 'NM1'), ('NM1', 'NM1[85]02'), (None, '02'))):
        if seg is None and rd and loops:
            continue      # refused by __init__
        text = shown(rel, loops, seg, rd)
        is_abs = text.startswith('/')
        items = [x for x in (text[1:] if is_abs else text).split('/')]
        back_rd = ''
        if items and items[-1] == rd and rd:
            back_rd = items.pop()
        if items == ['']:
            items = []
        if is_abs != (not rel):
            bad_abs.append('relative=%s loops=%s designator=%r prints %r' % (rel, list(loops), rd, text))
        if tuple(items) != loops or back_rd != rd:
            bad_loops.append('relative=%s loops=%s designator=%r prints %r' % (rel, list(loops), rd, text))
    yield Ob('path:X12Path.__repr__ joins the loops with "/"', not bad_loops, ctx.floc(rp), '' if not bad_loops else bad_loops[0])
    yield Ob('path:X12Path.__repr__ leading "/" iff absolute', not bad_abs, ctx.floc(rp), '' if not bad_abs else bad_abs[0])
    ok = any(c for c in A.calls_in(rp) if A.call_target(c) == ('self', 'format_refdes'))
    yield Ob('path:X12Path.__repr__ appends the designator', ok, ctx.floc(rp), '' if ok else 'format_refdes not used')



def parse_path_fields(ctx, text):
    """the fields X12Path.__init__ leaves on the object for the path `text`, by constant propagation through the
    constructor (None when it refuses the path)"""
    from ..absint import explore
    init = ctx.func('path', 'X12Path.__init__')
    pat, flags, _node = _rec_path(ctx)
    rx = re.compile(pat, flags)
    funcs = {'X12Path.rec_path.search': lambda t: rx.search(t), 'self.rec_path.search': lambda t: rx.search(t), 'rec_path.search': lambda t: rx.search(t),
             'X12Path.rec_path.match': lambda t: rx.match(t), 'self.rec_path.match': lambda t: rx.match(t)}
    g = ctx.cfg(init)
    finals, hit = [], []

    def on_node(nd, env):
        if nd.kind == 'raise':
            hit.append(nd)
        if nd is g.exit:
            finals.append({k: v for k, v in env.items() if k.startswith('self.')})

    def unk(nd, env):
        raise AnalysisError('X12Path.__init__: a test cannot be decided for the path %r: %s' % (text, norm(nd.ast)))
    explore(g, {'path_str': text}, funcs=funcs, on_node=on_node, on_unknown=unk)
    if hit:
        return None
    if len(finals) != 1:
        raise AnalysisError('X12Path.__init__: %d outcomes for the path %r' % (len(finals), text))
    return finals[0]


def r3_refusals(ctx):
    init = ctx.func('path', 'X12Path.__init__')
    # which path texts the constructor refuses, decided by constant propagation through it for every combination of parts
    # (segment id, qualifier, element index, component index, 0-2 loop ids, absolute/relative); the compiled path regex
    # is applied to the constant last component as the constant function it is
    from ..absint import explore
    pat, flags, _node = _rec_path(ctx)
    rx = re.compile(pat, flags)
    oracle = lambda t: rx.search(t)
    funcs = {'X12Path.rec_path.search': oracle, 'self.rec_path.search': oracle, 'rec_path.search': oracle,
             'X12Path.rec_path.match': lambda t: rx.match(t), 'self.rec_path.match': lambda t: rx.match(t)}
    g = ctx.cfg(init)
    rnodes = [nd for nd in g.nodes if nd.kind == 'raise']
    classes = set()
    for nd in rnodes:
        exc = nd.ast.exc
        cls = path_of(exc.func) if isinstance(exc, ast.Call) else path_of(exc)
        classes.add((cls or '?').split('.')[-1])
    ok = bool(rnodes) and classes == {'X12PathError'}
    yield Ob('path:X12Path.__init__ has the two X12PathError refusals', ok, ctx.floc(init), '' if ok else 'raises: %s' % sorted(classes))
    if not ok:
        return
    bad = []
    badparts = []
    n = 0
    for seg, idv, ele, sub, nl, absolute in itertools.product((None, 'NM1'), (None, '1W'), (None, 1), (None, 2), (0, 1, 2, 3), (True, False)):
        comp = (seg or '') + ('[%s]' % idv if idv else '') + ('%02d' % ele if ele else '') + ('-%d' % sub if sub else '')
        # (loop ids may look like segment ids - the 997 has loops AK2, AK3 - and may recur)
        loops = [['2000A'], ['2000A', '2300'], ['NM1', '2000A']][nl - 1] if 0 < nl < 4 else []
        parts = list(loops) + ([comp] if comp else [])
        text = ('/' if absolute else '') + '/'.join(parts)
        hit = []
        finals = []

        def on_node(nd, env):
            if nd.kind == 'raise':
                hit.append(nd)
            if nd is g.exit:
                finals.append({k: env.get(k) for k in ('self.loop_list', 'self.seg_id', 'self.id_val', 'self.ele_idx', 'self.subele_idx', 'self.relative')})

        def unk(nd, env):
            raise AnalysisError('X12Path.__init__: a test cannot be decided for the path %r: %s' % (text, norm(nd.ast)))
        try:
            explore(g, {'path_str': text}, funcs=funcs, on_node=on_node, on_unknown=unk)
        except RuntimeError as e:
            raise AnalysisError('X12Path.__init__: %s' % e)
        got = bool(hit)
        want = (seg is None and idv is not None) or (seg is None and (ele is not None or sub is not None) and nl > 0)
        n += 1
        if not want and not got and text not in ('', '/'):
            wantp = {'self.loop_list': tuple(loops), 'self.seg_id': seg, 'self.id_val': idv, 'self.ele_idx': ele, 'self.subele_idx': sub,
                     'self.relative': not absolute}
            for fin in finals:
                if fin != wantp and len(badparts) < 3:
                    badparts.append('%r parses into loops %s, segment %r[%r] element %r component %r (relative=%r); written: loops %s, segment %r[%r] element %r component %r'
                                    % (text, list(fin['self.loop_list'] or ()), fin['self.seg_id'], fin['self.id_val'], fin['self.ele_idx'], fin['self.subele_idx'],
                                       fin['self.relative'], loops, seg, idv, ele, sub))
        if got != want:
            bad.append('%r (seg_id=%r qualifier=%r element=%r component=%r loops=%d): %s' % (text, seg, idv, ele, sub, nl, 'refused' if got else 'accepted'))
    yield Ob('path:X12Path.__init__ refusal conditions over all part combinations', not bad, ctx.floc(init),
             '' if not bad else bad[0], detail={'evaluated': n, 'counterexamples': bad[:5]})
    yield Ob('path:X12Path.__init__ parsing yields exactly the parts written', not badparts, ctx.floc(init), '' if not badparts else badparts[0])
    # _parse_refdes
    fn = ctx.func('segment', 'Segment._parse_refdes')
    g = ctx.cfg(fn)
    dom = g.dominators()
    rs = [nd for nd in g.nodes if nd.kind == 'raise']
    ok = len(rs) == 1
    cond_ok = False
    for n in ast.walk(fn):
        if isinstance(n, ast.If) and any(isinstance(s, ast.Raise) for s in n.body):
            bad = []
            for xs, ss in itertools.product((None, 'NM1', 'REF'), ('NM1', 'REF')):
                got = bool(A.ev(n.test, {'xp.seg_id': xs, 'self.seg_id': ss}))
                if got != (xs is not None and xs != ss):
                    bad.append((xs, ss))
            cond_ok = not bad
            cls = path_of(n.body[-1].exc.func) if isinstance(n.body[-1], ast.Raise) and isinstance(n.body[-1].exc, ast.Call) else ''
            ok = ok and (cls or '').endswith('EngineError')
    yield Ob('segment:Segment._parse_refdes refuses a designator naming another segment', ok and cond_ok, ctx.floc(fn),
             '' if ok and cond_ok else 'refusal condition or exception class changed')
    # the test precedes any use of the indices
    uses = [nd for nd in g.nodes if nd.kind in ('stmt', 'return') and any(norm(x) in ('xp.ele_idx', 'xp.subele_idx') for x in g.walk_exprs(nd))]
    tests = [nd for nd in g.nodes if nd.kind == 'test' and 'xp.seg_id' in norm(nd.ast)]
    ok = bool(tests) and all(any(t.id in dom[u.id] for t in tests) for u in uses)
    yield Ob('segment:Segment._parse_refdes checks the segment id before using an index', ok, ctx.floc(fn), '' if ok else 'index used before the segment-id test')
    # no result leaves the function without the test (an early return - a cached answer, a shortcut - would accept a
    # designator that names another segment)
    rets = [nd for nd in g.nodes if nd.kind == 'return']
    late = [r for r in rets if not any(t.id in dom[r.id] for t in tests)]
    yield Ob('segment:Segment._parse_refdes every result is preceded by the segment-id test', bool(rets) and not late, ctx.floc(fn, late[0].ast if late else fn),
             '' if rets and not late else 'a return is reached without comparing the designator\'s segment id with this segment\'s: `%s`'
             % (norm(late[0].ast) if late else 'no return'))


def r4_pad_before_store(ctx):
    fn = ctx.func('segment', 'Segment.set')
    # fillers must be distinct objects: no list multiplication of a mutable element anywhere in segment.py / x12context.py
    for modname in ('segment', 'x12context'):
        m = ctx.mod(modname)
        hits = []
        for n_ in ast.walk(m.tree):
            if isinstance(n_, ast.BinOp) and isinstance(n_.op, ast.Mult):
                for side in (n_.left, n_.right):
                    if isinstance(side, ast.List) and any(isinstance(e_, (ast.Call, ast.List, ast.Dict, ast.Set)) for e_ in side.elts):
                        hits.append(n_)
        yield Ob('%s: no list multiplication of a mutable element' % modname, not hits, ctx.loc(m, hits[0]) if hits else m.relpath,
                 '' if not hits else '`%s` puts one shared object into every slot: writing a component into one slot changes the others' % norm(hits[0]))
    g = ctx.cfg(fn)
    dom = g.dominators()
    # padding loops: `while <test>: X.append(...)` where the loop can only be left with len(X) > idx
    # (the test is evaluated over lengths and indices 0..6, so `<= i`, `< i + 1`, `not len(X) > i` are all accepted)
    pads = {}
    other_growth = []
    for nd in g.nodes:
        if nd.kind == 'test' and isinstance(nd.stmt, ast.While):
            apps = [c for s_ in nd.stmt.body for c in A.calls_in(s_) if A.call_target(c)[1] == 'append']
            if not apps:
                continue
            cont = norm(apps[0].func.value)
            lens = [x for x in ast.walk(nd.stmt.test) if isinstance(x, ast.Call) and path_of(x.func) == 'len' and x.args and norm(x.args[0]).startswith(cont.split('.elements')[0])]
            if not lens:
                continue
            measured = norm(lens[0].args[0])
            import copy
            test2 = copy.deepcopy(nd.stmt.test)
            for par in ast.walk(test2):
                for fld, val in ast.iter_fields(par):
                    if isinstance(val, ast.Call) and path_of(val.func) == 'len' and val.args and norm(val.args[0]) == measured:
                        setattr(par, fld, ast.Name(id='__len', ctx=ast.Load()))
                    elif isinstance(val, list):
                        for k_, v_ in enumerate(val):
                            if isinstance(v_, ast.Call) and path_of(v_.func) == 'len' and v_.args and norm(v_.args[0]) == measured:
                                val[k_] = ast.Name(id='__len', ctx=ast.Load())
            idxs = sorted(A.free_paths(test2) - {'__len'})
            if len(idxs) != 1:
                continue
            idx = idxs[0]
            ok_exit = True
            try:
                for L in range(0, 7):
                    for i in range(0, 7):
                        stay = bool(A.ev(test2, {'__len': L, idx: i}))
                        if not stay and not L > i:
                            ok_exit = False
            except A.NotClosed:
                continue
            pads[(measured if measured == cont or cont.startswith(measured) else cont, idx)] = (nd, ok_exit)
    for nd in g.nodes:
        for x in g.walk_exprs(nd):
            if isinstance(x, ast.Call) and A.call_target(x)[1] in ('extend', 'insert') and 'elements' in norm(x.func.value):
                other_growth.append(x)
    stores = []
    for nd in g.nodes:
        if nd.kind == 'stmt' and isinstance(nd.ast, ast.Assign):
            t = nd.ast.targets[0]
            if isinstance(t, ast.Subscript) and norm(t.value).startswith('self.elements'):
                stores.append((nd, norm(t.value), norm(t.slice)))
    if len(stores) < 3:
        raise AnalysisError('Segment.set: element stores not found')
    if not pads and other_growth:
        raise AnalysisError('Segment.set: the padding code is not the recognised `while len(X) <= i: X.append(..)` idiom (%s); cannot decide pad-before-store' % norm(other_growth[0]))

    def pad_for(cont, idx):
        for (c, i), v in pads.items():
            if i == idx and (c == cont or c.replace('.elements', '') == cont or cont.replace('.elements', '') == c):
                return v
        return None
    for nd, cont, idx in stores:
        pad = pad_for(cont, idx)
        if pad is None and any(norm(x.func.value) == cont for x in other_growth):
            raise AnalysisError('Segment.set: %s is grown by `%s`, not by the recognised `while len(X) <= i: X.append(..)` idiom; '
                                'cannot decide pad-before-store for this store' % (cont, norm([x for x in other_growth if norm(x.func.value) == cont][0])))
        ok = pad is not None and pad[0].id in dom[nd.id] and pad[1]
        why = ''
        if pad is None or pad[0].id not in dom[nd.id]:
            why = 'no dominating padding loop on %s for index %s: IndexError (or a silent misplacement) for a short segment' % (cont, idx)
        elif not pad[1]:
            why = 'the padding loop `%s` can end with len(%s) <= %s: the store then fails or hits the wrong slot' % (norm(pad[0].ast), cont, idx)
        yield Ob('segment:Segment.set store %s[%s] after padding' % (cont, idx), ok, ctx.floc(fn, nd.ast), why)
        if cont != 'self.elements':
            pad0 = pad_for('self.elements', 'ele_idx')
            ok = pad0 is not None and pad0[0].id in dom[nd.id]
            yield Ob('segment:Segment.set component store after the element exists', ok, ctx.floc(fn, nd.ast), '' if ok else 'element padding does not dominate')
    # (a designator without element index -- set('NM1', v) -- is outside the property's quantifier: not armed;
    #  today it raises TypeError in the padding loop, recorded in DESIGN.md as an observation)
    # get: index tests before subscripting
    fn = ctx.func('segment', 'Segment.get')
    g = ctx.cfg(fn)
    IN = must_facts(g)
    dom = g.dominators()
    subs = []
    for nd in g.nodes:
        for x in g.walk_exprs(nd):
            if isinstance(x, ast.Subscript) and isinstance(x.ctx, ast.Load) and norm(x.value).startswith('self.elements'):
                subs.append((nd, x))
    if not subs:
        raise AnalysisError('Segment.get: subscripts not found')
    seg_len = ctx.func('segment', 'Segment.__len__')
    lr = [r_ for r_ in ast.walk(seg_len) if isinstance(r_, ast.Return)]
    self_measures = None
    if len(lr) == 1 and isinstance(lr[0].value, ast.Call) and path_of(lr[0].value.func) == 'len' and lr[0].value.args:
        self_measures = norm(lr[0].value.args[0])

    def measured(e):
        """the container whose length the expression is, or None"""
        c = None
        if isinstance(e, ast.Call) and path_of(e.func) == 'len' and len(e.args) == 1:
            c = norm(e.args[0])
        elif isinstance(e, ast.Call) and isinstance(e.func, ast.Attribute) and e.func.attr == '__len__' and not e.args:
            c = norm(e.func.value)
        if c == 'self':
            c = self_measures
        return c
    for nd, x in subs:
        idx = norm(x.slice)
        cont = norm(x.value)
        guarded = False
        wrong = None
        for d in dom[nd.id]:
            t = g.nodes[d]
            if t.kind == 'test' and isinstance(t.ast, ast.Compare) and norm(t.ast.left) == idx and isinstance(t.ast.ops[0], ast.GtE):
                # `idx >= len` test whose T branch returns: we must be on the F side
                if any(l == 'F' and (s.id in dom[nd.id] or s.id == nd.id) for s, l in t.succ):
                    mc = measured(t.ast.comparators[0])
                    if mc is None or mc == cont:
                        guarded = True
                    else:
                        wrong = 'the index %s into %s is tested against the length of %s' % (idx, cont, mc)
        yield Ob('segment:Segment.get %s[%s] tested against the length' % (cont, idx), guarded, ctx.floc(fn, x),
                 '' if guarded else (wrong + ': a position that exists reads as None, one that does not raises IndexError' if wrong else
                                     'subscript without a dominating `%s >= length -> return None` test' % idx))


WRITERS = {'__init__', 'set', 'append', 'set_value', '__setitem__', 'set_seg_term', 'set_ele_term', 'set_subele_term'}
MUTATORS = {'append', 'extend', 'insert', 'pop', 'remove', 'clear', 'sort', 'reverse', 'update', 'setdefault', 'popitem'}


def r6_reads_do_not_write(ctx):
    """reading leaves every position unchanged: outside the writing methods (__init__, set, append, set_value, __setitem__,
    set_*_term) no method of Element / Composite / Segment stores into an attribute of the object, deletes from or
    mutates a container it holds - neither directly nor through a local that is just another name for that container
    (`elements = self.elements; del elements[-1]` shortens the object while it is being formatted)"""
    km = KeyMaker()
    n = 0
    for cname in ('Element', 'Composite', 'Segment'):
        cls = ctx.cls('segment', cname)
        for f in cls.body:
            if not isinstance(f, ast.FunctionDef) or f.name in WRITERS:
                continue
            f = ctx.func('segment', cname + '.' + f.name)
            n += 1
            # locals that are another name for a container of the object (bound to self.X / self.X[i] without a copy)
            alias = {}
            for st in ast.walk(f):
                if isinstance(st, ast.Assign) and len(st.targets) == 1 and isinstance(st.targets[0], ast.Name):
                    v = st.value
                    base = v
                    while isinstance(base, ast.Subscript) and not isinstance(base.slice, ast.Slice):
                        base = base.value
                    if isinstance(base, ast.Attribute) and (path_of(base) or '').startswith('self.') and (v is base or isinstance(v, ast.Subscript)):
                        alias[st.targets[0].id] = norm(v)

            def owned(e):
                p = path_of(e)
                if p and p.startswith('self.'):
                    return p
                if isinstance(e, ast.Name) and e.id in alias:
                    return '%s (= %s)' % (e.id, alias[e.id])
                if isinstance(e, ast.Subscript) and not isinstance(e.slice, ast.Slice):
                    return owned(e.value)
                return None
            bad = None
            for x in ast.walk(f):
                tgts = []
                if isinstance(x, ast.Assign):
                    tgts = x.targets
                elif isinstance(x, ast.AugAssign):
                    tgts = [x.target]
                elif isinstance(x, ast.Delete):
                    tgts = x.targets
                for t in tgts:
                    if isinstance(t, (ast.Attribute, ast.Subscript)):
                        o = owned(t.value) if isinstance(t, ast.Subscript) else (path_of(t) if (path_of(t) or '').startswith('self.') else owned(t.value))
                        if o:
                            bad = bad or (x, 'stores into %s' % o)
                if isinstance(x, ast.Call) and isinstance(x.func, ast.Attribute) and x.func.attr in MUTATORS:
                    o = owned(x.func.value)
                    if o:
                        bad = bad or (x, 'calls %s() on %s' % (x.func.attr, o))
            yield Ob(km('segment:%s.%s does not change the object' % (cname, f.name)), bad is None, ctx.floc(f, bad[0] if bad else f),
                     '' if bad is None else 'a reading method %s (`%s`): the segment is different after it has been read or formatted' % (bad[1], norm(bad[0], 70)))
    if n < 30:
        raise AnalysisError('segment.py: only %d reading methods found' % n)


def r7_shared_format(ctx):
    """a value written at a designator is read back through format / get_value: both print every position up to the last
    non-empty one (C01.R8, shared)"""
    from . import c01
    for o in c01.r8_format_keeps_values(ctx):
        yield o


class _Pos(object):
    """one element / component position: knows whether it is empty, and which object it is"""
    _sa_model = True
    serial = [0]

    def __init__(self, text, sep=None):
        _Pos.serial[0] += 1
        self.n = _Pos.serial[0]
        self.text = text
        self.sep = sep

    def is_empty(self):
        return self.text == ''

    def get_value(self):
        return self.text

    def format(self, st=None):
        return self.text

    def __len__(self):
        return 1

    def __hash__(self):
        return hash(('pos', self.n))

    def __eq__(self, o):
        return self is o


def r8_positions(ctx):
    """a segment holds one object per element position, and says how many it holds: (a) len() of a Segment / Composite
    is the number of positions, trailing empty ones included - it is what set() pads against and what the syntax notes
    and the too-many-elements check count; (b) Segment.__init__ builds a separate Composite for every element of the
    text, empty ones included, each from its own text and with the component separator (the element separator for the
    ISA) - two positions that are one object change together when one of them is set.  Decided by constant propagation."""
    from ..absint import run_function, explore, helper_oracles, NotClosedTest
    hf = helper_oracles(ctx, 'segment')
    for cname in ('Segment', 'Composite'):
        fn = ctx.func('segment', cname + '.__len__')
        bad = []
        for vals in ((), ('A',), ('A', ''), ('', ''), ('A', '', 'B', '', ''), ('',)):
            try:
                got = run_function(ctx.cfg(fn), fn, [None], hf, env={'self.elements': tuple(_Pos(v) for v in vals), 'self.seg_id': 'REF'})
            except (NotClosedTest, A.NotClosed) as e:
                raise AnalysisError('%s.__len__ cannot be decided for the values %s: %s' % (cname, list(vals), e))
            if got != len(vals):
                bad.append('len() of a %s holding %s is %r, not %d' % (cname.lower(), list(vals), got, len(vals)))
        yield Ob('segment:%s.__len__ is the number of positions held, empty ones included' % cname, not bad, ctx.floc(fn),
                 '' if not bad else bad[0] + ': a position that exists (and can be read and written) is not counted')
    fn = ctx.func('segment', 'Segment.__init__')
    g = ctx.cfg(fn)
    bad = []
    for text, sid, want in (('REF*A**B:C**~', 'REF', ['A', '', 'B:C', '', '']), ('REF***', 'REF', ['', '', '']), ('ISA*00*:*', 'ISA', ['00', ':', '']),
                            ('SE', 'SE', []), ('HL*1**20*1~', 'HL', ['1', '', '20', '1'])):
        fin = []

        def on_node(nd, env, g=g):
            if nd is g.exit:
                fin.append((env.get('self.elements'), env.get('self.seg_id')))

        def unk(nd, env):
            raise AnalysisError('Segment.__init__: a test cannot be decided for %r: %s' % (text, norm(nd.ast)))
        explore(g, {'seg_str': text, 'seg_term': '~', 'ele_term': '*', 'subele_term': ':', 'repetition_term': '^'},
                funcs=dict(hf, Composite=lambda t, sep=None: _Pos(t, sep)), on_node=on_node, on_unknown=unk)
        for els, got_id in fin:
            if not isinstance(els, tuple) or not all(isinstance(e, _Pos) for e in els):
                raise AnalysisError('Segment.__init__: the element list is not determined for %r' % text)
            sep = '*' if sid == 'ISA' else ':'
            if got_id != sid or [e.text for e in els] != want:
                bad.append('%r is parsed into id %r and elements %s, expected %r and %s' % (text, got_id, [e.text for e in els], sid, want))
            elif len({e.n for e in els}) != len(els):
                dup = [i + 1 for i, e in enumerate(els) if [x.n for x in els].count(e.n) > 1]
                bad.append('%r: the element positions %s are one and the same object: setting one of them changes the others' % (text, dup))
            elif any(e.sep != sep for e in els):
                bad.append('%r: an element is split at %r, expected %r' % (text, [e.sep for e in els if e.sep != sep][0], sep))
        if not fin:
            raise AnalysisError('Segment.__init__: no outcome for %r' % text)
    yield Ob('segment:Segment.__init__ builds one separate Composite per element of the text', not bad, ctx.floc(fn), '' if not bad else bad[0])


class _CompA(object):
    """a composite for the accessor decisions: components are texts"""
    _sa_model = True

    def __init__(self, name, comps):
        self.name = name
        self.comps = tuple(_Pos(c) for c in comps)

    def __len__(self):
        return len(self.comps)

    def __getitem__(self, i):
        return self.comps[i]

    def format(self, st=None):
        return 'F(%s)' % self.name

    def is_empty(self):
        return all(c.text == '' for c in self.comps)

    def __hash__(self):
        return hash(('compa', self.name))

    def __eq__(self, o):
        return self is o

    def __repr__(self):
        return self.name


class _SelfLen2(object):
    _sa_model = True

    def __len__(self):
        return 2

    def __hash__(self):
        return hash('selflen2')


def r9_accessors(ctx):
    """reading decided by constant propagation: (a) is_empty of an element (None and '' only - a blank is a value), of a
    composite (all components empty) and of a segment (no element, or all empty); (b) Segment.get for designators of an
    element, of a component, beyond the last element and beyond the last component: the object at exactly that position,
    None beyond the end, IndexError without an element index; (c) Segment.get_value is the format() of what get returns,
    None for None."""
    from ..absint import run_function, helper_oracles, NotClosedTest
    hf = helper_oracles(ctx, 'segment')

    def run(fn, args, env, what):
        try:
            return run_function(ctx.cfg(fn), fn, [env.get('self')] + args, hf2, env=env)
        except (NotClosedTest, A.NotClosed) as e:
            raise AnalysisError('%s cannot be decided (%s): %s' % (fn.name, what, e))
    hf2 = dict(hf)
    bad = []
    fn = ctx.func('segment', 'Element.is_empty')
    for v, want in ((None, True), ('', True), (' ', False), ('A', False), ('0', False)):
        got = run(fn, [], {'self.value': v}, repr(v))
        if got is not want:
            bad.append('Element(%r).is_empty() is %r' % (v, got))
    yield Ob('segment:Element.is_empty: exactly None and the empty string are empty', not bad, ctx.floc(fn), '' if not bad else bad[0])
    for cname, cases in (('Composite', (((), True), (('',), True), (('', ''), True), (('', 'A'), False), ((' ',), False), (('A', ''), False))),
                         ('Segment', (((), True), (('',), True), (('', '', ''), True), (('', 'A'), False), (('A', '', ''), False), ((' ', ''), False)))):
        fn = ctx.func('segment', cname + '.is_empty')
        bad = []
        for vals, want in cases:
            got = run(fn, [], {'self.elements': tuple(_Pos(v) for v in vals), 'self.seg_id': 'REF'}, list(vals))
            if got is not want:
                bad.append('a %s holding %s: is_empty() is %r' % (cname.lower(), list(vals), got))
        yield Ob('segment:%s.is_empty: empty exactly when every position is' % cname, not bad, ctx.floc(fn), '' if not bad else bad[0])
    fn = ctx.func('segment', 'Segment.get')
    bad = []
    for (ei, ci), want in (((0, None), 'e1'), ((1, None), 'e2'), ((2, None), None), ((1, 0), 'c1'), ((1, 2), 'c3'), ((1, 3), None), ((0, 0), 'a1'),
                           ((0, 1), None), ((5, 0), None), ((None, None), ('raises', 'IndexError'))):
        els = (_CompA('e1', ('a1',)), _CompA('e2', ('c1', 'c2', 'c3')))
        hf2 = dict(hf, **{'self._parse_refdes': lambda r, ei=ei, ci=ci: (ei, ci), 'self.__len__': lambda: 2})
        got = run(fn, ['RD'], {'self.elements': els, 'self.seg_id': 'REF', 'self': _SelfLen2()}, (ei, ci))
        shown = got.name if isinstance(got, _CompA) else (got.text if isinstance(got, _Pos) else got)
        if shown != want:
            bad.append('element index %r, component index %r on REF*a1*c1:c2:c3 gives %r, expected %r' % (ei, ci, shown, want))
    yield Ob('segment:Segment.get returns the object at exactly the designated position, None beyond the end', not bad, ctx.floc(fn), '' if not bad else bad[0])
    fn = ctx.func('segment', 'Segment.get_value')
    bad = []
    for ret, want in ((_CompA('e1', ('a1',)), 'F(e1)'), (None, None), (_CompA('e0', ('',)), 'F(e0)')):
        hf2 = dict(hf, **{'self.get': lambda r, ret=ret: ret})
        got = run(fn, ['RD'], {'self.seg_id': 'REF'}, ret)
        if got != want:
            bad.append('get_value of %r is %r, expected %r' % (ret, got, want))
    yield Ob('segment:Segment.get_value is the text of what get returns (None for None)', not bad, ctx.floc(fn), '' if not bad else bad[0])


def r5_map_paths(ctx):
    pat, flags, node = _rec_path(ctx)
    rx = re.compile(pat, flags)
    for n in D.all_nodes(ctx, ctx.maps.indexed_files() + ctx.maps.control_files()):
        if n.kind == 'segment':
            comp = n.path_component()
            m = rx.search(comp)
            ok = m is not None and m.group('seg_id') == n.id and m.group('id_val') == n.seg_suffix \
                and m.group('ele_idx') is None and m.group('subele_idx') is None
            yield Ob('%s path component parses' % D.nodekey(n), ok, D.where(n),
                     '' if ok else 'component %r does not parse into (segment id %s, qualifier %s): the node cannot be addressed by its own path' % (comp, n.id, n.seg_suffix))
        elif n.kind == 'loop':
            m = rx.search(n.id or '')
            amb = not (m is None or m.group(0) == '')
            # the documented grammar is ambiguous here by design ("the last loop id might be a segment id"):
            # cross-reference only, never a violation
            if amb:
                yield Ob('%s loop id also parses as a designator' % D.nodekey(n), True, D.where(n), nontrivial=False,
                         note='loop id %r parses as a segment designator (grammar ambiguity, by design)' % n.id)


def r10_values_compared_by_value(ctx):
    """parsing the printed form gives an EQUAL path: path parts and segment values are numbers and texts, and two parses
    of the same text hold different objects for them (CPython shares only small integers and some strings), so in
    path.py and segment.py an identity test (`is` / `is not`) is only sound against a singleton - None, True, False,
    NotImplemented, Ellipsis - or between objects of the program (`self is other`, a node and a node).  An identity
    test between two value-typed fields (`self.ele_idx is other.ele_idx`) makes equal paths unequal beyond the shared range."""
    SINGLE = {'None', 'True', 'False', 'NotImplemented', 'Ellipsis'}
    n = 0
    for mod in ('path', 'segment'):
        # attributes that only ever hold a truth value (bound to True / False / a comparison): those are singletons too
        binds = {}
        for x in ast.walk(ctx.mod(mod).tree):
            if isinstance(x, ast.Assign):
                for t in x.targets:
                    if isinstance(t, ast.Attribute):
                        binds.setdefault(t.attr, []).append(x.value)
        boolean = {a_ for a_, vs in binds.items() if all((isinstance(v, ast.Constant) and (isinstance(v.value, bool) or v.value is None)) or isinstance(v, ast.Compare)
                                                            or (isinstance(v, ast.UnaryOp) and isinstance(v.op, ast.Not)) for v in vs)}
        for q, f in A.all_functions(ctx.mod(mod).tree):
            f = ctx.func(mod, q, required=False) or f
            for c in ast.walk(f):
                if not isinstance(c, ast.Compare):
                    continue
                operands = [c.left] + list(c.comparators)
                for i, op in enumerate(c.ops):
                    if not isinstance(op, (ast.Is, ast.IsNot)):
                        continue
                    a, b = operands[i], operands[i + 1]
                    n += 1
                    single = any((isinstance(x, ast.Constant) and (x.value is None or x.value is True or x.value is False or x.value is Ellipsis))
                                 or (isinstance(x, ast.Name) and x.id in SINGLE) for x in (a, b))
                    objects = all(isinstance(x, ast.Name) and x.id in ('self', 'other') for x in (a, b))
                    booleans = all(isinstance(x, ast.Attribute) and x.attr in boolean for x in (a, b))
                    ok = single or objects or booleans
                    yield Ob('%s:%s identity test %s' % (mod, q, norm(c)), ok, ctx.floc(f, c),
                             '' if ok else 'two values are compared by identity: equal numbers / texts from two parses are different objects beyond the '
                             'range the interpreter shares (integers above 256), so equal paths compare unequal')
    if n < 5:
        raise AnalysisError('path.py / segment.py: identity tests not found (%d)' % n)


RULES = [
    Rule('C17.R1', 'rec_path / rec_seg_id equal the documented grammars (DFA equivalence)', r1_languages, floor=3),
    Rule('C17.R2', 'printer/parser agreement of format_refdes and __repr__ vs __init__', r2_print_parse, floor=5),
    Rule('C17.R3', 'refusal conditions over all part combinations; foreign segment id refused before index use', r3_refusals, floor=3),
    Rule('C17.R4', 'Segment.set pads before it stores; Segment.get tests each index', r4_pad_before_store, floor=6),
    Rule('C17.R7', 'shared with C01.R8: format prints every position up to the last non-empty one', r7_shared_format, floor=2),
    Rule('C17.R8', 'len() counts every position; Segment.__init__ builds one separate Composite per element (constant propagation)', r8_positions, floor=3),
    Rule('C17.R9', 'is_empty of element / composite / segment, Segment.get and get_value decided per position (constant propagation)', r9_accessors, floor=5),
    Rule('C17.R10', 'identity tests in path.py / segment.py are against singletons only (values are compared by value)', r10_values_compared_by_value, floor=8),
    Rule('C17.R6', 'reading methods of Element/Composite/Segment do not modify the object (no store, delete or mutating call, also through aliases)', r6_reads_do_not_write, floor=30),
    Rule('C17.R5', 'every map node path component parses into its own parts', r5_map_paths, floor=2400),
]
