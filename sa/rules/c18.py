"""C18 Results are a function of the document and parameters alone."""
import ast

from ..core import Ob, Rule, AnalysisError, norm, KeyMaker
from ..cfg import path_of
from .. import astutil as A
from .c06 import _seg_values

META = {
    'explanation': (
        'F-STATE over the whole package (scripts and examples included, tests excluded). R1 every mutable default '
        'argument is neither mutated in the body nor stored in an attribute that is mutated in place anywhere in the '
        'package (alias classes by attribute name). R2 no module-level or class-level mutable object is mutated by any '
        'function, there is no `global` statement and no caching decorator is applied. R3 wall-clock, randomness, '
        'environment, id() and hash() are used only in error_997.visit_root_pre, error_999.visit_root_pre and '
        'error_html.header, and there their values flow only into ISA09/ISA10/ISA13, IEA02, GS04/GS05/GS06, GE02 and '
        'the HTML date line. R4 a set() value that is iterated, indexed, returned or converted to a list must pass '
        'sorted()/.sort() first (string hash randomisation makes set order differ between processes). R5 '
        'x12n_document and X12ContextReader.__init__ build reader, walker, error handler, index and maps from '
        'constructor calls inside the call and keep no reference in module or class state.'),
    'not_decided': 'equality of outputs across call histories (needs execution); state kept by the caller-supplied param object',
    'trusted_base': ['alias classes approximated by attribute name', 'enumerated nondeterminism sources: time, random, datetime, os.environ, uuid, id(), hash(), os.getpid'],
    'technique': 'static analysis: shared-state and effect audit over the AST (mutable defaults, module/class state, who-may-call for nondeterminism, set-order dataflow)',
}


META['explanation'] += ' Rounds 4-5: ' + 'R7 no object/class/module state is a one-shot iterator (map/filter/zip/generator).'

MUT_METHODS = {'append', 'extend', 'insert', 'pop', 'remove', 'clear', 'update', 'setdefault', 'popitem', 'add', 'discard', 'sort', 'reverse'}


def _is_mutable_literal(v):
    if isinstance(v, (ast.List, ast.Dict, ast.Set, ast.ListComp, ast.DictComp, ast.SetComp)):
        return True
    if isinstance(v, ast.Call):
        nm = path_of(v.func)
        if nm in ('list', 'dict', 'set', 'OrderedDict', 'collections.OrderedDict', 'defaultdict', 'collections.defaultdict', 'bytearray'):
            return True
    return False


def _mutations_of(tree, pred):
    """nodes that mutate in place an expression e with pred(e) true"""
    for n in ast.walk(tree):
        if isinstance(n, ast.Call) and isinstance(n.func, ast.Attribute) and n.func.attr in MUT_METHODS and pred(n.func.value):
            yield n
        if isinstance(n, (ast.Assign, ast.AugAssign, ast.Delete)):
            tg = n.targets if not isinstance(n, ast.AugAssign) else [n.target]
            for t in tg:
                if isinstance(t, ast.Subscript) and pred(t.value):
                    yield n
                if isinstance(n, ast.AugAssign) and pred(t):
                    yield n


def r1_mutable_defaults(ctx):
    km = KeyMaker()
    mods = ctx.all_mods()
    for m in mods:
        for q, fn in A.all_functions(m.tree):
            args = fn.args
            pos = args.args[len(args.args) - len(args.defaults):] if args.defaults else []
            pairs = list(zip(pos, args.defaults)) + [(a, d) for a, d in zip(args.kwonlyargs, args.kw_defaults) if d is not None]
            for a, d in pairs:
                if not _is_mutable_literal(d):
                    continue
                name = a.arg
                key = km('%s:%s(%s=%s)' % (m.name, q, name, norm(d)))
                muts = list(_mutations_of(fn, lambda e: path_of(e) == name))
                # rebinding the parameter first (name = name or []) makes later mutation harmless: not used in this repo
                if muts:
                    yield Ob(key, False, ctx.loc(m, muts[0]),
                             'the shared default object is mutated in place (%s): state leaks into the next call' % norm(muts[0]))
                    continue
                # stored?
                attrs = set()
                for n in ast.walk(fn):
                    if isinstance(n, ast.Assign) and path_of(n.value) == name:
                        for t in n.targets:
                            p = path_of(t)
                            if p and '.' in p:
                                attrs.add(p.split('.')[-1])
                esc = [n for n in ast.walk(fn) if isinstance(n, (ast.Return, ast.Yield)) and n.value is not None and path_of(n.value) == name]
                bad = None
                for at in attrs:
                    for m2 in mods:
                        for mu in _mutations_of(m2.tree, lambda e: isinstance(e, ast.Attribute) and e.attr == at):
                            bad = (at, m2, mu)
                            break
                        if bad:
                            break
                if bad:
                    yield Ob(key, False, ctx.loc(bad[1], bad[2]),
                             'the default object is stored in .%s and an attribute of that name is mutated in place at %s: '
                             'all instances created with the default share that list' % (bad[0], ctx.loc(bad[1], bad[2])))
                else:
                    yield Ob(key, True, ctx.loc(m, fn), note='stored in %s, never mutated in place' % sorted(attrs) if attrs else 'only read')


def r2_shared_state(ctx):
    km = KeyMaker()
    mods = ctx.all_mods()
    n_ob = 0
    for m in mods:
        # module-level mutable objects
        names = {}
        for s in m.tree.body:
            if isinstance(s, ast.Assign) and len(s.targets) == 1 and isinstance(s.targets[0], ast.Name) and _is_mutable_literal(s.value):
                names[s.targets[0].id] = s
        for nm, s in names.items():
            muts = []
            for q, fn in A.all_functions(m.tree):
                local = {a.arg for a in fn.args.args} | {t.id for n in ast.walk(fn) if isinstance(n, ast.Assign) for t in n.targets if isinstance(t, ast.Name)}
                if nm in local:
                    continue
                muts += list(_mutations_of(fn, lambda e: path_of(e) == nm))
            n_ob += 1
            yield Ob(km('%s module-level %s' % (m.name, nm)), not muts, ctx.loc(m, s),
                     '' if not muts else 'module-level mutable object is mutated by a function at %s' % ctx.loc(m, muts[0]))
        # class-level mutable objects
        for c in [x for x in m.tree.body if isinstance(x, ast.ClassDef)]:
            for s in c.body:
                if isinstance(s, ast.Assign) and len(s.targets) == 1 and isinstance(s.targets[0], ast.Name) and _is_mutable_literal(s.value):
                    at = s.targets[0].id
                    muts = [mu for m2 in mods for mu in _mutations_of(m2.tree, lambda e: isinstance(e, ast.Attribute) and e.attr == at)]
                    n_ob += 1
                    yield Ob(km('%s class-level %s.%s' % (m.name, c.name, at)), not muts, ctx.loc(m, s),
                             '' if not muts else 'class-level mutable object is mutated in place (shared by all instances)')
        # global statements, caching decorators
        for n in ast.walk(m.tree):
            if isinstance(n, ast.Global):
                yield Ob(km('%s global %s' % (m.name, ','.join(n.names))), False, ctx.loc(m, n), 'function rebinds module state')
            if isinstance(n, ast.FunctionDef):
                for d in n.decorator_list:
                    dn = path_of(d.func) if isinstance(d, ast.Call) else path_of(d)
                    if dn and any(k in dn.lower() for k in ('cache', 'memo')):
                        yield Ob(km('%s %s decorated with %s' % (m.name, n.name, dn)), False, ctx.loc(m, n),
                                 'results are cached across calls')
        n_ob += 1
        yield Ob('%s no global statements / caching decorators' % m.name, True, m.relpath, nontrivial=True)
    # writes to attributes of imported modules (module state of another module)
    for m in mods:
        imported = set()
        for n in ast.walk(m.tree):
            if isinstance(n, ast.Import):
                for a in n.names:
                    if a.name.startswith('pyx12'):
                        imported.add(a.asname or a.name)
        for n in ast.walk(m.tree):
            if isinstance(n, ast.Assign):
                for t in n.targets:
                    p = path_of(t)
                    if p and any(p.startswith(i + '.') and p.count('.') == i.count('.') + 1 for i in imported) and A.enclosing_function(n) is not None:
                        yield Ob(km('%s assigns %s' % (m.name, p)), False, ctx.loc(m, n), 'a function assigns an attribute of another module')


ND_PREFIX = ('time.', 'random.', 'datetime.', 'uuid.', 'os.environ', 'os.getpid', 'os.urandom', 'secrets.')
ND_NAMES = ('id', 'hash')
ALLOWED_ND = {('error_997', 'error_997_visitor.visit_root_pre'), ('error_999', 'error_999_visitor.visit_root_pre'),
              ('error_html', 'error_html.header')}
ALLOWED_POS = {'isa_seg': {9, 10, 13}, 'gs_seg': {4, 5, 6}}


def _is_nd(n):
    if isinstance(n, ast.Call):
        p = path_of(n.func)
        if p and (p.startswith(ND_PREFIX) or p in ND_NAMES):
            return p
    if isinstance(n, ast.Attribute) and path_of(n) == 'os.environ':
        return 'os.environ'
    return None


def r3_nondeterminism(ctx):
    km = KeyMaker()
    core_mods = [m for m in ctx.all_mods() if not m.name.startswith(('scripts.', 'examples.'))]
    found = 0
    for m in core_mods:
        for q, fn in A.all_functions(m.tree):
            for n in ast.walk(fn):
                src = _is_nd(n)
                if not src:
                    continue
                if src == 'hash' and fn.name == '__hash__':
                    # a class defining its hash from its text (x.__repr__().__hash__() spelled hash(repr)): the value keys
                    # dictionaries of this process and is never output
                    continue
                found += 1
                ok = (m.name, q) in ALLOWED_ND
                yield Ob(km('%s:%s uses %s' % (m.name, q, src)), ok, ctx.loc(m, n),
                         '' if ok else 'run-to-run varying value outside the acknowledgement envelope / HTML date line')
    if found < 5:
        raise AnalysisError('nondeterminism audit found only %d sources: pattern no longer matches' % found)
    # flows inside the allowed functions
    for mod, cname in (('error_997', 'error_997_visitor'), ('error_999', 'error_999_visitor')):
        fn = ctx.func(mod, cname + '.visit_root_pre')
        tainted_attrs = set()
        for n in ast.walk(fn):
            if isinstance(n, ast.Assign) and any(_is_nd(x) for x in ast.walk(n.value)):
                p = path_of(n.targets[0])
                if p:
                    tainted_attrs.add(p)
        for segvar, allowed in ALLOWED_POS.items():
            vals = _seg_values(fn, segvar, {'isa_seg': 'ISA', 'gs_seg': 'GS'}.get(segvar))
            for pos, e in sorted(vals.items()):
                nd = any(_is_nd(x) for x in ast.walk(e)) or path_of(e) in tainted_attrs
                if nd:
                    ok = pos in allowed
                    yield Ob('%s:%s.visit_root_pre %s element %02d carries a time/random value' % (mod, cname, segvar, pos), ok, ctx.floc(fn, e),
                             '' if ok else 'a varying value is written outside ISA09/10/13, GS04/05/06')
        # the attributes are used elsewhere only for trailers (IEA02 / GE02)
        cls = ctx.cls(mod, cname)
        for f in cls.body:
            if isinstance(f, ast.FunctionDef) and f.name != 'visit_root_pre':
                for n in ast.walk(f):
                    if isinstance(n, ast.Attribute) and path_of(n) in tainted_attrs and isinstance(n.ctx, ast.Load):
                        ok = f.name == 'visit_root_post'
                        yield Ob(km('%s:%s.%s reads %s' % (mod, cname, f.name, path_of(n))), ok, ctx.loc(mod, n),
                                 '' if ok else 'generated control number used outside the envelope trailers')
    fn = ctx.func('error_html', 'error_html.header')
    nd = [n for n in ast.walk(fn) if _is_nd(n)]
    ok = False
    if len(nd) == 1:
        st = A.enclosing(nd[0], (ast.stmt,))
        if isinstance(st, ast.Expr):
            ok = 'Analysis Date' in ast.unparse(st)
        elif isinstance(st, ast.Assign) and len(st.targets) == 1 and isinstance(st.targets[0], ast.Name):
            # kept in a local first: every use of that local is in the date line
            uses = [x for x in ast.walk(fn) if isinstance(x, ast.Name) and x.id == st.targets[0].id and isinstance(x.ctx, ast.Load)]
            ok = bool(uses) and all('Analysis Date' in ast.unparse(A.enclosing(u, (ast.stmt,))) for u in uses)
    yield Ob('error_html:error_html.header time only in the date line', ok, ctx.floc(fn), '' if ok else 'time used outside the date line')


def r4_set_order(ctx):
    km = KeyMaker()
    n_sites = 0
    for m in ctx.all_mods():
        if m.name.startswith('examples.'):
            continue   # example programs do not validate, convert or iterate on behalf of the library
        for q, fn in A.all_functions(m.tree):
            for s in ast.walk(fn):
                is_set = (isinstance(s, ast.Call) and path_of(s.func) in ('set', 'frozenset')) or isinstance(s, (ast.Set, ast.SetComp))
                if not is_set:
                    continue
                n_sites += 1
                key = km('%s:%s %s' % (m.name, q, norm(A.parent(s) if isinstance(A.parent(s), ast.Call) else s, 70)))
                verdict, why = _set_use(fn, s)
                yield Ob(key, verdict, ctx.loc(m, s), '' if verdict else why, note=why if verdict else None)
    if n_sites < 6:
        raise AnalysisError('set-order audit found only %d set constructions' % n_sites)


def _set_use(fn, s):
    par = A.parent(s)
    # sorted(set(..))
    if isinstance(par, ast.Call) and path_of(par.func) == 'sorted':
        return True, 'sorted'
    if isinstance(par, ast.Call) and path_of(par.func) in ('len', 'any', 'all', 'min', 'max', 'sum', 'bool', 'frozenset', 'set'):
        return True, 'order-insensitive use'
    if isinstance(par, ast.Compare):
        return True, 'comparison / membership'
    if isinstance(par, (ast.BinOp, ast.BoolOp)):
        return True, 'set algebra'
    if isinstance(s, ast.Call) and path_of(s.func) == 'frozenset' and isinstance(par, (ast.Tuple, ast.Subscript, ast.Dict)):
        return True, 'frozenset used as a hashable key (order-insensitive)'
    if isinstance(par, ast.Call) and path_of(par.func) in ('list', 'tuple'):
        return _ordered_value_use(fn, par, 'list(set(...))')
    if isinstance(par, (ast.For, ast.comprehension)) and getattr(par, 'iter', None) is s:
        return False, 'a set is iterated directly: the order differs between processes (hash randomisation)'
    if isinstance(par, ast.Assign):
        name = path_of(par.targets[0])
        # every later use of the name must be order-insensitive
        for n in ast.walk(fn):
            if isinstance(n, ast.Name) and n.id == name and isinstance(n.ctx, ast.Load):
                p2 = A.parent(n)
                if isinstance(p2, ast.Compare):
                    continue
                if isinstance(p2, ast.Call) and path_of(p2.func) in ('len', 'sorted', 'any', 'all'):
                    continue
                if isinstance(p2, ast.Attribute) and p2.attr in ('add', 'discard', 'update', 'remove', 'union', 'intersection', 'difference', 'issubset', 'issuperset'):
                    continue
                return False, 'the set %s is used in an order-sensitive way at line %d' % (name, n.lineno)
        return True, 'only membership tests on %s' % name
    if isinstance(par, ast.Return):
        return False, 'a set is returned; callers index or iterate it'
    return False, 'unrecognised use of a set value: %s' % norm(par, 60)


def _ordered_value_use(fn, lst, what):
    """lst = list(set(..)) call node: fine only if sorted before any order-sensitive use"""
    par = A.parent(lst)
    if isinstance(par, ast.Call) and path_of(par.func) == 'sorted':
        return True, 'sorted'
    if isinstance(par, ast.Assign) and isinstance(par.targets[0], ast.Name):
        name = par.targets[0].id
        blk = A.parent(par)
        body = getattr(blk, 'body', [])
        if par in body:
            i = body.index(par)
            nxt = body[i + 1] if i + 1 < len(body) else None
            if isinstance(nxt, ast.Expr) and isinstance(nxt.value, ast.Call) and A.call_target(nxt.value) == (name, 'sort'):
                return True, '%s.sort() follows immediately' % name
        return False, '%s is stored in %s without sorting: its order differs between processes' % (what, name)
    if isinstance(par, ast.For) or isinstance(par, ast.comprehension):
        return False, '%s is iterated: the order of the produced lines differs between processes (hash randomisation)' % what
    if isinstance(par, ast.Return):
        return False, '%s is returned unsorted; the caller takes element [0]' % what
    if isinstance(par, ast.Subscript):
        return False, '%s is indexed' % what
    return False, '%s used as %s' % (what, type(par).__name__)


def r5_fresh_objects(ctx):
    specs = [('x12n_document', 'x12n_document', {'errh': 'err_handler', 'src': 'X12Reader', 'walker': 'walk_tree',
                                                 'control_map': 'load_map_file', 'map_index_if': 'map_index'}),
             ('x12context', 'X12ContextReader.__init__', {'self.errh': 'errh_list', 'self.src': 'X12Reader', 'self.walker': 'walk_tree',
                                                          'self.control_map': 'load_map_file', 'self.map_index_if': 'map_index'})]
    for mod, qual, want in specs:
        fn = ctx.func(mod, qual)
        got = {}
        for n in ast.walk(fn):
            if isinstance(n, ast.Assign) and isinstance(n.value, ast.Call):
                p = path_of(n.targets[0])
                if p in want:
                    got.setdefault(p, []).append(A.call_target(n.value)[1])
        for var, ctor in sorted(want.items()):
            ok = got.get(var) == [ctor]
            yield Ob('%s:%s %s is a fresh %s()' % (mod, qual, var, ctor), ok, ctx.floc(fn),
                     '' if ok else '%s is bound from %s' % (var, got.get(var)))
    # NodeCounter / walk_tree constructors copy or create their dicts
    fn = ctx.func('map_walker', 'walk_tree.__init__')
    ok = any(isinstance(n, ast.Assign) and path_of(n.targets[0]) == 'self.mandatory_segs_missing' and isinstance(n.value, ast.List) for n in ast.walk(fn))
    yield Ob('map_walker:walk_tree.__init__ starts with an empty pending list', ok, ctx.floc(fn), '' if ok else 'changed')
    fn = ctx.func('nodeCounter', 'NodeCounter.__init__')
    ok = any(isinstance(n, ast.Assign) and path_of(n.targets[0]) == 'self._dict' and isinstance(n.value, ast.Call) for n in ast.walk(fn))
    yield Ob('nodeCounter:NodeCounter.__init__ owns its dict', ok, ctx.floc(fn), '' if ok else 'counter shares a dict')
    fn = ctx.func('error_handler', 'err_handler.__init__')
    ok = any(isinstance(n, ast.Assign) and path_of(n.targets[0]) == 'self.children' and isinstance(n.value, ast.List) and not n.value.elts for n in ast.walk(fn))
    yield Ob('error_handler:err_handler.__init__ starts with an empty tree', ok, ctx.floc(fn), '' if ok else 'changed')


def r8_per_document_streams(ctx):
    """where one process validates several documents (the loops of the command-line scripts), every output stream handed
    to x12n_document is an object of this iteration: each definition of the variable that reaches the call lies inside
    the loop body (or is the constant None).  A scratch file created once before the loop and rewound carries the tail of
    an earlier acknowledgement into a later, shorter one.  Reaching definitions on the script's CFG."""
    from ..cfg import reaching_defs
    n = 0
    for mod in ('scripts.x12valid', 'scripts.x12html', 'scripts.x12xml'):
        m = ctx.mod(mod)
        for fn in [x for x in ast.walk(m.tree) if isinstance(x, ast.FunctionDef)]:
            calls = [c for c in A.calls_in(fn) if A.call_target(c)[1] == 'x12n_document']
            if not calls:
                continue
            fn._mod = m
            g = ctx.cfg(fn)
            rd, _defs = reaching_defs(g)
            for c in calls:
                loop = A.enclosing(c, (ast.For, ast.While))
                args = {}
                for i, a_ in enumerate(c.args):
                    if i in (2, 3, 4):
                        args[('fd_997', 'fd_html', 'fd_xmldoc')[i - 2]] = a_
                for kw in c.keywords:
                    if kw.arg in ('fd_997', 'fd_html', 'fd_xmldoc'):
                        args[kw.arg] = kw.value
                from ..cfg import node_of
                nd = [node_of(g, c)] if node_of(g, c) is not None else []
                if not nd:
                    raise AnalysisError('%s: the call of x12n_document was not found in the CFG' % mod)
                inside = set()
                if loop is not None:
                    inside = {id(x) for b_ in loop.body for x in ast.walk(b_)}
                for pname, a_ in sorted(args.items()):
                    n += 1
                    bad = None
                    if isinstance(a_, ast.Name) and loop is not None:
                        for did in sorted((rd.get(nd[0].id) or {}).get(a_.id, ())):
                            if did == -1:
                                bad = 'it is a parameter of %s' % fn.name
                                continue
                            dn = g.nodes[did]
                            st = dn.stmt if dn.stmt is not None else dn.ast
                            is_none = isinstance(st, ast.Assign) and isinstance(st.value, ast.Constant) and st.value.value is None
                            if id(st) not in inside and id(dn.ast) not in inside and not is_none:
                                bad = 'the definition `%s` (line %s) outside the loop reaches the call' % (norm(st, 70), getattr(st, 'lineno', '?'))
                    elif not isinstance(a_, (ast.Name, ast.Constant)) and loop is not None and not isinstance(a_, ast.Call):
                        bad = 'it is the expression %s' % norm(a_, 60)
                    yield Ob('%s:%s %s handed to x12n_document is an object of the current document' % (mod, fn.name, pname), bad is None, ctx.floc(fn, c),
                             '' if bad is None else '%s: %s - the stream is shared by the documents of one run' % (pname, bad))
    if n < 5:
        raise AnalysisError('only %d output-stream arguments of x12n_document calls found in the scripts' % n)


def r9_parameters_are_read_only(ctx):
    """the parameter object belongs to the caller and is shared by every document validated with it: the library (everything
    but the command-line scripts and params.py itself) only reads it.  No `.set(...)` on a parameter object, no store into
    its `params` table - also not on a copy made with copy.copy (a shallow copy shares the table, so a "local" override
    of the character set is seen by every later document)."""
    n = 0
    km = KeyMaker()
    for m in ctx.all_mods():
        if m.name.startswith(('scripts.', 'examples.')) or m.name == 'params':
            continue
        for q, fn in A.all_functions(m.tree):
            for c in ast.walk(fn):
                recv = None
                if isinstance(c, ast.Call) and isinstance(c.func, ast.Attribute) and c.func.attr == 'set' and len(c.args) == 2 and A.is_str(c.args[0]):
                    recv = path_of(c.func.value) or ''
                elif isinstance(c, (ast.Assign, ast.AugAssign, ast.Delete)):
                    for t in (c.targets if isinstance(c, (ast.Assign, ast.Delete)) else [c.target]):
                        if isinstance(t, ast.Subscript) and (path_of(t.value) or '').endswith('.params'):
                            recv = path_of(t.value)
                if recv is None:
                    continue
                last = recv.split('.')[-1]
                if 'param' not in last.lower() and not recv.endswith('.params'):
                    continue
                n += 1
                yield Ob(km('%s:%s' % (m.name, q), 'writes parameter object %s' % recv), False, ctx.loc(m, c),
                         'the parameter object (or a shallow copy sharing its table) is modified during validation: every later document '
                         'validated with the same parameters sees the change')
    yield Ob('library code never writes a parameter object', True, 'pyx12', note='%d writes found' % n, nontrivial=False)


def r6_map_nodes_read_only(ctx):
    from . import c16
    for o in c16.r9_nodes_immutable(ctx):
        yield o


ONE_SHOT = ('map', 'filter', 'zip', 'iter', 'reversed', 'enumerate')


def _one_shot(v):
    """expression whose value is an iterator that is used up by being read"""
    if isinstance(v, ast.GeneratorExp):
        return 'a generator expression'
    if isinstance(v, ast.Call) and isinstance(v.func, ast.Name) and v.func.id in ONE_SHOT:
        return '%s(...)' % v.func.id
    if isinstance(v, ast.IfExp):
        return _one_shot(v.body) or _one_shot(v.orelse)
    if isinstance(v, ast.BoolOp):
        for x in v.values:
            r = _one_shot(x)
            if r:
                return r
    return None


def r7_no_one_shot_state(ctx):
    """an iterator (map/filter/zip/iter/reversed/enumerate object, generator) kept as object, class or module state is
    consumed by the first read - membership test, loop, list() - and is empty for every later one: what the object
    answers then depends on how often it was asked before.  State must be a list/tuple/set/dict.  (In Python 2
    map/filter/zip returned lists; code ported from there is where this appears.)"""
    km = KeyMaker()
    n = 0
    for m in ctx.all_mods():
        for st in ast.walk(m.tree):
            tgt = val = None
            if isinstance(st, ast.Assign) and len(st.targets) == 1:
                tgt, val = st.targets[0], st.value
            elif isinstance(st, ast.AnnAssign) and st.value is not None:
                tgt, val = st.target, st.value
            if tgt is None:
                continue
            fn = A.enclosing_function(st)
            is_state = (isinstance(tgt, ast.Attribute) and path_of(tgt) and path_of(tgt).startswith('self.')) or \
                (isinstance(tgt, ast.Name) and fn is None)
            if not is_state:
                continue
            n += 1
            kind = _one_shot(val)
            if kind is None and isinstance(val, ast.Name) and fn is not None:
                # a local that is bound to an iterator in this function
                defs = [d.value for d in ast.walk(fn) if isinstance(d, ast.Assign) and len(d.targets) == 1 and path_of(d.targets[0]) == val.id]
                kinds = [k for k in (_one_shot(d) for d in defs) if k]
                kind = kinds[0] if kinds and len(kinds) == len(defs) else None
            if kind is not None:
                yield Ob(km('%s %s stores a one-shot iterator' % (m.name, norm(tgt))), False, ctx.loc(m, st),
                         '`%s` is %s: the first membership test or loop uses it up, later reads see it empty - results depend on earlier use of the object'
                         % (norm(st, 90), kind))
    yield Ob('no object, class or module state is a one-shot iterator', True, 'pyx12/', nontrivial=True, note='%d state assignments examined' % n)
    if n < 300:
        raise AnalysisError('only %d state assignments found' % n)
    # the recogniser itself: must match the textbook case on every run
    probe = ast.parse("class K:\n    def __init__(self, t):\n        self.names = map(str.strip, t.split(',')) if t is not None else []\n").body[0].body[0].body[0]
    if _one_shot(probe.value) is None:
        raise AnalysisError('one-shot recogniser does not match its positive example')


def r10_shared_visitor_counters(ctx):
    """an acknowledgement visitor may be handed several error trees: the counts it writes for one of them (sets per group,
    groups per interchange, segments per set) are reset where the header that opens their scope is written, so that
    they do not carry over from the tree acknowledged before.  C06.R6 (shared)."""
    from . import c06
    for o in c06.r6_997_counter(ctx):
        yield o


RULES = [
    Rule('C18.R1', 'mutable default arguments are never mutated (directly or through a stored alias)', r1_mutable_defaults, floor=4),
    Rule('C18.R2', 'no mutated module/class-level state, no global, no caching decorators', r2_shared_state, floor=22),
    Rule('C18.R3', 'time/random/env/id/hash only in the three envelope/date sites and only into the allowed fields', r3_nondeterminism, floor=9),
    Rule('C18.R4', 'set values are sorted before any order-sensitive use', r4_set_order, floor=4),
    Rule('C18.R5', 'fresh reader/walker/error handler/index/maps per call', r5_fresh_objects, floor=9),
    Rule('C18.R7', 'no object/class/module state is a one-shot iterator (map/filter/zip/generator)', r7_no_one_shot_state, floor=1),
    Rule('C18.R8', 'scripts: every output stream passed to x12n_document inside a loop over input files is defined in that iteration (reaching definitions)', r8_per_document_streams, floor=5),
    Rule('C18.R9', 'the parameter object is read-only for the library (no .set, no store into its table, also through copies)', r9_parameters_are_read_only, floor=1),
    Rule('C18.R10', 'shared with C06.R6: the hand-kept counters of the 997 visitor are reset where their header is written', r10_shared_visitor_counters, floor=6),
    Rule('C18.R6', 'loaded map nodes keep no per-call state (shared with C16.R9)', r6_map_nodes_read_only, floor=2),
]
