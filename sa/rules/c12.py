"""C12 Validation results do not depend on delimiters or line layout."""
import ast

from ..core import Ob, Rule, AnalysisError, norm, KeyMaker
from ..cfg import path_of
from .. import astutil as A
from . import c01

META = {
    'explanation': (
        'R1 literal-delimiter audit: on the input path (rawx12file, the reader half of x12file, segment, map_if, '
        'map_walker, syntax, validation, error_handler, x12n_document, x12context) no one-character string literal '
        'from ~ * : ^ \\ | (nor a delimiter default parameter) is handed to Segment/Composite/split/join/find/'
        'startswith/format or compared with data, except the enumerated exemptions (element-less placeholder segments '
        'of the walker, text put into an error message), each re-verified; a positive control fixture proves the '
        'pattern still matches. R2 both acknowledgement visitors assign their delimiters from literals and the `term` '
        'parameter flows nowhere. R3 = C01.R4 (delimiter provenance), C01.R5 (strip set = CR, LF), C01.R6 (ISA not '
        'sub-split). R4 validation sees parsed values only: in map_if, map_walker, syntax and validation the result '
        'of formatting a segment/element back to text is never compared, searched or split - it only feeds error '
        'messages.'),
    'not_decided': 'the metamorphic equality itself (verdict, errors and acknowledgement body of the re-encoded text)',
    'trusted_base': ['enumerated exemptions in sa/rules/c12.py, one reason each'],
    'technique': 'static analysis: constant audit (who-may-use literal delimiters), provenance of call arguments, use-site audit of formatted text',
}


META['explanation'] += ' Rounds 4-5: ' + 'R6 (= C13.R1) the character-set recognisers accept every member of their set (any may be chosen as separator and is then validated as ISA16).'

DELIMS = set('~*:^\\|')
INPUT_MODULES = ('rawx12file', 'x12file', 'segment', 'map_if', 'map_walker', 'syntax', 'validation', 'error_handler',
                 'x12n_document', 'x12context', 'path', 'nodeCounter', 'map_index', 'dataele', 'codes')
SKIP_CLASSES = {('x12file', 'X12Writer')}     # the writer is not on the input path (it has its own delimiters by design)

# (module, function, what) -> reason.  Each exemption is checked to still have the shape that justifies it.
EXEMPT = {
    ('map_walker', 'walk_tree.walk', 'Segment'): 'placeholder for a missing mandatory segment: built from the map id only, no element, never parsed from input',
    ('map_walker', 'walk_tree._is_loop_match', 'Segment'): 'placeholder for a missing mandatory loop: built from the map id only',
    ('map_walker', 'walk_tree._seg_not_found_error', 'format'): 'HL text for the error message only',
    ('segment', 'Segment.__init__', 'default repetition_term'): 'stored, never used to split or join',
}


def _delim_literal(n):
    return isinstance(n, ast.Constant) and isinstance(n.value, str) and len(n.value) == 1 and n.value in DELIMS


def _scan(ctx, modname, tree_fn_iter):
    for q, fn in tree_fn_iter:
        # default parameters
        for a, d in zip(fn.args.args[len(fn.args.args) - len(fn.args.defaults):], fn.args.defaults):
            if _delim_literal(d):
                yield q, fn, 'default %s' % a.arg, d
        for n in ast.walk(fn):
            if isinstance(n, ast.Call):
                r, m = A.call_target(n)
                for a in list(n.args) + [k.value for k in n.keywords]:
                    if _delim_literal(a):
                        yield q, fn, m or '?', n
                        break
            elif isinstance(n, ast.Compare):
                if any(_delim_literal(x) for x in [n.left] + list(n.comparators)):
                    yield q, fn, 'compare', n
            elif isinstance(n, ast.Assign) and _delim_literal(n.value):
                yield q, fn, 'assign', n


def r1_literal_delimiters(ctx):
    km = KeyMaker()
    seen_ex = set()
    for name in INPUT_MODULES:
        m = ctx.mod(name)
        fns = []
        for n in m.tree.body:
            if isinstance(n, ast.FunctionDef):
                fns.append((n.name, n))
            elif isinstance(n, ast.ClassDef) and (name, n.name) not in SKIP_CLASSES:
                for c in n.body:
                    if isinstance(c, ast.FunctionDef):
                        fns.append((n.name + '.' + c.name, c))
        for q, fn, what, node in _scan(ctx, name, fns):
            ex = EXEMPT.get((name, q, what))
            if ex is None and name == 'map_walker' and what == 'Segment':
                # the placeholder exemption goes with the construct, not with the function a refactoring put it in
                ex = EXEMPT.get(('map_walker', 'walk_tree.walk', 'Segment'))
            key = km('%s:%s %s %s' % (name, q, what, norm(node, 60)))
            if ex:
                seen_ex.add((name, q, what))
                ok = True
                why = ''
                if what == 'Segment':
                    # placeholder: first argument built from a map node id, no element separator inside
                    a0 = node.args[0]
                    ok = (isinstance(a0, ast.BinOp) and A.const(a0.left) == '%s' and norm(a0.right).endswith('.id')) or \
                        (isinstance(a0, ast.Attribute) and a0.attr == 'id')
                    # ... of a map node: a name bound in this function from the map (parameter or loop variable), never segment data
                    base_nm = norm(a0.right if isinstance(a0, ast.BinOp) else a0).split('.')[0].strip('(')
                    ok = ok and base_nm not in ('seg_data', 'seg', 'self')
                    why = 'exempted placeholder no longer has the shape Segment(\'%s\' % node.id, ...)'
                if what == 'format':
                    par = A.parent(node)
                    ok = isinstance(par, ast.Assign) and path_of(par.targets[0]) == 'seg_str'
                    why = 'exempted message text is no longer assigned to seg_str'
                yield Ob(key, ok, ctx.loc(m, node), '' if ok else why, note='exempt: ' + ex)
            else:
                yield Ob(key, False, ctx.loc(m, node),
                         'a literal delimiter is used on the input path: results would depend on the delimiters the document declares')
    # positive control: the scanner must fire on a fixture that contains a literal delimiter in a split()
    fixture = ast.parse("def f(line):\n    return line.split('*')\n")
    hits = list(_scan(ctx, 'fixture', [('f', fixture.body[0])]))
    if len(hits) != 1:
        raise AnalysisError('literal-delimiter scanner no longer matches its positive control')
    yield Ob('positive control: scanner fires on line.split(\'*\')', True, 'sa/rules/c12.py', nontrivial=False)
    missing = set(EXEMPT) - seen_ex
    for ex in sorted(missing):
        yield Ob('exemption %s:%s %s still needed' % ex, True, 'sa/rules/c12.py', nontrivial=False, note='exempted construct no longer present')


def r2_ack_delimiters(ctx):
    for mod, cname in (('error_997', 'error_997_visitor'), ('error_999', 'error_999_visitor')):
        fn = ctx.func(mod, cname + '.__init__')
        got = {}
        for n in ast.walk(fn):
            if isinstance(n, ast.Assign):
                p = path_of(n.targets[0])
                if p in ('self.seg_term', 'self.ele_term', 'self.subele_term'):
                    got[p[5:]] = n.value
        for nm in ('seg_term', 'ele_term', 'subele_term'):
            v = got.get(nm)
            ok = isinstance(v, ast.Constant) and isinstance(v.value, str) and len(v.value) == 1
            yield Ob('%s:%s.__init__ %s is a literal' % (mod, cname, nm), ok, ctx.floc(fn),
                     '' if ok else '%s is assigned %s: the acknowledgement would follow the input\'s delimiters' % (nm, norm(v) if v is not None else None))
        vals = [A.const(got[k]) for k in ('seg_term', 'ele_term', 'subele_term') if k in got]
        ok = len(set(vals)) == 3
        yield Ob('%s:%s.__init__ the three delimiters differ' % (mod, cname), ok, ctx.floc(fn), '' if ok else 'delimiters %s' % vals)
        # `term` flows nowhere
        cls = ctx.cls(mod, cname)
        uses = [n for n in ast.walk(cls) if isinstance(n, ast.Name) and n.id == 'term' and isinstance(n.ctx, ast.Load)]
        yield Ob('%s:%s ignores the input terminators' % (mod, cname), not uses, 'pyx12/%s.py' % mod,
                 '' if not uses else 'parameter term is read at line %d' % uses[0].lineno)
        # literal delimiters used in the visitor must be the visitor's own
        own = {v for v in vals if isinstance(v, str)}
        bad = []
        for n in ast.walk(cls):
            if isinstance(n, ast.Call) and A.call_target(n)[1] in ('Segment', 'format', 'X12Writer'):
                for a in n.args[1:4]:
                    if isinstance(a, ast.Constant) and isinstance(a.value, str) and len(a.value) == 1 and a.value in DELIMS and a.value not in own:
                        bad.append(n)
        yield Ob('%s:%s literal delimiters agree with its own' % (mod, cname), not bad, 'pyx12/%s.py' % mod,
                 '' if not bad else 'line %d uses a delimiter other than %s' % (bad[0].lineno, sorted(own, key=str)))


def r3_shared_with_c01(ctx):
    for fn in (c01.r3_tokenizer_exits, c01.r4_delimiter_provenance, c01.r5_strip_set, c01.r6_isa_not_subsplit, c01.r11_reader_iteration):
        for o in fn(ctx):
            yield o


FORMAT_RECV = {'seg_data', 'seg', 'elem', 'comp_data', 'ele_data', 'comp', 'segment'}


def r4_parsed_values_only(ctx):
    km = KeyMaker()
    n_sites = 0
    for name in ('map_if', 'map_walker', 'syntax', 'validation'):
        m = ctx.mod(name)
        for q, fn in A.all_functions(m.tree):
            for n in ast.walk(fn):
                txt = None
                if isinstance(n, ast.Call) and isinstance(n.func, ast.Attribute) and n.func.attr in ('format', '__repr__', '__str__') \
                        and path_of(n.func.value) in FORMAT_RECV:
                    txt = n
                elif isinstance(n, ast.Call) and path_of(n.func) in ('str', 'repr') and n.args and path_of(n.args[0]) in FORMAT_RECV:
                    txt = n
                if txt is None:
                    continue
                n_sites += 1
                key = km('%s:%s %s' % (name, q, norm(txt, 60)))
                bad = None
                p = A.parent(txt)
                child = txt
                while p is not None and not isinstance(p, ast.stmt):
                    if isinstance(p, ast.Compare):
                        bad = 'compared'
                    if isinstance(p, ast.Call) and isinstance(p.func, ast.Attribute) and p.func.attr in ('split', 'find', 'startswith', 'endswith', 'index', 'count') \
                            and p.func.value is child:
                        bad = 'searched/split'
                    if isinstance(p, ast.Subscript) and p.value is child:
                        bad = 'indexed'
                    child = p
                    p = A.parent(p)
                if isinstance(p, (ast.If, ast.While)) and any(x is txt for x in ast.walk(p.test)):
                    bad = bad or 'tested'
                if isinstance(p, ast.Assign) and isinstance(p.targets[0], ast.Name) and bad is None:
                    var = p.targets[0].id
                    for x in ast.walk(fn):
                        if isinstance(x, ast.Name) and x.id == var and isinstance(x.ctx, ast.Load):
                            px = A.parent(x)
                            if isinstance(px, ast.Compare) or (isinstance(px, ast.Subscript) and px.value is x) or \
                                    (isinstance(px, ast.Attribute) and px.attr in ('split', 'find', 'startswith', 'endswith', 'index')):
                                bad = 'assigned to %s which is then compared/searched at line %d' % (var, x.lineno)
                yield Ob(key, bad is None, ctx.loc(m, txt),
                         '' if bad is None else 'the formatted text of a segment/element is %s: the result then depends on the delimiters' % bad)
    if n_sites < 2:
        raise AnalysisError('formatted-text audit found only %d sites' % n_sites)


def r5_defaulted_delimiters_not_read(ctx):
    """A Segment carries the delimiters it was built with.  The reader hands it the separators of the header; every
    delimiter parameter of Segment() it does NOT pass keeps a literal default that has nothing to do with the
    document.  Reading such an attribute of a segment on the input path makes a result depend on a character the
    document never declared (a document that happens to use the default character as a separator is then treated
    differently)."""
    init = ctx.func('segment', 'Segment.__init__')
    params = [a.arg for a in init.args.args][1:]
    ndef = len(init.args.defaults)
    defaulted = {}
    for p_, d in zip(params[len(params) - ndef:], init.args.defaults):
        if isinstance(d, ast.Constant) and isinstance(d.value, str):
            defaulted[p_] = d.value
    it = ctx.func('x12file', 'X12Reader.__iter__')
    segs = [c for c in A.calls_in(it) if A.call_target(c)[1] == 'Segment']
    if not segs:
        raise AnalysisError('X12Reader.__iter__ no longer builds Segment objects')
    passed = set(params[:len(segs[0].args)]) | {k.arg for k in segs[0].keywords}
    not_passed = {p_: v for p_, v in defaulted.items() if p_ not in passed}
    # attribute names under which Segment stores those parameters
    attr_of = {}
    for n in ast.walk(init):
        if isinstance(n, ast.Assign) and isinstance(n.value, ast.Name) and n.value.id in not_passed:
            for t in n.targets:
                if path_of(t) and path_of(t).startswith('self.'):
                    attr_of[path_of(t)[5:]] = n.value.id
    yield Ob('x12file:X12Reader.__iter__ Segment delimiter parameters left at a literal default: %s' % (sorted(not_passed) or 'none'),
             True, ctx.floc(it, segs[0]), nontrivial=False, note='attributes %s hold %s' % (sorted(attr_of), sorted(not_passed.values())))
    from ..callgraph import Graph, SEG
    cg = ctx.cached('callgraph', lambda: Graph(ctx))
    n_reads = 0
    for name in INPUT_MODULES:
        m = ctx.mod(name)
        for q, fn in A.all_functions(m.tree):
            if name == 'segment':
                continue
            fobj = cg.funcs.get('%s:%s' % (name, q))
            for n in ast.walk(fn):
                if isinstance(n, ast.Attribute) and isinstance(n.ctx, ast.Load) and n.attr in attr_of:
                    recv = path_of(n.value)
                    if recv is None or recv == 'self':
                        continue
                    kind = cg._kind(recv, fobj) if fobj is not None else None
                    if kind == SEG or (kind and any(c == 'Segment' for _m, c in kind)):
                        n_reads += 1
                        yield Ob('%s:%s reads %s.%s' % (name, q, recv, n.attr), False, ctx.loc(m, n),
                                 'the reader builds segments without passing %s: this attribute is the literal %r, not a delimiter of the '
                                 'document - a document that uses %r as a separator is judged differently from the same document with other '
                                 'delimiters' % (attr_of[n.attr], not_passed[attr_of[n.attr]], not_passed[attr_of[n.attr]]))
    yield Ob('input path reads no defaulted delimiter attribute of a Segment', n_reads == 0, 'pyx12/', '' if not n_reads else '%d read(s)' % n_reads)


def r7_split_at_the_declared_separator(ctx):
    """a composite is split at the separator it is given and nowhere else, whatever the text looks like: Composite.__init__
    decided by constant propagation for digit-only, mixed and empty component texts under the separators ':', '.', '-',
    '>' and '\\' - the components are exactly text.split(separator).  (A shortcut for "numbers" that treats '.' or '-'
    as part of a number makes the result depend on the separator the document declares.)"""
    from ..absint import traces, helper_oracles, NotClosedTest
    fn = ctx.func('segment', 'Composite.__init__')
    g = ctx.cfg(fn)
    bad = []
    runs = 0
    for sep in (':', '.', '-', '>', '\\'):
        for parts in (('12', '', '1'), ('1', '2', '3'), ('AB', 'C'), ('12',), ('',), ('1', ''), ('X9', '1'), ('20200101', '20200131')):
            text = sep.join(parts)
            funcs = helper_oracles(ctx, 'segment', {'Element': lambda t: ('Element', t)})
            try:
                res = traces(g, {'ele_str': text, 'subele_term': sep}, lambda c: None, funcs=funcs)
            except NotClosedTest as e:
                raise AnalysisError('Composite.__init__ cannot be decided for %r with separator %r: %s' % (text, sep, e))
            runs += 1
            want = tuple(('Element', t) for t in text.split(sep))
            for _tr, e_ in res:
                got = dict(e_).get('self.elements')
                if got != want and len(bad) < 3:
                    bad.append('%r with component separator %r becomes %s, not %s' % (text, sep, [x[1] if isinstance(x, tuple) else x for x in (got or ())], list(text.split(sep))))
    yield Ob('segment:Composite.__init__ splits at the given separator only', not bad, ctx.floc(fn), '' if not bad else bad[0], note='%d combinations' % runs)


def r6_charset_admits_every_delimiter_choice(ctx):
    """any character of the declared set may be chosen as component separator and is then validated as the value of
    ISA16; a character-set recogniser that rejects one member of its set makes the result depend on that choice.
    C13.R1 (shared): the character-set expressions equal the X12 basic / extended sets."""
    from . import c13
    for o in c13.r1_languages(ctx):
        yield o


def r8_no_state_between_documents(ctx):
    """the result for a document is the same under every encoding only if it depends on nothing but the document and the
    parameters of the call: a map, a verdict or a table remembered from an earlier validation (under another character
    set, another version) makes ISA16 - the one delimiter that is validated as a value - right or wrong by history.
    C15.R9 / C18.R2 (shared): the validating modules keep no module/class-level state."""
    from . import c15
    for o in c15.validator_keeps_no_state(ctx):
        yield o

def r9_formatting_is_the_same_for_every_delimiter(ctx):
    """the acknowledgement body and every re-written segment are produced by Segment.format / Composite.format with the
    delimiters chosen for the output: the text must be id, separator, elements, terminator whichever characters were
    chosen - also characters that mean something to a string template (% { } \\ $).  Decided by constant propagation
    through the two formatters for several such choices."""
    from ..absint import run_function, helper_oracles, NotClosedTest
    hf = helper_oracles(ctx, 'segment')
    fn = ctx.func('segment', 'Segment.format')
    fc = ctx.func('segment', 'Composite.format')

    class _Comp(object):
        _sa_model = True

        def __init__(self, v):
            self.v = v

        def format(self, st=None):
            return self.v + st + 'w'

        def is_empty(self):
            return False

    class _Ele(object):
        _sa_model = True

        def __init__(self, v):
            self.value = v

        def format(self):
            return self.value

        def get_value(self):
            return self.value

        def is_empty(self):
            return self.value == ''

        def __repr__(self):
            return self.value
    CHOICES = (('~', '*', ':'), ('%', '{', '}'), ('{', '%', '\\'), ('}', '\\', '%'), ('$', '}', '{'), ('\\', '$', '%'), ('%', '%', '%'))
    bad = []
    badc = []
    for st, et, ct in CHOICES:
        own = {'self.seg_id': 'ID', 'self.elements': (_Comp('a'), _Comp('b')), 'self.seg_term': '!', 'self.ele_term': '|', 'self.subele_term': '>'}
        want = 'ID' + et + 'a' + ct + 'w' + et + 'b' + ct + 'w' + st
        try:
            got = run_function(ctx.cfg(fn), fn, [None, st, et, ct], dict(hf, **{'Element.__repr__': lambda x: x.value}), env=own)
        except (NotClosedTest, A.NotClosed) as e:
            raise AnalysisError('Segment.format cannot be decided for the delimiters %r: %s' % ((st, et, ct), e))
        if got != want:
            bad.append('with terminator %r, separator %r, component separator %r a two-element segment is written as %r, expected %r' % (st, et, ct, got, want))
        cown = {'self.elements': (_Ele('a'), _Ele('b'), _Ele('')), 'self.subele_term': '>'}
        try:
            gotc = run_function(ctx.cfg(fc), fc, [None, ct], dict(hf, **{'Element.__repr__': lambda x: x.value}), env=cown)
        except (NotClosedTest, A.NotClosed) as e:
            raise AnalysisError('Composite.format cannot be decided for the separator %r: %s' % (ct, e))
        if gotc != 'a' + ct + 'b':
            badc.append('with component separator %r the components a, b are written as %r' % (ct, gotc))
    yield Ob('segment:Segment.format writes the same layout for every choice of delimiters', not bad, ctx.floc(fn),
             '' if not bad else bad[0] + ': the output depends on which characters were chosen')
    yield Ob('segment:Composite.format writes the same layout for every choice of separator', not badc, ctx.floc(fc),
             '' if not badc else badc[0])


def r10_shared_length_atoms(ctx):
    """ISA16 is the one delimiter that is validated as a value (length 1/1): its length must be measured on the value
    itself - for a non-numeric element no character is discounted - or a separator that is a minus sign or a point
    makes a valid document invalid.  C15.R3 (shared)."""
    from . import c15
    for o in c15.r3_sources_and_atoms(ctx):
        yield o


RULES = [
    Rule('C12.R1', 'no literal delimiter on the input path beyond the enumerated, re-verified exemptions', r1_literal_delimiters, floor=3),
    Rule('C12.R2', 'acknowledgement delimiters are literals; the input terminators flow nowhere in the visitors', r2_ack_delimiters, floor=7),
    Rule('C12.R3', 'delimiter provenance, CR/LF strip set, ISA not sub-split (shared with C01.R4-R6)', r3_shared_with_c01, floor=18),
    Rule('C12.R4', 'validation never inspects re-formatted text', r4_parsed_values_only, floor=1),
    Rule('C12.R7', 'Composite.__init__ splits exactly at the separator given, for every separator and text shape (constant propagation)', r7_split_at_the_declared_separator, floor=1),
    Rule('C12.R8', 'shared with C15.R9/C18.R2: the validating modules keep no module/class-level state and cache nothing across calls', r8_no_state_between_documents, floor=8),
    Rule('C12.R9', 'Segment.format / Composite.format give the same layout for every choice of delimiters, template characters included (constant propagation)', r9_formatting_is_the_same_for_every_delimiter, floor=2),
    Rule('C12.R10', 'shared with C15.R3: length atoms measure the right string (nothing discounted for non-numeric types)', r10_shared_length_atoms, floor=8),
    Rule('C12.R6', 'shared with C13.R1: the character-set recognisers accept every member of their set (any may be a separator, checked as ISA16)', r6_charset_admits_every_delimiter_choice, floor=15),
    Rule('C12.R5', 'no delimiter attribute of a Segment that the reader leaves at its literal default is read on the input path', r5_defaulted_delimiters_not_read, floor=1),
]
