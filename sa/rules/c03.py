"""C03 Every single injected fault is rejected and localised (localisation wiring)."""
import ast

from ..core import require_idiom, Ob, Rule, AnalysisError, norm, KeyMaker
from ..cfg import path_of
from .. import astutil as A

META = {
    'explanation': (
        'Decided is the localisation wiring. R1 in segment_if.is_valid, composite_if.is_valid and element_if.is_valid '
        'every report that reaches errh.ele_error (directly or through _error/_is_valid_code) is dominated, inside the '
        'same activation, by errh.add_ele(...) and no nested is_valid call (which re-targets the current element '
        'node) lies between that add_ele and the report: err_handler.ele_error attaches to cur_ele_node, which '
        'otherwise is the element validated before. R2 in map_walker every errh.seg_error is dominated by errh.add_seg '
        'in the same function (the caller adds the segment only after walk() returns, so without it the error lands '
        'on the previous segment). R3 no call of add_seg(map_node, seg_data, seg_count, cur_line, ls_id) or '
        'walk(node, seg_data, errh, seg_count, cur_line, ls_id) passes, at some position, an expression named after a '
        'different parameter. R4 message/code agreement in the three validators and the walker: each report whose '
        'message names a fault kind carries the standard X12 code of that kind (missing 1, too many 3, too short 4, '
        'too long 5, invalid character 6, invalid code 7, date 8, time 9, not used 10/5, segment not found 1, not '
        'used 2, mandatory missing 3, loop over limit 4, segment over limit 5).'),
    'not_decided': 'that each fault kind is detected at all, that nothing else is reported, that other sets stay accepted',
    'trusted_base': ['err_handler attaches element errors to cur_ele_node and segment errors to cur_seg_node (read from error_handler.py and re-checked by R1/R2 preamble)'],
    'technique': 'static analysis: dominance and path search on the CFG (pairing add_ele/ele_error, add_seg/seg_error), parameter-position audit, message/code table agreement',
}


META['explanation'] += ' Rounds 4-5: ' + 'R2 also: in x12n_document node.is_valid(seg, errh) is reached only through add_seg/add_*_loop/close_*_loop of the same iteration; _add_cur_seg/_add_cur_ele link the node on every path that marks it added. R8 (= C18.R2 restricted) the validating modules keep no module/class-level state.'

VALIDATORS = ('segment_if.is_valid', 'composite_if.is_valid', 'element_if.is_valid', 'element_if._is_valid_code')


def _preamble(ctx):
    """the facts R1/R2 rest on: ele_error uses cur_ele_node; add_ele replaces it; seg_error uses cur_seg_node"""
    f = ctx.func('error_handler', 'err_handler.ele_error')
    ok1 = 'self.cur_ele_node.add_error' in ast.unparse(f)
    f2 = ctx.func('error_handler', 'err_handler.add_ele')
    ok2 = all('self.cur_ele_node = err_ele(' in ast.unparse(s) for s in ast.walk(f2) if isinstance(s, ast.Assign) and path_of(s.targets[0]) == 'self.cur_ele_node')
    f3 = ctx.func('error_handler', 'err_handler.seg_error')
    ok3 = 'self.cur_seg_node.add_error' in ast.unparse(f3)
    if not (ok1 and ok2 and ok3):
        raise AnalysisError('err_handler no longer attaches errors to cur_ele_node/cur_seg_node: C03 rules need re-derivation')


def _is_report(x):
    if not isinstance(x, ast.Call):
        return False
    r, m = A.call_target(x)
    return (r == 'errh' and m == 'ele_error') or (r == 'self' and m == '_error')


def r1_element_attachment(ctx):
    _preamble(ctx)
    km = KeyMaker()
    # _is_valid_code reports through _error; its only caller must be element_if.is_valid after add_ele
    for qual in VALIDATORS:
        fn = ctx.func('map_if', qual)
        g = ctx.cfg(fn)
        dom = g.dominators()
        adds = [n for n in g.nodes if any(isinstance(x, ast.Call) and A.call_target(x) == ('errh', 'add_ele') for x in g.walk_exprs(n))]
        reps = [(n, x) for n in g.nodes for x in g.walk_exprs(n) if _is_report(x)]
        if qual == 'element_if._is_valid_code':
            # interprocedural: called only from element_if.is_valid, where add_ele(self) dominates the call
            callers = []
            for q2, f2 in ctx.functions('map_if'):
                for c in A.calls_in(f2):
                    if A.call_target(c) == ('self', '_is_valid_code'):
                        callers.append((q2, f2, c))
            ok = len(callers) == 1 and callers[0][0] == 'element_if.is_valid'
            if ok:
                g2 = ctx.cfg(callers[0][1])
                d2 = g2.dominators()
                cn = [n for n in g2.nodes if any(x is callers[0][2] for x in g2.walk_exprs(n))][0]
                a2 = [n for n in g2.nodes if any(isinstance(x, ast.Call) and A.call_target(x) == ('errh', 'add_ele') and path_of(x.args[0]) == 'self' for x in g2.walk_exprs(n))]
                ok = any(a.id in d2[cn.id] for a in a2)
            for n, x in reps:
                yield Ob(km('map_if:%s %s' % (qual, norm(x, 50))), ok, ctx.floc(fn, x),
                         '' if ok else '_is_valid_code is reached without a dominating add_ele(self) in its caller')
            continue
        for n, x in reps:
            code = A.const(x.args[0]) if A.call_target(x)[1] == 'ele_error' else (A.const(x.args[2]) if len(x.args) > 2 else None)
            key = km('map_if:%s report code %s' % (qual, code))
            da = [a for a in adds if a.id in dom[n.id] and a.id != n.id]
            if not da:
                yield Ob(key, False, ctx.floc(fn, x),
                         'ele_error is not preceded by errh.add_ele(...) in this activation: the error is attached to the element '
                         'validated before (wrong element position / data element in AK4/IK4)')
                continue
            # between the last dominating add_ele and the report no nested is_valid call may run
            a = max(da, key=lambda z: len(dom[z.id]))

            def is_nested_valid(z):
                return any(isinstance(y, ast.Call) and A.call_target(y)[1] == 'is_valid' for y in g.walk_exprs(z))
            p = g.find_path(a, lambda z: z is n, blocked=None, edge_ok=None, use_exc=False)
            # does some path from a to n pass a nested is_valid?  search for nested node reachable from a and reaching n
            nested = [z for z in g.nodes if is_nested_valid(z) and z is not n and z is not a]
            polluted = None
            for z in nested:
                if g.find_path(a, lambda y: y is z, blocked=lambda y: y is n) is not None and \
                        g.find_path(z, lambda y: y is n, blocked=lambda y: y is a) is not None:
                    polluted = z
                    break
            yield Ob(key, polluted is None, ctx.floc(fn, x),
                     '' if polluted is None else 'a nested is_valid() call (line %s) runs between add_ele and this report and re-targets the current element' % polluted.lineno)


def attach_on_first_report(ctx):
    """an error node that add_seg / add_ele created is linked into the error tree when its first error arrives
    (_add_cur_seg, _add_cur_ele): on every path on which the `*_node_added` flag is raised the node was appended to
    its parent's list first - a node that is marked as added without being linked keeps its errors out of the
    acknowledgement and the HTML report (verdict False, nothing to explain it)"""
    for meth, flag, lst in (('_add_cur_seg', 'self.seg_node_added', 'children'), ('_add_cur_ele', 'self.ele_node_added', 'elements')):
        fn = ctx.func('error_handler', 'err_handler.' + meth)
        g = ctx.cfg(fn)
        sets = [nd for nd in g.nodes if nd.kind == 'stmt' and isinstance(nd.ast, ast.Assign) and any(path_of(t) == flag for t in nd.ast.targets)
                and A.const(nd.ast.value) is True]
        if not sets:
            raise AnalysisError('err_handler.%s: the flag %s is not raised here any more' % (meth, flag))

        def links(nd):
            return any(isinstance(x, ast.Call) and isinstance(x.func, ast.Attribute) and x.func.attr in ('append', 'insert')
                       and isinstance(x.func.value, ast.Attribute) and x.func.value.attr == lst for x in g.walk_exprs(nd))
        path = None
        for s_ in sets:
            path = path or g.find_path(g.entry, lambda nd, s_=s_: nd is s_, blocked=links)
        yield Ob('error_handler:err_handler.%s links the node before it marks it as added' % meth, path is None, ctx.floc(fn),
                 '' if path is None else '%s becomes True on a path that does not append the node to .%s (via lines %s): the errors stored in it are never reported'
                 % (flag, lst, [n_.lineno for n_ in path if n_.lineno][-3:]))


def r2_segment_attachment(ctx):
    _preamble(ctx)
    for o in attach_on_first_report(ctx):
        yield o
    km = KeyMaker()
    m = ctx.mod('map_walker')
    total = 0
    for q, fn in ctx.functions('map_walker'):
        g = ctx.cfg(fn)
        dom = g.dominators()
        adds = [n for n in g.nodes if any(isinstance(x, ast.Call) and A.call_target(x) == ('errh', 'add_seg') for x in g.walk_exprs(n))]
        for n in g.nodes:
            for x in g.walk_exprs(n):
                if isinstance(x, ast.Call) and A.call_target(x) == ('errh', 'seg_error'):
                    total += 1
                    code = A.const(x.args[0]) if x.args else norm(x.args[0])
                    ok = any(a.id in dom[n.id] for a in adds)
                    note = None
                    if not ok and _only_for_not_used(g, n):
                        # "found but marked as not used": not in the property's fault catalogue, and unreachable with the
                        # shipped maps as long as none declares a not-used segment or a non-empty not-used loop (re-checked here)
                        offenders = _not_used_nodes(ctx)
                        if not offenders:
                            ok = True
                            note = 'discharged by data: no shipped map has a not-used segment / non-empty not-used loop'
                        else:
                            note = 'armed because %s declares a not-used node' % offenders[0]
                    yield Ob(km('map_walker:%s seg_error(%s)' % (q, code if code is not None else norm(x.args[0]))), ok, ctx.floc(fn, x),
                             '' if ok else 'seg_error without a preceding add_seg in this function: the caller adds the segment only after '
                             'walk() returns, so the error is attached to the previous segment (wrong position in AK3/IK3)', note=note)
    if total < 5:
        raise AnalysisError('map_walker: only %d seg_error sites found' % total)
    # x12n_document: the segment about to be validated was registered with the error tree in this iteration - element
    # errors of node.is_valid() are attached to the handler's current segment node, which otherwise is still the
    # previous segment (or the ST/GS loop node): verdict False but no AK3/IK3 for the segment at fault
    fn = ctx.func('x12n_document', 'x12n_document')
    g = ctx.cfg(fn)
    REG = ('add_seg', 'add_isa_loop', 'add_gs_loop', 'add_st_loop', 'close_isa_loop', 'close_gs_loop', 'close_st_loop')
    valid_nodes = [nd for nd in g.nodes if any(isinstance(x, ast.Call) and A.call_target(x)[1] == 'is_valid' and x.args and path_of(x.args[0]) == 'seg'
                                               for x in g.walk_exprs(nd))]
    heads = [nd for nd in g.nodes if nd.kind == 'for' and norm(nd.stmt.iter) == 'src']
    if len(valid_nodes) != 1 or len(heads) != 1:
        raise AnalysisError('x12n_document: segment loop / node.is_valid(seg, errh) not found (%d/%d)' % (len(heads), len(valid_nodes)))

    def registers(nd):
        return any(isinstance(x, ast.Call) and A.call_target(x)[0] == 'errh' and A.call_target(x)[1] in REG for x in g.walk_exprs(nd))
    path = g.find_path(heads[0], lambda nd: nd is valid_nodes[0], blocked=registers)
    yield Ob('x12n_document:x12n_document every validated segment was registered with the error tree first', path is None, ctx.floc(fn, valid_nodes[0].stmt),
             '' if path is None else 'node.is_valid(seg, errh) is reached without add_seg/add_*_loop/close_*_loop in this iteration (via lines %s): '
             'element errors of that segment are attached to the previous segment or loop node, so the acknowledgement does not locate them'
             % ', '.join(str(nd.ast.lineno) for nd in path if getattr(nd, 'ast', None) is not None and hasattr(nd.ast, 'lineno'))[-120:])


def _only_for_not_used(g, node):
    """the report is control dependent on a `<node>.usage == 'N'` test (true edge)"""
    dom = g.dominators()[node.id]
    for d in dom:
        t = g.nodes[d]
        if t.kind == 'test' and isinstance(t.ast, ast.Compare) and norm(t.ast).endswith(".usage == 'N'"):
            if any(l == 'T' and (s.id in dom or s.id == node.id) for s, l in t.succ):
                return True
    return False


def _not_used_nodes(ctx):
    from . import datarules as D
    out = []
    for n in D.all_nodes(ctx):
        if n.usage == 'N' and (n.kind == 'segment' or (n.kind == 'loop' and n.children)):
            out.append(D.nodekey(n))
    return out


SIGS = {'add_seg': ['map_node', 'seg_data', 'seg_count', 'cur_line', 'ls_id'],
        'walk': ['node', 'seg_data', 'errh', 'seg_count', 'cur_line', 'ls_id']}
ALIASES = {'seg': 'seg_data', 'seg_node': 'map_node', 'loop_node': 'map_node', 'orig_node': 'map_node', 'first_child_node': 'map_node',
           'self.x12_map_node': 'node'}


def _terminal(e):
    if isinstance(e, ast.Call) and isinstance(e.func, ast.Attribute):
        nm = e.func.attr
        return nm[4:] if nm.startswith('get_') else nm
    p = path_of(e)
    if p is None:
        return None
    p = ALIASES.get(p, p)
    return p.split('.')[-1]


def r3_positions(ctx):
    km = KeyMaker()
    n_calls = 0
    for name in ('x12n_document', 'map_walker', 'x12context'):
        m = ctx.mod(name)
        for q, fn in A.all_functions(m.tree):
            for c in A.calls_in(fn):
                r, meth = A.call_target(c)
                if meth not in SIGS or r is None or r in ('self',) and meth == 'walk':
                    continue
                if meth == 'walk' and 'walker' not in r:
                    continue
                sig = SIGS[meth]
                n_calls += 1
                bad = []
                for i, a in enumerate(c.args):
                    if i >= len(sig):
                        bad.append('extra argument %s' % norm(a))
                        continue
                    t = _terminal(a)
                    if t in sig and t != sig[i] and not (sig[i] in ('map_node', 'node') and t in ('map_node', 'node')):
                        bad.append('position %d (%s) receives %s' % (i + 1, sig[i], norm(a)))
                if len(c.args) != len(sig):
                    bad.append('%d arguments for %d parameters' % (len(c.args), len(sig)))
                yield Ob(km('%s:%s %s(...)' % (name, q, meth)), not bad, ctx.loc(m, c), '; '.join(bad))
    if n_calls < 6:
        raise AnalysisError('only %d add_seg/walk call sites found' % n_calls)
    # the signatures themselves
    f = ctx.func('error_handler', 'err_handler.add_seg')
    ok = [a.arg for a in f.args.args][1:] == SIGS['add_seg']
    yield Ob('error_handler:err_handler.add_seg signature', ok, ctx.floc(f), '' if ok else 'parameters %s' % [a.arg for a in f.args.args][1:])
    f = ctx.func('map_walker', 'walk_tree.walk')
    ok = [a.arg for a in f.args.args][1:] == SIGS['walk']
    yield Ob('map_walker:walk_tree.walk signature', ok, ctx.floc(f), '' if ok else 'parameters %s' % [a.arg for a in f.args.args][1:])
    # err_seg stores seg_count / cur_line from the parameters of the same name
    f = ctx.func('error_handler', 'err_seg.__init__')
    got = {path_of(s.targets[0]): path_of(s.value) for s in ast.walk(f) if isinstance(s, ast.Assign) and path_of(s.targets[0]) in ('self.seg_count', 'self.cur_line', 'self.ls_id')}
    ok = got == {'self.seg_count': 'seg_count', 'self.cur_line': 'cur_line', 'self.ls_id': 'ls_id'}
    yield Ob('error_handler:err_seg.__init__ stores position fields from the parameters of the same name', ok, ctx.floc(f), '' if ok else str(got))
    f = ctx.func('error_handler', 'err_ele.__init__')
    txt = ast.unparse(f)
    ok = 'self.ele_pos = map_node.parent.seq' in txt and 'self.subele_pos = map_node.seq' in txt and 'self.ele_pos = map_node.seq' in txt
    require_idiom(ok, 'c03.py:214')
    yield Ob('error_handler:err_ele.__init__ element/component position from the map node', ok, ctx.floc(f), '' if ok else 'position assignment changed')


# message fragment -> allowed codes (X12 AK304 / AK403 code meanings)
ELE_CODES = [('is missing', {'1'}), ('Too many', {'3'}), ('too short', {'4'}), ('too long', {'5'}), ('invalid control character', {'6'}),
             ('invalid character', {'6'}), ('invalid composite', {'6'}), ('unnecessary trailing spaces', {'6'}),
             ('not a valid code', {'7'}), ('regular expression', {'7'}), ('invalid date', {'8'}), ('invalid time', {'9'}),
             ('At least one component', {'2'}), ('marked as Not Used', {'10', '5'})]
SEG_CODES = [('not found', {'1'}), ('marked as not used', {'2'}), ('Mandatory segment', {'3'}), ('Mandatory loop', {'3'}),
             ('Loop %s exceeded max count', {'4'}), ('Segment %s exceeded max count', {'5'})]


def _msg_of(fn, call, strarg):
    """the message template text reaching `strarg` of the call: literal or the local's assigned template(s)"""
    e = strarg

    def lit(x):
        if isinstance(x, ast.Constant) and isinstance(x.value, str):
            return x.value
        if isinstance(x, ast.BinOp) and isinstance(x.op, ast.Mod):
            return lit(x.left)
        if isinstance(x, ast.BinOp) and isinstance(x.op, ast.Add):
            return (lit(x.left) or '') + (lit(x.right) or '')
        if isinstance(x, ast.Call) and isinstance(x.func, ast.Attribute) and x.func.attr == 'format':
            return lit(x.func.value)
        return None
    if isinstance(e, ast.Name):
        # nearest preceding assignment in the same block chain
        node = call
        while node is not None:
            par = A.parent(node)
            if par is None:
                break
            for field in ('body', 'orelse'):
                lst = getattr(par, field, None)
                if isinstance(lst, list) and node in lst:
                    for st in reversed(lst[:lst.index(node)]):
                        if isinstance(st, ast.Assign) and path_of(st.targets[0]) == e.id:
                            return lit(st.value)
            node = par
        return None
    return lit(e)


def r4_codes(ctx):
    km = KeyMaker()
    n = 0
    for qual in VALIDATORS:
        fn = ctx.func('map_if', qual)
        for c in A.calls_in(fn):
            if not _is_report(c):
                continue
            if A.call_target(c)[1] == 'ele_error':
                code, msgarg = A.const(c.args[0]), c.args[1]
            else:
                code, msgarg = A.const(c.args[2]), c.args[1]
            msg = _msg_of(fn, c, msgarg)
            if msg is None or code is None:
                continue
            for frag, codes in ELE_CODES:
                if frag in msg:
                    n += 1
                    ok = code in codes
                    yield Ob(km('map_if:%s "%s" -> code' % (qual, frag)), ok, ctx.floc(fn, c),
                             '' if ok else 'the report "%s" carries code %r, the X12 code for this fault is %s' % (msg[:50], code, '/'.join(sorted(codes))))
                    break
    for q, fn in ctx.functions('map_walker'):
        for c in A.calls_in(fn):
            if A.call_target(c) == ('errh', 'seg_error') and A.const(c.args[0]) is not None:
                msg = _msg_of(fn, c, c.args[1])
                if msg is None:
                    continue
                for frag, codes in SEG_CODES:
                    if frag in msg:
                        n += 1
                        ok = A.const(c.args[0]) in codes
                        yield Ob(km('map_walker:%s "%s" -> code' % (q, frag)), ok, ctx.floc(fn, c),
                                 '' if ok else 'the report "%s" carries code %r, expected %s' % (msg[:50], A.const(c.args[0]), '/'.join(sorted(codes))))
                        break
            # deferred mandatory-missing tuples: (node, fake_seg, code, err_str, ...)
            if A.call_target(c) == ('self.mandatory_segs_missing', 'append') and isinstance(c.args[0], ast.Tuple) and len(c.args[0].elts) >= 4:
                code = A.const(c.args[0].elts[2])
                msg = _msg_of(fn, c, c.args[0].elts[3])
                if msg:
                    for frag, codes in SEG_CODES:
                        if frag in msg:
                            n += 1
                            ok = code in codes
                            yield Ob(km('map_walker:%s deferred "%s" -> code' % (q, frag)), ok, ctx.floc(fn, c),
                                     '' if ok else 'deferred report carries code %r, expected %s' % (code, '/'.join(sorted(codes))))
                            break
    if n < 20:
        raise AnalysisError('message/code audit matched only %d reports' % n)


def r5_shared_element_checks(ctx):
    """the element-level detection atoms the fault catalogue relies on, decided by C15.R3 / C15.R6 (shared)"""
    from . import c15
    for o in c15.r3_sources_and_atoms(ctx):
        yield o
    for o in c15.r6_delegation_always_runs(ctx):
        yield o
    # a missing required element / component is only reported if the node at its position is asked about `None`
    for o in c15._delegation_by_position(ctx):
        yield o
    # an impossible day, hour or minute is one of the faults of the catalogue: the field atoms of the date / time recognisers
    from . import c13
    for o in c13.r3_atoms(ctx):
        yield o

def r6_shared_walker(ctx):
    """a missing mandatory segment/loop, an exceeded repeat limit and an unexpected segment are found by the walker
    atoms of C02.R5 / R10: the same wiring that must not accuse a conformant document must not excuse a faulty one"""
    from . import c02
    for o in c02.r5_walker_wiring(ctx):
        yield o
    for o in c02.r10_wrapper_loops(ctx):
        yield o
    for o in c02.r12_repeat_limits(ctx):
        yield o


def r9_shared_error_totals(ctx):
    """"the verdict is false" for a segment-level fault rests on the error totals alone: C05.R14 (shared)"""
    from . import c05
    for o in c05.r14_error_totals(ctx):
        yield o


def r8_no_state_between_documents(ctx):
    """a fault is detected whatever was validated before in the same process: C15.R9 / C18.R2 (shared)"""
    from . import c15
    for o in c15.validator_keeps_no_state(ctx):
        yield o


def r7_shared_syntax(ctx):
    """a broken syntax note is one of the faults of the catalogue: the semantics of the note evaluation and its routing
    are the obligations of C14.R3/R4"""
    from . import c14
    for fn in (c14.r3_semantics, c14.r4_routing):
        for o in fn(ctx):
            yield o


def r10_shared_character_classes(ctx):
    """a value of the wrong character class is rejected: the string / identifier recogniser must reject every value that
    has a character outside the set the interchange declares (basic, extended, 5010 extended), numbers, dates and times
    every text outside their language.  C13.R1 (shared): regular expressions equal the X12 value languages, the
    selector picks the set the call names, and the wrappers return the expression's verdict."""
    from . import c13
    for o in c13.r1_languages(ctx):
        yield o


RULES = [
    Rule('C03.R1', 'element reports dominated by a fresh add_ele in the same activation', r1_element_attachment, floor=15),
    Rule('C03.R2', 'walker segment reports dominated by add_seg in the same function', r2_segment_attachment, floor=3),
    Rule('C03.R3', 'position arguments of add_seg / walk are not crossed; position fields stored by name', r3_positions, floor=7),
    Rule('C03.R4', 'message/code agreement with the X12 code meanings', r4_codes, floor=15),
    Rule('C03.R5', 'shared with C15.R3/R4/R6: length atoms measure the right string with the right code; delegated checks always run, for present and for missing positions', r5_shared_element_checks, floor=19),
    Rule('C03.R6', 'shared with C02.R5: walker counting/ordering atoms (pending mandatory nodes are reported, limits, positions)', r6_shared_walker, floor=10),
    Rule('C03.R9', 'shared with C05.R14: error totals are sums over the whole error tree', r9_shared_error_totals, floor=3),
    Rule('C03.R8', 'shared with C18.R2: the validating modules keep no module/class-level state and cache nothing across calls', r8_no_state_between_documents, floor=8),
    Rule('C03.R10', 'shared with C13.R1: recogniser languages, selector table and wrappers (a wrong character class is rejected)', r10_shared_character_classes, floor=15),
    Rule('C03.R7', 'shared with C14.R3/R4: syntax-note semantics and routing', r7_shared_syntax, floor=8),
]
