"""C15 Element/composite validation enforces exactly what the map declares."""
import ast
import itertools

from ..core import require_idiom, Ob, Rule, AnalysisError, norm, KeyMaker
from ..cfg import path_of
from .. import astutil as A
from . import datarules as D

META = {
    'explanation': (
        'R1 reported => False: in segment_if.is_valid, composite_if.is_valid, element_if.is_valid and '
        '_is_valid_code no path leads from an error report to a return that can still yield True (the result is '
        'cleared or False is returned on every such path). R2 False => reported: every constant-False result '
        '(`return False`, `valid = False`) is preceded on every path by a report, a failed _is_valid_code (whose own '
        'False is preceded by a report) or lies in a branch that shipped data make unreachable (the silent branch of '
        'the date/time type list, discharged by data: every 1250 code list and the DTP02 tuple name only date/time '
        'formats). R3 definition sources and comparison atoms: type and length bounds come only from '
        'DataElements.get_by_elem_num(self.data_ele); the numeric length is measured with exactly "-" and "." removed '
        'and only for R/N types; "too short"/"too long" are evaluated over (length, min, max) in 0..8 and equal '
        'len<min / len>max with codes 4/5; the external code test calls ExternalCodes.isValid with the element\'s own '
        'code set; exclude_external_codes flows from param into ExternalCodes. R4 presence/usage decision of '
        'element_if.is_valid and composite_if.is_valid evaluated over all combinations of (value present, usage, '
        'position in composite, composite usage) against the X12 rule (missing iff required; not-used iff present '
        'and N). R5 data: min_len <= max_len for every data element, every element regex compiles. R6 every delegated is_valid() call '
        'of segment_if/composite_if.is_valid runs regardless of the result accumulated so far (no short-circuit, no `if valid` guard) '
        'and is and-ed into the result.'),
    'not_decided': 'that the set of error codes is exactly the set implied for every value (needs the joint behaviour of all checks)',
    'trusted_base': ['callee summary of _is_valid_code (re-derived each run)', 'sa/astutil.ev finite evaluator'],
    'technique': 'static analysis: path search on the CFG (report/result pairing both directions), finite evaluation of comparison atoms, source-of-definition audit',
}


META['explanation'] += ' Rounds 4-5: ' + 'R4 absent/empty value decided by constant propagation over usage x position x composite usage; delegation by position decided for N<=3 children x L<=4 data positions. R9 (= C18.R2 restricted) no state in the validating modules.'
META['technique'] = META.get('technique', 'static analysis: AST/CFG rules over /repo source + shipped XML data') + '; conditional constant propagation over the CFG on finite, complete input domains (DESIGN.md 10.4.1)'

FUNCS = ('segment_if.is_valid', 'composite_if.is_valid', 'element_if.is_valid', 'element_if._is_valid_code')


def _is_report(x):
    if not isinstance(x, ast.Call):
        return False
    r, m = A.call_target(x)
    return (r == 'errh' and m == 'ele_error') or (r == 'self' and m == '_error')


def _clears(n):
    a = n.ast
    if n.kind != 'stmt' or a is None:
        return False
    if isinstance(a, ast.Assign) and path_of(a.targets[0]) in ('valid', 'bValidCode') and A.const(a.value) is False:
        return True
    if isinstance(a, ast.AugAssign) and path_of(a.target) == 'valid' and isinstance(a.op, ast.BitAnd) and A.const(a.value) is False:
        return True
    return False


def r1_reported_implies_false(ctx):
    km = KeyMaker()
    for qual in FUNCS:
        fn = ctx.func('map_if', qual)
        g = ctx.cfg(fn)
        reps = [n for n in g.nodes if any(_is_report(x) for x in g.walk_exprs(n))]
        for r in reps:
            def bad_return(n):
                return n.kind == 'return' and A.const(n.ast.value) is not False
            path = g.find_path(r, bad_return, blocked=_clears)
            code = next((norm(x.args[0] if A.call_target(x)[1] == 'ele_error' else x.args[2]) for x in g.walk_exprs(r) if _is_report(x)), '?')
            yield Ob(km('map_if:%s report %s clears the result' % (qual, code)), path is None, ctx.floc(fn, r.stmt),
                     '' if path is None else 'after this report a path reaches `%s` without clearing the result: an error is reported but the '
                     'element counts as valid' % norm(path[-1].ast), detail={'path': [repr(p) for p in (path or [])][-6:]})


def _date_type_lists_ok(ctx):
    """every 1250 code list and the DTP02 tuple only name formats the silent branch knows how to report"""
    known = {'TM', 'RD8', 'DT', 'D8', 'D6'}
    bad = []
    for n in D.all_nodes(ctx):
        if n.kind == 'element' and n.data_ele == '1250':
            extra = set(n.codes) - known
            if extra:
                bad.append('%s lists %s' % (D.nodekey(n), sorted(extra)))
    fn = ctx.func('map_if', 'segment_if.is_valid')
    for c in ast.walk(fn):
        if isinstance(c, ast.Compare) and isinstance(c.ops[0], ast.In) and "get_value('02')" in norm(c.left) and isinstance(c.comparators[0], (ast.Tuple, ast.List)):
            extra = {A.const(x) for x in c.comparators[0].elts} - known
            if extra:
                bad.append('DTP02 tuple lists %s' % sorted(extra))
    return bad


def r2_false_implies_reported(ctx):
    km = KeyMaker()
    for qual in FUNCS:
        fn = ctx.func('map_if', qual)
        g = ctx.cfg(fn)

        def reports(n):
            for x in g.walk_exprs(n):
                if _is_report(x):
                    return True
            return False

        def failed_code_check_edge(a, l, b):
            return True
        clears = [n for n in g.nodes if _clears(n) or (n.kind == 'return' and A.const(n.ast.value) is False)]
        # a test on `not self._is_valid_code(...)`: its T edge is a reported failure
        code_tests = {n.id for n in g.nodes if n.kind == 'test' and any(isinstance(x, ast.Call) and A.call_target(x) == ('self', '_is_valid_code') for x in g.walk_exprs(n))}
        for c in clears:
            if qual.endswith('_is_valid_code') and c.kind == 'stmt' and path_of(c.ast.targets[0]) == 'bValidCode':
                continue   # initialisation of the accumulator, not a verdict
            # the F edge of `self._is_valid_code(...)` is a failed code check (reported inside the callee)
            path = g.find_path(g.entry, lambda n: n is c, blocked=reports,
                               edge_ok=lambda a, l, b: not (a.id in code_tests and l == 'F'))
            note = None
            ok = path is None
            if not ok:
                # silent branch of the date/time type list?
                # (the verdict stands inside an `if` on the type list: it is control dependent on that test)
                tl = False
                anc = A.parent(c.stmt)
                while anc is not None and anc is not fn:
                    if isinstance(anc, ast.If) and ('valid_type' in norm(anc.test) or 'type_list' in norm(anc.test, 200)):
                        tl = True
                    anc = A.parent(anc)
                tl = tl and qual.startswith('element_if')
                if tl:
                    bad = _date_type_lists_ok(ctx)
                    if not bad:
                        ok = True
                        note = 'silent only when the type list names no date/time format: discharged by data (all 1250 code lists and the DTP02 tuple name only TM/RD8/DT/D8/D6)'
                    else:
                        note = bad[0]
            yield Ob(km('map_if:%s `%s` is preceded by a report' % (qual, norm(c.ast))), ok, ctx.floc(fn, c.stmt),
                     '' if ok else 'the result becomes False here on a path without any report: the segment is rejected with no error to explain it'
                     + (' (%s)' % note if note else ''), note=note if ok else None, detail={'path': [repr(p) for p in (path or [])][-6:]})


def r3_sources_and_atoms(ctx):
    fn0 = ctx.func('map_if', 'element_if.is_valid')
    NAMES = {"data_ele['data_type']": 'data_type', "data_ele['min_len']": 'min_len', "data_ele['max_len']": 'max_len',
             'elem.get_value()': 'elem_val'}
    fn, found = A.named_view(fn0, NAMES)
    # definition lookups
    src = {}
    for s in ast.walk(fn):
        if isinstance(s, ast.Assign) and isinstance(s.targets[0], ast.Name):
            src.setdefault(s.targets[0].id, []).append(s.value)
    ok = [norm(v) for v in src.get('data_ele', [])] == ['self.root.data_elements.get_by_elem_num(self.data_ele)']
    yield Ob('map_if:element_if.is_valid definition looked up by the element\'s own data element number', ok, ctx.floc(fn),
             '' if ok else 'data_ele is bound from %s' % [norm(v) for v in src.get('data_ele', [])])
    for nm in ('data_type', 'min_len', 'max_len'):
        ok = ("data_ele['%s']" % nm) in found and all(norm(v) == nm for v in src.get(nm, []))
        yield Ob('map_if:element_if.is_valid %s comes from the data element definition' % nm, ok, ctx.floc(fn),
                 '' if ok else '%s is bound from %s' % (nm, [norm(v) for v in src.get(nm, [])]))
    # length rule, decided over a finite domain by constant propagation through the region that measures the value:
    # for every data type, value, minimum and maximum the reported codes must be those of the standard
    # (numeric types R/N*: sign and decimal point are not counted; every other type: the raw length)
    from ..absint import explore
    g = ctx.cfg(fn)
    FLD = {'data_type', 'min_len', 'max_len'}
    mention = [nd for nd in g.nodes if nd.ast is not None and any(isinstance(x, ast.Name) and x.id in FLD and isinstance(x.ctx, ast.Load)
                                                                   for x in g.walk_exprs(nd))]
    if not mention:
        raise AnalysisError('element_if.is_valid: no statement reads the data type or the length bounds')
    start = min(mention, key=lambda nd: nd.id)
    report_nodes = {}
    for nd in g.nodes:
        for x in g.walk_exprs(nd):
            if isinstance(x, ast.Call) and _is_report(x) and len(x.args) > 2 and A.const(x.args[2]) in ('4', '5'):
                report_nodes[nd.id] = A.const(x.args[2])
    if set(report_nodes.values()) != {'4', '5'}:
        yield Ob('map_if:element_if.is_valid has a min and a max length test for numeric and for non-numeric types', False, ctx.floc(fn),
                 'length codes reported: %s' % sorted(set(report_nodes.values())))
        return
    def _unknown(nd, env):
        if any(isinstance(x, ast.Name) and x.id in ('min_len', 'max_len') for x in ast.walk(nd.ast)):
            raise AnalysisError('element_if.is_valid: a test on the length bounds cannot be evaluated: %s' % norm(nd.ast))

    # nothing but the sign and the decimal point is taken out of the value before it is measured
    removed = set()
    for x in ast.walk(fn):
        if isinstance(x, ast.Call) and isinstance(x.func, ast.Attribute) and x.func.attr in ('replace', 'translate', 'strip', 'lstrip'):
            root = x.func.value
            while isinstance(root, ast.Call) and isinstance(root.func, ast.Attribute):
                root = root.func.value
            if path_of(root) in ('elem_val', 'elem_strip'):
                removed.add(tuple(A.const(a_) for a_ in x.args) if x.func.attr == 'replace' else (x.func.attr,))
    ok = removed <= {('-', ''), ('.', '')}
    yield Ob('map_if:element_if.is_valid sign and point are not counted (and nothing else is removed)', ok, ctx.floc(fn),
             '' if ok else 'characters removed before measuring: %s' % sorted(map(str, removed - {('-', ''), ('.', '')})))
    VALS = ('12', '-12', '1.2', '-1.2', '-1.25', 'ab-c.', 'abcd', 'a b ', '1-2-3', '100', '-10.0', '0.50', '+12', '1,234', ' 12 ', 'E1')
    BOUNDS = ((1, 3), (3, 3), (2, 5), (4, 4), (5, 9), (1, 1))
    n_eval = 0
    for dt in ('R', 'N', 'N0', 'N2', 'ID', 'AN', 'DT', 'TM', 'B', None):
        numeric = dt is not None and (dt == 'R' or dt[0] == 'N')
        bad = None
        for val in VALS:
            measure = len(val.replace('-', '').replace('.', '')) if numeric else len(val)
            for lo, hi in BOUNDS:
                n_eval += 1
                try:
                    vis = explore(g, {'data_type': dt, 'min_len': lo, 'max_len': hi, 'elem_val': val}, unknown='both', on_unknown=_unknown)
                except RuntimeError as e:
                    raise AnalysisError('element_if.is_valid: %s' % e)
                got = {report_nodes[i] for i in vis if i in report_nodes}
                want = set()
                if measure < lo:
                    want.add('4')
                if measure > hi:
                    want.add('5')
                if got != want and bad is None:
                    bad = (val, lo, hi, sorted(got), sorted(want), measure)
        yield Ob('map_if:element_if.is_valid length of a %s value is measured as the standard says' % (dt or 'typeless'), bad is None,
                 ctx.floc(fn, start.stmt if start.stmt is not None else fn),
                 '' if bad is None else 'value %r with min %d max %d: codes %s reported, %s expected (%s length %d)'
                 % (bad[0], bad[1], bad[2], bad[3], bad[4], 'without sign and point the' if numeric else 'raw', bad[5]),
                 detail={'evaluated': len(VALS) * len(BOUNDS)})
    # external codes
    f2 = ctx.func('map_if', 'element_if._is_valid_code')
    calls = [c for c in A.calls_in(f2) if A.call_target(c)[1] == 'isValid']
    ok = len(calls) == 1 and norm(calls[0].func.value) == 'self.root.ext_codes' and [norm(a) for a in calls[0].args[:2]] == ['self.external_codes', 'elem_val']
    yield Ob('map_if:element_if._is_valid_code asks ExternalCodes.isValid(own code set, value)', ok, ctx.floc(f2), '' if ok else 'call %s' % [norm(c) for c in calls])
    ok = any(isinstance(n, ast.Compare) and isinstance(n.ops[0], ast.In) and path_of(n.left) == 'elem_val' and path_of(n.comparators[0]) == 'self.valid_codes' for n in ast.walk(f2))
    yield Ob('map_if:element_if._is_valid_code tests the inline code list', ok, ctx.floc(f2), '' if ok else 'inline membership test changed')
    # acceptance logic, decided by constant propagation through the function: accepted (True returned, nothing reported)
    # iff the element has neither list nor external set, or the value is in the inline list, or the external set
    # accepts it - whatever the shape of the code (flag variable, three ifs, one boolean expression)
    from ..absint import explore as _explore
    g2 = ctx.cfg(f2)
    rep_nodes = {nd.id for nd in g2.nodes if any(isinstance(x, ast.Call) and _is_report(x) for x in g2.walk_exprs(nd))}
    true_rets = {nd.id for nd in g2.nodes if nd.kind == 'return' and A.const(nd.ast.value) is True}
    bad = []
    n_eval = 0
    for codes, ext, member, extvalid in itertools.product(((), ('A',)), (None, 'states'), (False, True), (False, True)):
        if member and not codes:
            continue
        if extvalid and ext is None:
            continue
        env = {'self.valid_codes': codes, 'self.external_codes': ext, 'elem_val': 'A' if member else 'Z'}
        funcs = {'self.root.ext_codes.isValid': lambda k, v, ev_=extvalid: ev_}

        def _unk(nd, e):
            raise AnalysisError('element_if._is_valid_code: a test depends on more than the inline list and the external set: %s' % norm(nd.ast))
        n_eval += 1
        try:
            vis = _explore(g2, env, funcs=funcs, on_unknown=_unk)
        except RuntimeError as e:
            raise AnalysisError('element_if._is_valid_code: %s' % e)
        acc = bool(vis & true_rets) and not (vis & rep_nodes)
        rej = bool(vis & rep_nodes)
        want = (not codes and ext is None) or member or (ext is not None and extvalid)
        if acc != want or rej == want:
            bad.append('codes=%s external=%s member=%s external-valid=%s -> %s' % (codes, ext, member, extvalid, 'accepted' if acc else 'rejected'))
    yield Ob('map_if:element_if._is_valid_code three accepting conditions', bool(rep_nodes) and bool(true_rets), ctx.floc(f2),
             '' if rep_nodes and true_rets else 'no accepting return / no report found')
    yield Ob('map_if:element_if._is_valid_code accepts iff in the inline list or in the external set (or no list at all)', not bad, ctx.floc(f2),
             '' if not bad else bad[0], detail={'evaluated': n_eval})
    # exclusion list from param
    init = ctx.func('map_if', 'map_if.__init__')
    ec = [c for c in A.calls_in(init) if A.call_target(c)[1] == 'ExternalCodes']
    ok = len(ec) == 1 and len(ec[0].args) >= 2 and norm(ec[0].args[1]) == "param.get('exclude_external_codes')"
    yield Ob('map_if:map_if.__init__ passes exclude_external_codes from param to ExternalCodes', ok, ctx.floc(init), '' if ok else 'construction %s' % [norm(c) for c in ec])
    isv = ctx.func('codes', 'ExternalCodes.isValid')
    txt = ast.unparse(isv)
    ok = 'key in self.exclude_list' in txt and "code in self.codes[key]['codes']" in txt
    require_idiom(ok, 'c15.py:285')
    yield Ob('codes:ExternalCodes.isValid honours the exclusion list and tests membership', ok, ctx.floc(isv), '' if ok else 'isValid changed')
    ci = ctx.func('codes', 'ExternalCodes.__init__')
    # the exclusion parameter is a comma separated text: what is kept must be the sequence of its ids (isValid tests `key in`
    # it - against the raw text that is a substring test: excluding claim_status_cat would switch off claim_status too)
    binds = [st for st in ast.walk(ci) if isinstance(st, ast.Assign) and len(st.targets) == 1 and path_of(st.targets[0]) == 'self.exclude_list']
    require_idiom(len(binds) >= 1, 'c15.py:288')
    msg_x = ''
    for text_, want_ in (('states,claim_status_cat', ('states', 'claim_status_cat')), ('states', ('states',)), (None, ())):
        got_ = []
        for st in binds:
            try:
                got_.append(A.ev(st.value, {'exclude': text_}))
            except (A.NotClosed, TypeError, AttributeError, ValueError):
                got_.append('?')
        # (an `if exclude is None` split into two statements: the one that applies is the one that evaluates - to a sequence for
        #  a text, to the empty default for None; the other may not evaluate at all, None has no split)
        got_ = [g_ for g_ in got_ if g_ != '?']
        require_idiom(bool(got_), 'c15.py:288')
        cand = [g_ for g_ in got_ if (text_ is None and g_ in ((), None)) or (text_ is not None and g_ not in ((), None))] or got_
        g0 = cand[0]
        if isinstance(g0, str) or (isinstance(g0, (tuple, frozenset)) and tuple(g0) != want_ and set(g0) != set(want_)) or g0 is None and want_:
            msg_x = msg_x or 'exclude_external_codes=%r is kept as %r, expected the ids %s: membership in it is then not a test for a whole id' % (text_, g0, list(want_))
    yield Ob('codes:ExternalCodes.__init__ splits the exclusion list on commas', not msg_x, ctx.floc(ci), msg_x)
    # charset and version reach the recogniser
    dt = [c for c in A.calls_in(fn) if A.call_target(c)[1] == 'IsValidDataType']
    def resolved(a):
        # a local bound once in the function stands for the expression it was bound to
        seen = 0
        while isinstance(a, ast.Name) and seen < 5:
            defs = [st.value for st in ast.walk(fn) if isinstance(st, ast.Assign) and len(st.targets) == 1 and path_of(st.targets[0]) == a.id]
            if len(defs) != 1:
                break
            a = defs[0]
            seen += 1
        return norm(a)
    want = [('elem_val', 'elem.get_value()'), ('data_type', "data_ele['data_type']", "self.root.data_elements.get_by_elem_num(self.data_ele)['data_type']"),
            ("self.root.param.get('charset')",), ('self.root.icvn',)]
    main = [c for c in dt if len(c.args) == 4]
    ok = len(dt) == 2 and len(main) == 1 and all(resolved(a) in w for a, w in zip(main[0].args, want))
    yield Ob('map_if:element_if.is_valid hands value, type, charset and version to the recogniser', ok, ctx.floc(fn), '' if ok else 'calls %s' % [norm(c) for c in dt])


def r4_presence_usage(ctx):
    fn = ctx.func('map_if', 'element_if.is_valid')
    # the absent/empty block
    blk = None
    # An absent or empty value, decided by constant propagation through is_valid for every combination of usage, position in
    # a composite and usage of that composite: not-used and situational elements are valid without a report; a required
    # one is reported with code 1 and invalid - except the first component of a composite that is not itself required.
    from ..absint import traces, NotClosedTest
    g = ctx.cfg(fn)

    class _Elem(object):
        _sa_model = True

        def get_value(self):
            return ''

        def is_composite(self):
            return False

        def __hash__(self):
            return 1

        def __eq__(self, o):
            return isinstance(o, _Elem)
    bad = []
    codes_seen = set()
    n_runs = 0
    for elem, u, seq, pcomp, pus in itertools.product((None, _Elem()), ('N', 'S', 'R'), (1, 2), (False, True), ('R', 'S', 'N')):
        env = {'elem': elem, 'self.usage': u, 'self.seq': seq, 'self.parent.usage': pus, 'self.parent.is_composite()': pcomp}
        if elem is not None:
            env['elem.get_value()'] = ''
            env['elem.is_composite()'] = False
        funcs = {'self.parent.is_composite': lambda pc=pcomp: pc}
        try:
            res = traces(g, env, lambda c: 'report' if _is_report(c) else None, funcs=funcs, returns=True)
        except NotClosedTest as e:
            raise AnalysisError('element_if.is_valid: the handling of an absent value cannot be decided (usage %s): %s' % (u, e))
        n_runs += 1
        outs = set()
        for tr, _e in res:
            reps = tuple(a_[1][2] if len(a_[1]) > 2 else None for a_ in tr if a_[0] == 'report')
            rets = [a_[1][0] for a_ in tr if a_[0] == '@return']
            outs.add((reps, rets[-1] if rets else None))
        exempt = (seq == 1 and pcomp and pus != 'R')
        want = {((), True)} if (u in ('N', 'S') or exempt) else {(('1',), False)}
        for reps, _r in outs:
            codes_seen.update(reps)
        if outs != want:
            bad.append('%s value, usage=%s seq=%d in_composite=%s composite_usage=%s: reports %s' % (
                'absent' if elem is None else 'empty', u, seq, pcomp, pus, sorted(outs, key=repr)))
    yield Ob('map_if:element_if.is_valid absent value: usage N, S and R handled', not [b_ for b_ in bad if 'usage=R' not in b_], ctx.floc(fn),
             '' if not [b_ for b_ in bad if 'usage=R' not in b_] else [b_ for b_ in bad if 'usage=R' not in b_][0], note='%d combinations' % n_runs)
    badr = [b_ for b_ in bad if 'usage=R' in b_]
    yield Ob('map_if:element_if.is_valid required and absent is reported (first component of a situational composite excepted)', not badr, ctx.floc(fn),
             '' if not badr else badr[0])
    yield Ob('map_if:element_if.is_valid missing -> code 1', codes_seen == {'1'}, ctx.floc(fn), '' if codes_seen == {'1'} else 'codes %s' % sorted(map(str, codes_seen)))
    # not used but present
    nu = [s for s in fn.body if isinstance(s, ast.If) and "self.usage == 'N'" in norm(s.test)]
    ok = len(nu) == 1
    if ok:
        bad = []
        for u, v in itertools.product(('N', 'S', 'R'), ('', 'X')):
            got = bool(A.ev(nu[0].test, {'self.usage': u, 'elem.get_value()': v}))
            if got != (u == 'N' and v != ''):
                bad.append((u, v, got))
        ok = not bad and any(isinstance(s, ast.Return) and A.const(s.value) is False for s in nu[0].body)
    yield Ob('map_if:element_if.is_valid value in a not-used element is reported', ok, ctx.floc(fn), '' if ok else 'not-used test changed')
    # composite: what is reported and answered before / besides the delegation, decided by constant propagation over
    # usage x data (absent, all components empty, values in some components, more components than the map defines)
    cf = ctx.func('map_if', 'composite_if.is_valid')
    gcf = ctx.cfg(cf)

    class _Sub(object):
        _sa_model = True

        def __init__(self, v):
            self.v = v

        def get_value(self):
            return self.v

    class _Comp(object):
        _sa_model = True

        def __init__(self, vals):
            self.subs = tuple(_Sub(v) for v in vals)

        def __len__(self):
            return len(self.subs)

        def __getitem__(self, i):
            return self.subs[i]

        def is_empty(self):
            return not any(x.v for x in self.subs)

        def __repr__(self):
            return ':'.join(x.v for x in self.subs)
    bad = []
    for u, vals in itertools.product(('N', 'S', 'R'), (None, ('',), ('', ''), ('A',), ('', 'B'), ('A', 'B', 'C'))):
        comp = None if vals is None else _Comp(vals)
        nkids = 2
        kids = tuple(_Child(i, 'element') for i in range(nkids))
        env = {'comp_data': comp, 'self.usage': u, 'self.children': kids, 'self.name': 'n', 'self.refdes': 'r'}
        funcs = {'self.get_child_count': lambda: nkids, 'self.get_child_node_by_idx': lambda i: kids[i], 'self.__len__': lambda: nkids}

        def key(c):
            if _is_report(c):
                return 'report'
            return 'is_valid@recv' if A.call_target(c)[1] == 'is_valid' else None
        try:
            res = traces(gcf, env, key, funcs=funcs, returns=True)
        except NotClosedTest as e:
            raise AnalysisError('composite_if.is_valid cannot be decided for usage %s and data %r: %s' % (u, comp, e))
        blank = comp is None or comp.is_empty()
        if blank and u in ('N', 'S'):
            want = ((), True, 0)
        elif u == 'R' and blank:
            want = (('2',), False, 0)
        elif u == 'N':
            want = (('5',), False, 0)
        else:
            want = (('3',) if len(vals) > nkids else (), None, nkids)
        for tr, _e in res:
            reps = tuple(a_[1][0] for a_ in tr if a_[0] == 'report')
            rets = [a_[1][0] for a_ in tr if a_[0] == '@return']
            ndel = len([a_ for a_ in tr if a_[0] == 'is_valid@recv'])
            got = (reps, rets[-1] if rets else None, ndel)
            if (got[0], got[2]) != (want[0], want[2]) or (want[1] is not None and got[1] is not want[1]):
                bad.append('usage %s, data %s: reports %s, answers %r, asks %d of its %d components; expected reports %s%s, %d asked' % (
                    u, 'absent' if comp is None else repr(str(comp)), list(got[0]), got[1], got[2], nkids, list(want[0]),
                    '' if want[1] is None else ', answer %r' % want[1], want[2]))
    yield Ob('map_if:composite_if.is_valid empty composite is valid iff not required', not [b_ for b_ in bad if 'usage N' not in b_ or "data ''" in b_ or 'absent' in b_],
             ctx.floc(cf), '' if not bad else bad[0])
    yield Ob('map_if:composite_if.is_valid data in a not-used composite is reported', not [b_ for b_ in bad if 'usage N' in b_], ctx.floc(cf),
             '' if not [b_ for b_ in bad if 'usage N' in b_] else [b_ for b_ in bad if 'usage N' in b_][0])
    yield Ob('map_if:composite_if.is_valid too many components reported', not [b_ for b_ in bad if "A:B:C" in b_], ctx.floc(cf),
             '' if not [b_ for b_ in bad if "A:B:C" in b_] else [b_ for b_ in bad if "A:B:C" in b_][0])
    # delegation covers present and missing components: one loop over range(min(len(DATA), N)) validating DATA[i],
    # one over range(min(len(DATA), N), N) validating None - N being the child count, in a local or re-read
    for o in _delegation_by_position(ctx):
        yield o


class _Child(object):
    """a child node of a segment / composite map node, as the delegating validator sees it"""
    _sa_model = True

    def __init__(self, i, kind):
        self.i, self.kind = i, kind
        self.data_ele = '66'
        self.valid_codes = ()
        self.usage = 'S'

    def is_composite(self):
        return self.kind == 'composite'

    def is_element(self):
        return self.kind == 'element'

    def __hash__(self):
        return hash(('child', self.i))

    def __eq__(self, o):
        return isinstance(o, _Child) and o.i == self.i

    def __repr__(self):
        return 'child%d' % self.i


class _Data(object):
    """a data segment / composite with L positions: len(), [i], get('NN'), get_value('NN'), is_empty(), get_seg_id()"""
    _sa_model = True

    def __init__(self, n):
        self.n = n

    def __len__(self):
        return self.n

    def __getitem__(self, i):
        if not 0 <= i < self.n:
            raise IndexError(i)
        return ('data', i)

    def get(self, refdes):
        i = int(refdes[-2:]) - 1
        return ('data', i) if 0 <= i < self.n else None

    def get_value(self, refdes):
        return 'v'

    def get_seg_id(self):
        return 'NM1'

    def is_empty(self):
        return self.n == 0

    def __hash__(self):
        return hash(('data', self.n))

    def __eq__(self, o):
        return isinstance(o, _Data) and o.n == self.n


def _delegation_by_position(ctx):
    """each child node validates the data at its own position, the children beyond the data validate None (absent):
    decided by constant propagation through the delegating validator for every number of children N <= 3 and data
    length L <= 4 - the sequence of child.is_valid(data, ..) calls must be (child i, data i) for i < min(L, N), then
    (child i, None) up to N, each child exactly once and in order."""
    from ..absint import traces, NotClosedTest
    for fq, dname in (('composite_if.is_valid', 'comp_data'), ('segment_if.is_valid', 'seg_data')):
        f_ = ctx.func('map_if', fq)
        g = ctx.cfg(f_)
        bad = None
        runs = 0
        for N in (1, 2, 3):
            for L in range(1 if fq.startswith('composite') else 0, 5):    # (an empty situational composite is accepted as a whole, before any delegation)
                for kind in (('element', 'composite') if fq.startswith('segment') else ('element',)):
                    kids = tuple(_Child(i, kind) for i in range(N))
                    data = _Data(L)
                    env = {'self.children': kids, dname: data, 'self.usage': 'S', 'self.syntax': (), 'self.get_child_count()': N}
                    funcs = {'self.get_child_count': lambda N=N: N, 'self.get_child_node_by_idx': lambda i, kids=kids: kids[i],
                             'self.__len__': lambda N=N: N}
                    try:
                        res = traces(g, env, lambda c: 'is_valid@recv' if A.call_target(c)[1] == 'is_valid' else None, funcs=funcs)
                    except NotClosedTest as e:
                        raise AnalysisError('%s: the delegation to the children cannot be decided (N=%d, L=%d): %s' % (fq, N, L, e))
                    runs += 1
                    m = min(L, N)
                    want = tuple([(kids[i], ('data', i)) for i in range(m)] + [(kids[i], None) for i in range(m, N)])
                    for tr, _e in res:
                        got = tuple((a_[1][0], a_[1][1] if len(a_[1]) > 1 else '?') for a_ in tr if a_[0] == 'is_valid@recv')
                        if got != want and bad is None:
                            bad = (N, L, got, want)
        yield Ob('map_if:%s validates present %s and then the missing ones' % (fq, 'components' if 'composite' in fq else 'elements'), bad is None, ctx.floc(f_),
                 '' if bad is None else 'with %d children and %d data positions the children validate %s; expected %s' % bad, note='%d combinations' % runs)


def r6_delegation_always_runs(ctx):
    """every delegated is_valid() call of the three validators is evaluated regardless of the result accumulated so far:
    a short-circuit (`valid and child.is_valid()`) or an `if valid:` guard drops the child's error reports"""
    km = KeyMaker()
    n = 0
    for qual in ('segment_if.is_valid', 'composite_if.is_valid'):
        fn = ctx.func('map_if', qual)
        for c in A.calls_in(fn):
            if A.call_target(c)[1] != 'is_valid':
                continue
            n += 1
            bad = None
            p_ = A.parent(c)
            child = c
            while p_ is not None and p_ is not fn:
                if isinstance(p_, ast.BoolOp):
                    idx = p_.values.index(child) if child in p_.values else -1
                    if idx > 0 and any('valid' == path_of(x) for v in p_.values[:idx] for x in ast.walk(v)):
                        bad = 'it is the right operand of `%s`: not evaluated once valid is already False' % norm(p_)
                if isinstance(p_, ast.IfExp) and child is not p_.test and any(path_of(x) == 'valid' for x in ast.walk(p_.test)):
                    bad = 'it is evaluated only when `%s`' % norm(p_.test)
                if isinstance(p_, (ast.If, ast.While)) and child not in [p_.test] and any(path_of(x) == 'valid' for x in ast.walk(p_.test)) \
                        and not any(x is c for x in ast.walk(p_.test)):
                    bad = 'it is guarded by `%s`' % norm(p_.test)
                child = p_
                p_ = A.parent(p_)
            yield Ob(km('map_if:%s %s always runs' % (qual, norm(c, 60))), bad is None, ctx.floc(fn, c),
                     '' if bad is None else 'delegated check %s: the errors of this child are dropped when an earlier one failed' % bad)
            # accumulation operator
            st = A.enclosing(c, (ast.stmt,))
            ok = isinstance(st, ast.AugAssign) and isinstance(st.op, ast.BitAnd) and path_of(st.target) == 'valid' and st.value is c
            yield Ob(km('map_if:%s %s result is and-ed into valid' % (qual, norm(c, 60))), ok or bad is not None, ctx.floc(fn, c),
                     '' if ok or bad is not None else 'result is not accumulated with `valid &= ...`: %s' % norm(st))
    if n < 5:
        raise AnalysisError('only %d delegated is_valid calls found' % n)


def r5_data(ctx):
    ms = ctx.maps
    for num, d in sorted(ms.dataele.items()):
        ok = d['min_len'] is not None and d['max_len'] is not None and 0 <= d['min_len'] <= d['max_len']
        yield Ob('dataele.xml ele_num=%s min<=max' % num, ok, 'pyx12/map/dataele.xml', '' if ok else 'min_len=%r max_len=%r' % (d['min_raw'], d['max_raw']))
    import re
    for n in D.all_nodes(ctx):
        if n.kind == 'element' and n.regex:
            try:
                re.compile(n.regex, re.S)
                ok = True
            except re.error:
                ok = False
            yield Ob('%s regex compiles' % D.nodekey(n), ok, D.where(n), '' if ok else 'regex %r' % n.regex)


def r7_dtp_format_from_qualifier(ctx):
    """"the date/time format is the one chosen by the preceding qualifier": decided by constant propagation through
    segment_if.is_valid on a DTP segment (qualifier, format qualifier DTP02, value) for every DTP02 - the list of formats
    handed to the validator of DTP03 holds the qualifier actually sent in DTP02 and nothing else (nothing when DTP02 is
    not a date/time format) - and on a segment with a 1250/1251 pair: the list for the 1251 element is the code list of
    the 1250 element before it."""
    from ..absint import traces, NotClosedTest
    fn = ctx.func('map_if', 'segment_if.is_valid')
    g = ctx.cfg(fn)

    class _Seg(object):
        _sa_model = True

        def __init__(self, sid, vals):
            self.sid, self.vals = sid, tuple(vals)

        def __len__(self):
            return len(self.vals)

        def get_seg_id(self):
            return self.sid

        def get(self, rd):
            i = int(rd[-2:]) - 1
            return ('ele', i) if 0 <= i < len(self.vals) else None

        def get_value(self, rd):
            i = int(rd[-2:]) - 1
            return self.vals[i] if 0 <= i < len(self.vals) else None

        def __hash__(self):
            return hash((self.sid, self.vals))

        def __eq__(self, o):
            return isinstance(o, _Seg) and (o.sid, o.vals) == (self.sid, self.vals)

    def kids_for(eles, codes):
        out = []
        for i, de in enumerate(eles):
            c = _Child(i, 'element')
            c.data_ele = de
            c.valid_codes = codes if de == '1250' else ()
            out.append(c)
        return tuple(out)
    bad = []
    runs = 0
    DT = ('RD8', 'D8', 'D6', 'DT', 'TM')
    for sid, eles, vals, codes in [('DTP', ('374', '1250', '1251'), ('434', q, '20040101'), ('D8', 'RD8')) for q in DT + ('XX', '')] \
            + [('DMG', ('1250', '1251', '1068'), ('D8', '19700101', 'F'), ('D8',)), ('DMG', ('1250', '1251', '1068'), ('D8', '19700101', 'F'), ('D8', 'D6', 'CC'))]:
        kids = kids_for(eles, codes)
        seg = _Seg(sid, vals)
        env = {'self.children': kids, 'seg_data': seg, 'self.usage': 'R', 'self.syntax': (), 'self.name': 'n'}
        funcs = {'self.get_child_count': lambda kids=kids: len(kids), 'self.get_child_node_by_idx': lambda i, kids=kids: kids[i],
                 'self.__len__': lambda kids=kids: len(kids)}
        try:
            res = traces(g, env, lambda c: 'is_valid@recv' if A.call_target(c)[1] == 'is_valid' else None, funcs=funcs)
        except NotClosedTest as e:
            raise AnalysisError('segment_if.is_valid: the format list of a %s segment cannot be decided: %s' % (sid, e))
        runs += 1
        idx = eles.index('1251')
        if sid == 'DTP':
            want = (vals[1],) if vals[1] in DT else ()
        else:
            want = tuple(codes)
        for tr, _e in res:
            calls = [a_[1] for a_ in tr if a_[0] == 'is_valid@recv' and a_[1] and a_[1][0] is kids[idx]]
            if len(calls) != 1:
                bad.append('%s: element %02d is validated %d times' % (sid, idx + 1, len(calls)))
                continue
            lst = calls[0][3] if len(calls[0]) > 3 else ()
            lst = tuple(lst) if isinstance(lst, (tuple, list)) else lst
            if lst != want:
                bad.append('%s with %s: the formats handed to the validator of element %02d are %s, the qualifier says %s' % (
                    sid, '*'.join(vals), idx + 1, list(lst) if isinstance(lst, tuple) else lst, list(want)))
    yield Ob('map_if:segment_if.is_valid DTP03 format list holds only the qualifier sent in DTP02', not bad, ctx.floc(fn),
             '' if not bad else bad[0] + ': a value in any other format the map allows would be accepted', note='%d segments' % runs)


def r8_exclusion_list(ctx):
    """exclusions are switched per code set: the excluded ids are kept as a LIST of ids (the parameter split at the
    commas) and tested by membership.  Kept as the raw string, `key in exclude` is a substring test: excluding
    claim_status_cat would also switch off claim_status."""
    fn = ctx.func('codes', 'ExternalCodes.__init__')
    vals = []
    for n in ast.walk(fn):
        if isinstance(n, ast.Assign) and any(path_of(t) == 'self.exclude_list' for t in n.targets):
            vals.append(n.value)
    if not vals:
        raise AnalysisError('codes: assignment of self.exclude_list not found')

    def is_list(v):
        if isinstance(v, ast.IfExp):
            return is_list(v.body) and is_list(v.orelse)
        if isinstance(v, (ast.List, ast.ListComp, ast.Tuple)):
            return True
        if isinstance(v, ast.Call) and isinstance(v.func, ast.Attribute) and v.func.attr == 'split' and v.args and A.const(v.args[0]) == ',':
            return True
        if isinstance(v, ast.Call) and path_of(v.func) in ('list', 'set', 'frozenset', 'tuple') and v.args and is_list(v.args[0]):
            return True
        return False
    bad = [v for v in vals if not is_list(v)]
    yield Ob('codes:ExternalCodes.__init__ exclude_list is the list of excluded ids', not bad, ctx.floc(fn, bad[0] if bad else vals[0]),
             '' if not bad else '`%s` is not a list of ids: membership in it is a substring test' % norm(bad[0]))
    iv = ctx.func('codes', 'ExternalCodes.isValid')
    tests = [n for n in ast.walk(iv) if isinstance(n, ast.Compare) and len(n.ops) == 1 and isinstance(n.ops[0], ast.In)
             and path_of(n.comparators[0]) == 'self.exclude_list']
    ok = len(tests) == 1 and path_of(tests[0].left) == 'key'
    yield Ob('codes:ExternalCodes.isValid tests the code set id for membership in the exclusions', ok, ctx.floc(iv), '' if ok else 'exclusion test changed')


VALIDATOR_MODULES = ('map_if', 'codes', 'dataele', 'validation', 'syntax', 'map_walker', 'nodeCounter', 'error_handler')


def validator_keeps_no_state(ctx):
    """what an element is checked against (code lists, exclusions, data element definitions, limits) belongs to the map
    object that was loaded with the caller's parameters: the validating modules keep no module- or class-level object
    that a function fills or changes, and cache no result across calls - a cache keyed by less than everything the
    result depends on answers one document with another one's configuration.  C18.R2 (shared), restricted to the
    validating modules."""
    from . import c18
    n = 0
    for o in c18.r2_shared_state(ctx):
        if any(o.key.startswith(m + ' ') for m in VALIDATOR_MODULES):
            n += 1
            yield o
    if n < 8:
        raise AnalysisError('shared-state audit reached only %d objects of the validating modules' % n)


def r9_no_state_between_documents(ctx):
    for o in validator_keeps_no_state(ctx):
        yield o


def r10_shared_time_date_atoms(ctx):
    """a value that meets its declared type is not reported: the date/time field bounds of the recognisers equal the clock and the calendar (C13.R3 / R4, shared)"""
    from . import c13
    # (and the numeric / character-set value languages themselves: R1)
    for fn in (c13.r3_atoms, c13.r4_lengths, c13.r1_languages):
        for o in fn(ctx):
            yield o

def r11_control_characters(ctx):
    """"containing a control character": contains_control_character decided by constant propagation - a value that holds
    any of the control characters the function's own tables name (BEL HT LF VT FF CR FS GS RS US and the extended
    SOH..ETB set), alone, first, last or in the middle, is reported with a printable name; a value of letters, digits,
    blanks and punctuation is not; the answer does not depend on the position of the character or on what else the
    value holds."""
    from ..absint import run_function, helper_oracles, NotClosedTest
    fn = ctx.func('validation', 'contains_control_character')
    hf = helper_oracles(ctx, 'validation')
    consts = A.module_constants(ctx.mod('validation').tree)
    # module-level tables that are computed by a helper of the module (built once at import): their value by constant propagation
    for st_ in ctx.mod('validation').tree.body:
        if isinstance(st_, ast.Assign) and len(st_.targets) == 1 and isinstance(st_.targets[0], ast.Name) and st_.targets[0].id not in consts:
            try:
                v_ = A.ev(st_.value, consts, hf)
                hash(v_)
                consts[st_.targets[0].id] = v_
            except Exception:
                pass
    CONTROL = [0x07, 0x09, 0x0A, 0x0B, 0x0C, 0x0D, 0x1C, 0x1D, 0x1E, 0x1F, 0x01, 0x02, 0x03, 0x04, 0x05, 0x06, 0x11, 0x12, 0x13, 0x14, 0x15, 0x16, 0x17]
    bad = []
    n = 0

    def run(v):
        try:
            return run_function(ctx.cfg(fn), fn, [v], hf, env=dict(consts))
        except (NotClosedTest, A.NotClosed) as e:
            raise AnalysisError('contains_control_character cannot be decided for %r: %s' % (v, e))
    for c in CONTROL:
        for v in (chr(c), 'AB' + chr(c), chr(c) + 'AB', 'A' + chr(c) + 'B', 'A B.' + chr(c) + chr(c)):
            got = run(v)
            n += 1
            if not (isinstance(got, tuple) and len(got) == 2 and got[0] is True and isinstance(got[1], str) and got[1].isprintable() and got[1]):
                bad.append('a value holding the control character 0x%02X (%r) gives %r' % (c, v, got))
    for v in ('', ' ', 'ABC', 'abc 123', 'A~B*C:D', '!"&\'()+,-./;?=', '<BEL>', '\\x07', 'A B'):
        got = run(v)
        n += 1
        if got != (False, None):
            bad.append('the value %r, which holds no control character, gives %r' % (v, got))
    yield Ob('validation:contains_control_character reports exactly the values that hold a listed control character', not bad, ctx.floc(fn),
             '' if not bad else bad[0], note='%d values' % n)


RULES = [
    Rule('C15.R11', 'contains_control_character decided for every listed control character x position, and for plain values', r11_control_characters, floor=1),
    Rule('C15.R1', 'reported => result False (path search from every report)', r1_reported_implies_false, floor=15),
    Rule('C15.R2', 'result False => reported (path search to every constant False)', r2_false_implies_reported, floor=11),
    Rule('C15.R3', 'definition sources, numeric length rule, short/long atoms, code acceptance logic, exclusions', r3_sources_and_atoms, floor=12),
    Rule('C15.R4', 'presence/usage decisions over all combinations; delegation covers missing components', r4_presence_usage, floor=7),
    Rule('C15.R5', 'data element lengths sane; element regexes compile', r5_data, floor=225),
    Rule('C15.R6', 'delegated is_valid calls always run and are and-ed into the result', r6_delegation_always_runs, floor=7),
    Rule('C15.R7', 'DTP03 is validated against the qualifier sent in DTP02 only', r7_dtp_format_from_qualifier, floor=1),
    Rule('C15.R10', 'shared with C13.R3/R4: date/time field bounds and accepted lengths', r10_shared_time_date_atoms, floor=15),
    Rule('C15.R9', 'shared with C18.R2: the validating modules keep no module/class-level state and cache nothing across calls', r9_no_state_between_documents, floor=8),
    Rule('C15.R8', 'excluded code sets are kept as a list of ids and tested by membership', r8_exclusion_list, floor=2),
]
