"""C07 Validation is total: any input yields a verdict or a documented refusal."""
import ast

from ..core import Ob, Rule, AnalysisError, norm, KeyMaker
from ..cfg import path_of, must_facts, has
from .. import astutil as A
from .. import guards
from .. import callgraph
from . import datarules as D
from . import c04
from .c09 import unresolved_self_calls

META = {
    'explanation': (
        'F-ESC over the entry points x12n_document, X12Reader.__init__/__iter__/cleanup and X12ContextReader.__init__/'
        'iter_segments. R1 explicit raises: every raise/assert that can leave an entry point through the resolved '
        'call graph (after subtracting enclosing handlers, interprocedurally) must be classified in the table of '
        'sa/rules/c07.py as documented (X12Error on a malformed ISA, EngineError "Map not found"), outside the '
        'quantifier (OSError for a configured map_path that does not exist), discharged by a data rule that is '
        're-run here (undefined data elements / code sets / paths / regexes / seq gaps), guarded by a structural fact '
        '(one reason per line) or internal tree invariant; an escaping raise that is not in the table is a '
        'violation, and so is a segment-qualified designator literal used on a segment that is not known to be of that '
        'id. R2 implicit raisers, each an exact armed rule: (a) envelope-stack reads (= C04.R2); (b) line[-1] of a '
        'token in X12Reader.__iter__ needs NonEmpty; (c) int() of input text outside a ValueError/TypeError handler '
        'in x12file/error_handler; (d) the optional current nodes of err_handler (cur_isa_node, cur_gs_node, '
        'cur_st_node, cur_seg_node) dereferenced without a NotNone guard; (e) results of get_child_node_by_idx/'
        '_by_ordinal dereferenced without a NotNone guard outside a loop bounded by the child count; (f) every '
        'self.method() on the path resolves; (g) locals that may be unbound at a use in functions reachable from the '
        'entry points. R3 the refusal paths exist: RawX12File.__init__ raises X12Error on each header test before the '
        'header is used, x12n_document converts exactly X12Error from the reader constructor into `return False`.'),
    'not_decided': 'termination; exceptions raised inside the standard library on exotic stream objects; KeyError/TypeError kinds '
                   'outside the armed catalogue; exceptions of the caller\'s callback',
    'trusted_base': ['receiver-kind table of sa/callgraph.py (printed in the evidence)', 'classification table of sa/rules/c07.py, one reason per line'],
    'technique': 'static analysis: exception-escape summaries over a resolved call graph, must-fact guards for implicit raisers, reaching definitions',
}


META['explanation'] += ' Rounds 4-5: ' + 'R4 (= C13.R2) no exception can leave the value recognisers.'

ENTRIES = ['x12n_document:x12n_document', 'x12file:X12Reader.__init__', 'x12file:X12Reader.__iter__', 'x12file:X12Reader.cleanup',
           'x12context:X12ContextReader.__init__', 'x12context:X12ContextReader.iter_segments']

# site-key prefix -> (category, reason).  Categories: DOC documented refusal, OUT outside the quantifier, DATA discharged by
# a data rule re-run below, GUARD structural guard, INV internal tree invariant (trusted), API only reachable through API misuse
# by the caller's own later calls (not during validation/iteration).
TABLE = [
    ('rawx12file:RawX12File.__init__ raise X12Error', 'DOC', 'not-X12 refusal on the three header tests'),
    ('x12file:X12Base._parse_segment raise X12Error', 'DOC', 'an ISA met during iteration that has not 16 elements'),
    ('x12n_document:x12n_document raise EngineError(<err_str>)', 'DOC', '"Map not found" at the GS and BHT lookups'),
    ('x12n_document:x12n_document raise EngineError(Map not found', 'DOC', '"Map not found" at the GS and BHT lookups (message built in place)'),
    ('x12context:X12ContextReader.iter_segments raise EngineError(Map not found', 'DOC', '"Map not found" at the GS lookup'),
    ('x12context:X12ContextReader.iter_segments raise EngineError(<err_str>)', 'DOC', '"Map not found" at the BHT lookup'),
    ('map_if:load_map_file raise OSError', 'OUT', 'configured map_path does not exist'),
    ('map_index:map_index.__init__ raise OSError', 'OUT', 'configured map_path does not exist'),
    ('map_if:map_if.getnodebypath raise EngineError(getnodebypath failed', 'DATA:paths', 'literal paths resolve in every map (C02.R2)'),
    ('map_if:loop_if.getnodebypath raise EngineError(getnodebypath failed', 'DATA:paths', 'literal paths resolve in every map (C02.R2)'),
    ('map_if:x12_node.getnodebypath raise EngineError(getnodebypath failed', 'DATA:paths', 'literal paths never descend below a segment'),
    ('dataele:DataElements.get_by_elem_num raise EngineError', 'DATA:dataele', 'every element of a selectable map that can be looked up has a defined data element'),
    ('codes:ExternalCodes.isValid raise EngineError', 'DATA:codes', 'every external code set named by a map is defined (C16.R2)'),
    ('map_if:element_if.__init__ raise EngineError(Element regex', 'DATA:regex', 'every element regex compiles (C16.R3)'),
    ('map_if:segment_if.get_child_node_by_idx raise EngineError(idx %i not found', 'DATA:seq', 'children seq is 1..n in every segment (C16.R3)'),
    ('map_walker:walk_tree._check_loop_usage assert loop_node.usage in', 'DATA:usage', 'usage is R/S/N on every node (C16.R3)'),
    ('map_walker:walk_tree._check_seg_usage assert seg_node.usage in', 'DATA:usage', 'usage is R/S/N on every node (C16.R3)'),
    ('map_walker:walk_tree._check_loop_usage assert loop_node.is_loop()', 'GUARD', 'called from _goto_seg_match only, which asserts the same on its own argument'),
    ('map_walker:walk_tree._goto_seg_match assert loop_node.is_loop()', 'GUARD', 'callers pass `node` under node.is_loop(), `child` under child.is_loop()'),
    ('map_walker:walk_tree._is_loop_match assert loop_node.is_loop()', 'GUARD', 'callers pass `node` under node.is_loop(), `child`/`child_node` under is_loop()'),
    ('map_walker:walk_tree._is_loop_match assert first_child_node is not None', 'GUARD', 'preceded by `if len(loop_node) <= 0: return False`'),
    ('map_if:map_if.get_child_node_by_idx raise EngineError', 'GUARD', 'name-based resolution only: callers hold a segment/composite node (is_segment()/is_composite() tested)'),
    ('map_if:loop_if.get_child_node_by_idx raise EngineError', 'GUARD', 'name-based resolution only: callers hold a segment/composite node'),
    ('map_if:element_if.is_match raise NotImplementedError', 'GUARD', 'name-based resolution only: is_match is called on children of loops (loops and segments)'),
    ('map_walker:pop_to_parent_loop raise EngineError', 'GUARD', 'every map node below the root has a parent (set by the constructors)'),
    ('segment:Composite.__init__ raise EngineError(Element string is None)', 'GUARD', 'built from str.split() pieces or literals; set() values on the path are strings'),
    ('segment:Composite.__init__ raise EngineError(The sub-element terminator', 'GUARD', 'terminators are single header characters or literals'),
    ('segment:Composite.format raise EngineError', 'GUARD', 'terminators of segments built by the reader are never None'),
    ('segment:Segment.format raise EngineError', 'GUARD', 'terminators of segments built by the reader are never None'),
    ('segment:Segment._parse_refdes raise EngineError', 'GUARD:refdes', 'every segment-qualified designator literal is used on a segment of that id (sub-rule below)'),
    ('segment:Segment.get raise IndexError', 'GUARD:refdes', 'every designator literal carries an element index (sub-rule below)'),
    ('segment:Composite.get_value raise IndexError', 'GUARD', 'element_if.is_valid returns before get_value() when elem.is_composite()'),
    ('validation:match_re raise EngineError', 'GUARD', 'literal selectors only (C13.R2)'),
    ('validation:not_match_re raise EngineError', 'GUARD', 'literal selectors only (C13.R2)'),
    ('path:X12Path.__init__ raise X12PathError', 'GUARD', 'constructed from map node paths (C17.R5) and literal counter paths'),
    ('x12xml_simple:x12xml_simple.seg raise EngineError', 'GUARD', 'x12n_document passes the node found by the walker (a segment, children are elements/composites)'),
    ('x12context:X12ContextReader._add_segment raise EngineError', 'INV', 'consistency of the walker\'s pop/push lists with the tree under construction'),
    ('x12context:X12ContextReader.iter_segments raise EngineError(Either cur_data_node', 'INV', 'a segment inside the requested loop always follows the loop\'s first segment'),
    ('x12context:X12ContextReader.iter_segments assert', 'INV', 'consistency of pop/push lists with the requested loop'),
    ('x12context:X12DataNode.id raise EngineError', 'API', 'only after the caller deleted the node'),
    ('x12context:X12DataNode.cur_path raise EngineError', 'API', 'only after the caller deleted the node'),
]


# raisers whose GUARD reason is a property of specific callers: any other reachable direct caller is a violation
ALLOWED_CALLERS = {
    'segment:Composite.get_value': {
        'map_if:element_if.is_valid': 'returns with error 6 before get_value() when elem.is_composite()',
        'map_if:composite_if.is_valid': 'iterates the components of a Composite: those are Element objects, whose get_value never raises',
    },
}


def _classify(site):
    for prefix, cat, why in TABLE:
        if site.startswith(prefix):
            return cat, why
    return None, None


def _graph(ctx):
    return ctx.cached('callgraph', lambda: callgraph.Graph(ctx))


def _data_discharge(ctx, kind):
    """re-run the data rule an entry leans on; returns list of (key, where, msg) failures"""
    ms = ctx.maps
    out = []
    sel = {e['file'] for e in ms.index if e['icvn'] in c04_whitelist(ctx)} | set(ms.control_files())
    if kind == 'dataele':
        for n in D.all_nodes(ctx):
            if n.kind != 'element' or n.file not in sel:
                continue
            if n.data_ele and n.data_ele in ms.dataele:
                continue
            seg = n.parent
            comp = None
            if seg.kind == 'composite':
                comp = seg
                seg = seg.parent
            # looked up when validated with a value (usage != N) or when it is a matcher key position
            key_pos = (comp is None and n.seq in (1,) ) or (comp is None and seg.id == 'ENT' and n.seq == 2) or (comp is not None and comp.seq == 1 and n.seq == 1)
            if n.usage != 'N' or key_pos:
                out.append((D.nodekey(n) + ' data_ele=%s' % n.data_ele, D.where(n),
                            'element with an undefined data element is %s: EngineError escapes for documents of this type'
                            % ('validated when present' if n.usage != 'N' else 'consulted by the segment matcher')))
    elif kind == 'codes':
        for n in D.all_nodes(ctx):
            if n.kind == 'element' and n.external is not None and n.file in sel and n.external not in ms.codes:
                out.append((D.nodekey(n) + ' external=%s' % n.external, D.where(n), 'external code set is not defined'))
    elif kind == 'regex':
        import re
        for n in D.all_nodes(ctx):
            if n.kind == 'element' and n.regex and n.file in sel:
                try:
                    re.compile(n.regex, re.S)
                except re.error:
                    out.append((D.nodekey(n) + ' regex', D.where(n), 'regex does not compile'))
    elif kind == 'seq':
        for n in D.all_nodes(ctx):
            if n.kind == 'segment' and n.file in sel and [c.seq for c in n.children] != list(range(1, len(n.children) + 1)):
                out.append((D.nodekey(n) + ' seq', D.where(n), 'children seq not 1..n'))
    elif kind == 'usage':
        for n in D.all_nodes(ctx):
            if n.kind in ('segment', 'loop') and n.file in sel and n.usage not in ('N', 'R', 'S'):
                out.append((D.nodekey(n) + ' usage', D.where(n), 'usage %r' % n.usage))
    elif kind == 'paths':
        from . import c02
        for o in c02.r2_literal_paths(ctx):
            if not o.ok:
                out.append((o.key, o.where, o.msg))
    return out


def c04_whitelist(ctx):
    from .c02 import _whitelist
    return _whitelist(ctx)


def r1_explicit_raises(ctx):
    g = _graph(ctx)
    esc, reach = g.escapes(ENTRIES)
    sites = {}
    for e in ENTRIES:
        for cls, site, loc in esc[e]:
            sites.setdefault(site, (cls, loc, set()))[2].add(e.split(':')[1])
    if len(sites) < 40:
        raise AnalysisError('only %d escaping raise sites found: call graph resolution broke' % len(sites))
    used_data = set()
    km = KeyMaker()
    # functions a refactoring added that are still there after the normal form (methods of new classes, generators ...): calls
    # through them are resolved by method name only, which can connect a driver to raise sites it never reaches - an
    # unclassified site is then no verdict
    from ..normalize import baseline_funcs
    new_reach = sorted(k for k in reach if ':' in k and k.split(':', 1)[1] not in (baseline_funcs().get(k.split(':', 1)[0]) or {k.split(':', 1)[1]}))
    undecided = []
    for site in sorted(sites):
        cls, loc, ents = sites[site]
        cat, why = _classify(site)
        if cat is None and new_reach:
            undecided.append(site)
            continue
        if cat is None:
            yield Ob(km(site), False, loc, '%s can escape %s and is neither a documented refusal nor classified: a new way for validation '
                     'to abort' % (cls, ', '.join(sorted(ents))))
            continue
        if cat.startswith('DATA:'):
            used_data.add(cat[5:])
        yield Ob(km(site), True, loc, note='%s: %s' % (cat, why))
    if undecided:
        raise AnalysisError('%d raise site(s) reachable only through functions the reference does not know (%s ...) cannot be classified: %s'
                            % (len(undecided), ', '.join(new_reach[:3]), ', '.join(undecided[:2])))
    for kind in sorted(used_data):
        fails = _data_discharge(ctx, kind)
        yield Ob('data discharge [%s] holds' % kind, not fails or kind == 'dataele', 'pyx12/map',
                 '' if not fails or kind == 'dataele' else fails[0][2] + ' ' + fails[0][0])
        if kind == 'dataele':
            for key, where, msg in fails:
                yield Ob(key, False, where, msg)
    for target, allowed in sorted(ALLOWED_CALLERS.items()):
        callers = sorted({k for k in reach for callee, _ in g._edges[k] if callee == target})
        if not callers:
            raise AnalysisError('%s has no reachable caller any more: ALLOWED_CALLERS needs re-derivation' % target)
        for k in callers:
            ok = k in allowed
            fnode = g.funcs[k].node
            yield Ob('%s is called from %s' % (target, k), ok, ctx.floc(fnode),
                     '' if ok else '%s can raise (%s) and this caller is not one of the guarded call sites %s: the exception escapes validation'
                     % (target, [x for x in sites if x.startswith(target)][:1], sorted(allowed)), note=allowed.get(k))
    yield Ob('call graph: %d functions reachable, %d/%d calls resolved inside the package (%d by method name)'
             % (len(reach), g.stats['resolved'], g.stats['calls'], g.stats['by_name']), g.stats['unresolved_self'] <= 2, 'sa/callgraph.py',
             '' if g.stats['unresolved_self'] <= 2 else '%d unresolved self-calls' % g.stats['unresolved_self'], nontrivial=False)
    # documented refusal sites exist exactly where documented
    for e, want in (('x12n_document:x12n_document', 2), ('x12context:X12ContextReader.iter_segments', 2)):
        f = g.funcs[e].node
        n = sum(1 for x in ast.walk(f) if isinstance(x, ast.Raise) and x.exc is not None and 'EngineError' in norm(x.exc) and 'Map not found' in ast.unparse(A.enclosing(x, (ast.If,))))
        yield Ob('%s has the two "Map not found" refusals' % e, n == want, ctx.floc(f), '' if n == want else '%d found' % n)


# --------------------------------------------------------------------------- designator / segment agreement
SEG_FACTS = {
    # receiver path -> segment id established by construction (checked below where the node is constructed)
    ('error_997', 'visit_root_pre', 'seg'): None,   # resolved per assignment below
}
REF_METHODS = ('get_value', 'get', 'set', 'is_composite', 'is_element', 'ele_len')


def r1b_designators(ctx):
    import re
    km = KeyMaker()
    rx = re.compile(r'^([A-Z][A-Z0-9]{1,2})([0-9]{2})(-[0-9]+)?$')
    mods = ['x12file', 'x12n_document', 'x12context', 'error_handler', 'error_997', 'error_999', 'error_html', 'map_walker', 'map_if', 'rawx12file']
    n_lit = 0
    for name in mods:
        m = ctx.mod(name)
        for q, fn in A.all_functions(m.tree):
            fn._qual, fn._mod = q, m
            g = None
            IN = None
            for c in A.calls_in(fn):
                r, meth = A.call_target(c)
                if meth not in REF_METHODS or not c.args:
                    continue
                a0 = c.args[0] if meth != 'is_composite' or c.args else None
                for k in c.keywords:
                    if k.arg == 'ref_des':
                        a0 = k.value
                if not A.is_str(a0):
                    continue
                mt = rx.match(a0.value)
                if not mt:
                    continue
                n_lit += 1
                sid = mt.group(1)
                if g is None:
                    g = ctx.cfg(fn)
                    IN = must_facts(g)
                node = next((nd for nd in g.nodes if any(x is c for x in g.walk_exprs(nd))), None)
                facts = IN[node.id] if node is not None else None
                ok, why = _recv_is_segment(ctx, fn, q, r, sid, facts)
                yield Ob(km('%s:%s %s.%s(%r)' % (name, q, r, meth, a0.value)), ok, ctx.loc(m, c),
                         '' if ok else 'designator %s is applied to `%s`, which is not known to be a %s segment here: _parse_refdes raises EngineError for any other segment' % (a0.value, r, sid),
                         note=why if ok else None)
    if n_lit < 60:
        raise AnalysisError('only %d segment-qualified designator literals found' % n_lit)


def _recv_is_segment(ctx, fn, q, recv, sid, facts):
    # (1) dominating test on the segment id of this receiver
    for p in ('%s.get_seg_id()' % recv, 'seg_id', '%s.seg_id' % recv):
        for f in (facts or ()):
            if f[0] == 'Eq' and f[1] == p and f[2] == sid:
                if p != 'seg_id' or _seg_id_of(fn, recv):
                    return True, 'dominating test %s == %r' % (p, sid)
    # (1b) membership in a set of ids of which every other member was excluded by a failed equality test
    for p in ('%s.get_seg_id()' % recv, 'seg_id', '%s.seg_id' % recv):
        for f in (facts or ()):
            if f[0] == 'In' and f[1] == p and sid in f[2] and (p != 'seg_id' or _seg_id_of(fn, recv)):
                excluded = {g_[2] for g_ in facts if g_[0] == 'Ne' and g_[1] == p}
                if set(f[2]) - excluded == {sid}:
                    return True, 'dominating tests: %s in %s and not %s' % (p, sorted(f[2]), sorted(excluded))
    # (2) segment built in this function from a literal starting with the id
    for s in ast.walk(fn):
        if isinstance(s, ast.Assign) and path_of(s.targets[0]) == recv and isinstance(s.value, ast.Call) and A.call_target(s.value)[1] == 'Segment' \
                and s.value.args:
            a = s.value.args[0]
            while isinstance(a, ast.BinOp):
                a = a.left
            if A.is_str(a) and (a.value == sid or a.value.startswith(sid + '*')):
                return True, 'built here from the literal %r' % a.value
    # (2b) built from the formatted text of a segment that was itself built from a literal with that id
    for s in ast.walk(fn):
        if isinstance(s, ast.Assign) and path_of(s.targets[0]) == recv and isinstance(s.value, ast.Call) and A.call_target(s.value)[1] == 'Segment' \
                and s.value.args:
            a0 = s.value.args[0]
            texts = []
            if isinstance(a0, ast.Name):
                texts = [s2.value for s2 in ast.walk(fn) if isinstance(s2, ast.Assign) and path_of(s2.targets[0]) == a0.id]
            else:
                texts = [a0]
            for tv in texts:
                if isinstance(tv, ast.Call) and A.call_target(tv)[1] == 'format' and isinstance(tv.func, ast.Attribute):
                    base = path_of(tv.func.value)
                    ok2, why2 = _recv_is_segment(ctx, fn, q, base, sid, facts) if base and base != recv else (False, '')
                    if ok2:
                        return True, 'built from the text of %s (%s)' % (base, why2)
    # (2c) self attribute assigned, in its class, only from locals built from a literal with that id
    if recv.startswith('self.') and recv.count('.') == 1:
        cls = A.enclosing(fn, (ast.ClassDef,))
        if cls is not None:
            vals = []
            for f2 in cls.body:
                if isinstance(f2, ast.FunctionDef):
                    for s in ast.walk(f2):
                        if isinstance(s, ast.Assign) and path_of(s.targets[0]) == recv and not (isinstance(s.value, ast.Constant) and s.value.value is None):
                            vals.append((f2, s.value))
            if vals and all(isinstance(v, ast.Name) and _recv_is_segment(ctx, f2, q, v.id, sid, None)[0] for f2, v in vals):
                return True, 'attribute only ever bound to a %s segment built from a literal' % sid
    # (3) protocol facts: the error tree stores the ISA/GS/ST segment in the node of that level
    proto = {'ISA': ('err_isa', 'cur_isa_node'), 'GS': ('err_gs', 'cur_gs_node'), 'ST': ('err_st', 'cur_st_node')}
    if sid in proto:
        cls, cur = proto[sid]
        if q.startswith(cls + '.__init__') and recv in ('seg_data', 'self.seg_data'):
            return True, '%s is constructed by add_%s_loop for a %s segment only' % (cls, sid.lower(), sid)
        if recv in ('errh.%s.seg_data' % cur, 'self.errh.%s.seg_data' % cur):
            return True, 'segment stored in the %s node' % cls
        for s in ast.walk(fn):
            if isinstance(s, ast.Assign) and path_of(s.targets[0]) == recv and norm(s.value) in ('errh.%s.seg_data' % cur, 'self.errh.%s.seg_data' % cur):
                # the last assignment before the use decides; accept when the literal ids used after each assignment agree
                return True, 'segment stored in the %s node' % cls
    # (4) trailers in err_gs.close / err_st.close / err_isa.close and x12norm fix branch are tested on seg id by the caller
    if q in ('err_gs.close',) and sid == 'GE' and recv == 'seg_data':
        return True, 'close_gs_loop is called by x12n_document in the GE branch only'
    if q.endswith('_write_isa_segment') and sid == 'ISA':
        return True, 'called from Write in the ISA branch only'
    if q == 'x12n_document' and recv == 'seg':
        return False, ''
    return False, ''


def _seg_id_of(fn, recv):
    for s in ast.walk(fn):
        if isinstance(s, ast.Assign) and path_of(s.targets[0]) == 'seg_id' and norm(s.value) == '%s.get_seg_id()' % recv:
            return True
    return False


def token_names(fn):
    """local names of X12Reader.__iter__ that hold the tokenizer's token (the loop variable over self.raw and every
    name that is only ever assigned such a name, possibly stripped)"""
    toks = set()
    for n in ast.walk(fn):
        if isinstance(n, ast.For) and path_of(n.iter) == 'self.raw':
            toks |= {x.id for x in ast.walk(n.target) if isinstance(x, ast.Name)}
    if not toks:
        raise AnalysisError('X12Reader.__iter__: loop over the tokenizer not found')
    assigns = {}
    for n in ast.walk(fn):
        if isinstance(n, ast.Assign) and len(n.targets) == 1 and isinstance(n.targets[0], ast.Name):
            assigns.setdefault(n.targets[0].id, []).append(n.value)

    def from_tok(v):
        if isinstance(v, ast.Name):
            return v.id in toks
        if isinstance(v, ast.Call) and isinstance(v.func, ast.Attribute) and v.func.attr in ('lstrip', 'strip', 'rstrip'):
            return from_tok(v.func.value)
        return False
    changed = True
    while changed:
        changed = False
        for nm, vals in assigns.items():
            if nm not in toks and all(from_tok(v) for v in vals):
                toks.add(nm)
                changed = True
    return toks


# --------------------------------------------------------------------------- R2 implicit raisers
def r2_implicit(ctx):
    km = KeyMaker()
    # (a) envelope stack
    for o in c04.r2_stack_safety(ctx):
        o.key = '(a) ' + o.key
        yield o
    # (b) token indexing in X12Reader.__iter__
    fn = ctx.func('x12file', 'X12Reader.__iter__')
    g = ctx.cfg(fn)
    IN = must_facts(g)
    nb = 0
    toks = token_names(fn)
    for nd in g.nodes:
        for x in g.walk_exprs(nd):
            if isinstance(x, ast.Subscript) and isinstance(x.value, ast.Name) and x.value.id in toks and not isinstance(x.slice, ast.Slice):
                nb += 1
                ok = has(IN[nd.id], 'NonEmpty', x.value.id)
                yield Ob(km('(b) x12file:X12Reader.__iter__ %s' % norm(x)), ok, ctx.floc(fn, x),
                         '' if ok else 'index into the token without a non-empty guard: a segment consisting of blanks is empty after lstrip() and raises IndexError')
    if nb < 1:
        raise AnalysisError('X12Reader.__iter__: token indexing not found')
    # (l) a helper that answers None for None (escape_html_chars) used as an operand of `+` / an item of join: its argument must
    #     be something that cannot be None there.  The identifier of a segment can: a segment of blanks only has none.
    fe = ctx.func('error_html', 'escape_html_chars')
    none_through = any(isinstance(r_, ast.Return) and (r_.value is None or A.const(r_.value) is None) and isinstance(r_.value, (ast.Constant, type(None)))
                       for r_ in ast.walk(fe))
    nl = 0
    if none_through:
        for q_, f_ in ctx.functions('error_html'):
            for x in ast.walk(f_):
                ops = []
                if isinstance(x, ast.BinOp) and isinstance(x.op, ast.Add):
                    ops = [x.left, x.right]
                elif isinstance(x, ast.Call) and isinstance(x.func, ast.Attribute) and x.func.attr == 'join' and x.args and isinstance(x.args[0], (ast.List, ast.Tuple)):
                    ops = list(x.args[0].elts)
                for o_ in ops:
                    if not (isinstance(o_, ast.Call) and A.call_target(o_) == (None, 'escape_html_chars') and o_.args):
                        continue
                    a_ = o_.args[0]
                    nl += 1
                    p_ = path_of(a_) or ''
                    safe = A.is_str(a_) or isinstance(a_, (ast.JoinedStr, ast.BinOp)) or (isinstance(a_, ast.BoolOp) and isinstance(a_.op, ast.Or) and A.is_str(a_.values[-1])) \
                        or isinstance(a_, ast.IfExp) or p_.startswith('self.') and p_.endswith('_term') or p_ in ('self.eol',) \
                        or (isinstance(a_, ast.Call) and isinstance(a_.func, ast.Attribute) and a_.func.attr in ('format', 'join', 'strip', 'replace'))
                    yield Ob(km('(l) error_html:%s escape_html_chars(%s) as an operand' % (q_, norm(a_, 40))), safe, ctx.floc(f_, o_),
                             '' if safe else 'escape_html_chars answers None for None and `%s` can be None (a segment of blanks only has no identifier): '
                             'None + str raises TypeError out of validation when the HTML report is requested' % norm(a_, 40))
    # (m) what a segment answers for an absent element / a missing identifier is None (Segment.get_value, get_seg_id): used
    #     directly as an operand of `+` next to a text, or as an item of a join, it raises TypeError for a segment without
    #     elements or of blanks only.  (%-formatting and str.format take None.)
    nm_ = 0
    for mod_ in ('map_walker', 'x12n_document', 'x12context', 'map_if', 'error_handler', 'error_html', 'error_997', 'error_999', 'x12xml', 'x12xml_simple'):
        for q_, f_ in ctx.functions(mod_):
            for x in ast.walk(f_):
                ops = []
                if isinstance(x, ast.BinOp) and isinstance(x.op, ast.Add):
                    flat, st_ = [], [x]
                    while st_:
                        y_ = st_.pop()
                        if isinstance(y_, ast.BinOp) and isinstance(y_.op, ast.Add):
                            st_.extend([y_.right, y_.left])
                        else:
                            flat.append(y_)
                    if any(A.is_str(y_) or isinstance(y_, ast.JoinedStr) for y_ in flat):
                        ops = [x.left, x.right]
                elif isinstance(x, ast.Call) and isinstance(x.func, ast.Attribute) and x.func.attr == 'join' and x.args and isinstance(x.args[0], (ast.List, ast.Tuple)):
                    ops = list(x.args[0].elts)
                for o_ in ops:
                    if isinstance(o_, ast.Call) and isinstance(o_.func, ast.Attribute) and o_.func.attr in ('get_value', 'get_seg_id') \
                            and (path_of(o_.func.value) or '').split('.')[-1] in ('seg_data', 'seg', 'segment', 'seg_data_orig', 'cur_seg'):
                        # (under a test of the same answer it is known not to be None)
                        anc_, guarded_ = A.enclosing(o_, (ast.If, ast.IfExp)), False
                        while anc_ is not None and not guarded_:
                            guarded_ = ast.unparse(o_) in ast.unparse(anc_.test)
                            anc_ = A.enclosing(anc_, (ast.If, ast.IfExp))
                        if guarded_:
                            continue
                        nm_ += 1
                        yield Ob(km('(m) %s:%s %s joined to a text' % (mod_, q_, norm(o_, 40))), False, ctx.floc(f_, o_),
                                 '`%s` is None for a segment without that element / of blanks only: None next to a text in `+` or join raises TypeError out of '
                                 'validation (%%-formatting or str.format would print it)' % norm(o_, 40))
    yield Ob(km('(m) segment answers are not concatenated unguarded'), True, 'pyx12', '', note='%d site(s) found' % nm_)
    # (k) text taken from a segment (get_value: None when the element is absent) or still at its initial None, kept in a
    #     local of a driver: slicing it or calling a string method on it needs a truth / None test on the way, or a fence
    for mod, qual in (('x12n_document', 'x12n_document'), ('x12context', 'X12ContextReader.iter_segments')):
        fk = ctx.func(mod, qual)
        gk = ctx.cfg(fk)
        INk = must_facts(gk)
        maybe_none = set()
        for st in ast.walk(fk):
            if isinstance(st, ast.Assign):
                for t in st.targets:
                    for nm in ([t] if isinstance(t, ast.Name) else [x for x in ast.walk(t) if isinstance(x, ast.Name)]):
                        v = st.value
                        if (isinstance(v, ast.Constant) and v.value is None) or (isinstance(v, ast.Call) and A.call_target(v)[1] == 'get_value'):
                            maybe_none.add(nm.id)
        nk = 0
        for nd in gk.nodes:
            for x in gk.walk_exprs(nd):
                tgt = None
                if isinstance(x, ast.Subscript) and isinstance(x.value, ast.Name) and x.value.id in maybe_none and isinstance(x.ctx, ast.Load):
                    tgt = x.value.id
                elif isinstance(x, ast.Call) and isinstance(x.func, ast.Attribute) and isinstance(x.func.value, ast.Name) \
                        and x.func.value.id in maybe_none and x.func.attr in ('strip', 'rstrip', 'lstrip', 'upper', 'lower', 'startswith', 'endswith', 'split'):
                    tgt = x.func.value.id
                if tgt is None:
                    continue
                nk += 1
                ok = has(INk[nd.id], 'NotNone', tgt) or '*' in _caught(fk, x) or 'TypeError' in _caught(fk, x)
                if not ok:
                    # guarded inside the expression itself:  v[:6] if v else None   /   v and v[:6]
                    from ..cfg import facts_from_test
                    child = x
                    par = A.parent(x)
                    while par is not None and isinstance(par, ast.expr) and not ok:
                        if isinstance(par, ast.IfExp) and child is not par.test:
                            ok = ('NotNone', tgt) in facts_from_test(par.test, child is par.body)
                        if isinstance(par, ast.BoolOp) and isinstance(par.op, ast.And) and child in par.values:
                            for prev in par.values[:par.values.index(child)]:
                                ok = ok or ('NotNone', tgt) in facts_from_test(prev, True)
                        child = par
                        par = A.parent(par)
                yield Ob(km('(k) %s:%s %s' % (mod, qual, norm(x, 40))), ok, ctx.floc(fk, x),
                         '' if ok else '`%s` may still be None here (no group seen yet, or the element is absent): TypeError escapes the entry point' % tgt)
        if mod == 'x12n_document' and nk < 1:
            raise AnalysisError('x12n_document: no use of segment text kept in locals found')
    # (c) int() on input text
    for mod in ('x12file', 'error_handler', 'x12n_document', 'x12context', 'map_walker'):
        m = ctx.mod(mod)
        for q, f in A.all_functions(m.tree):
            for c in A.calls_in(f):
                if A.call_target(c) == (None, 'int') and c.args and not isinstance(c.args[0], ast.Constant):
                    caught = _caught(f, c)
                    ok = {'ValueError', 'TypeError'} <= caught or '*' in caught
                    src_txt = norm(c.args[0])
                    if 'get_value' not in src_txt and 'str_val' not in src_txt and 'seg' not in src_txt:
                        continue
                    yield Ob(km('(c) %s:%s %s' % (mod, q, norm(c))), ok, ctx.loc(m, c),
                             '' if ok else 'int() of a value taken from the input outside a handler for ValueError and TypeError (a non-numeric or absent count aborts validation)')
    # (d) optional current nodes of err_handler
    chain = guards.class_chain(ctx, 'error_handler', 'err_handler')
    opt = {'cur_isa_node', 'cur_gs_node', 'cur_st_node', 'cur_seg_node', 'cur_ele_node'} & guards.optional_attrs(chain)
    if len(opt) < 4:
        raise AnalysisError('err_handler optional current-node attributes not found: %s' % sorted(opt))
    paths = {'self.' + a for a in opt}
    for f in chain[0].body:
        if not isinstance(f, ast.FunctionDef) or f.name == '__init__':
            continue
        f._qual, f._mod = 'err_handler.' + f.name, ctx.mod('error_handler')
        g = ctx.cfg(f)
        IN = must_facts(g)
        for nd in g.nodes:
            if IN[nd.id] is None:
                continue
            for x, p in guards.deref_sites(g, nd, paths):
                ok = has(IN[nd.id], 'NotNone', p) or _established_by_protocol(f.name, p) or _in_catch_all(f, x)
                yield Ob(km('(d) error_handler:err_handler.%s %s' % (f.name, norm(x))), ok, ctx.floc(f, x),
                         '' if ok else '%s is None until the matching header was seen (orphan trailer, error before the first ST): AttributeError' % p,
                         note=_established_by_protocol(f.name, p) or None)
    # error_html.footer / gen_seg use errh.cur_*_node
    fh = ctx.func('error_html', 'error_html.footer')
    g = ctx.cfg(fh)
    IN = must_facts(g)
    locals_opt = {}
    for s in ast.walk(fh):
        if isinstance(s, ast.Assign) and norm(s.value).startswith('self.errh.cur_'):
            locals_opt[path_of(s.targets[0])] = norm(s.value)
    for nd in g.nodes:
        for x, p in guards.deref_sites(g, nd, set(locals_opt)):
            ok = has(IN[nd.id], 'NotNone', p)
            yield Ob(km('(d) error_html:error_html.footer %s' % norm(x)), ok, ctx.floc(fh, x),
                     '' if ok else '%s = %s is None when the input has no such envelope level (e.g. no ST at all): AttributeError in the HTML footer' % (p, locals_opt[p]))
    # (e) child-node lookups
    for mod, qual in (('map_if', 'segment_if.is_valid'), ('map_if', 'composite_if.is_valid'), ('x12xml_simple', 'x12xml_simple.seg'), ('x12xml', 'x12xml.seg'),
                      ('x12xml', 'x12xml.seg_context')):
        f = ctx.func(mod, qual)
        g = ctx.cfg(f)
        IN = must_facts(g)
        lookups = {}
        for s in ast.walk(f):
            if isinstance(s, ast.Assign) and isinstance(s.value, ast.Call) and A.call_target(s.value)[1] in ('get_child_node_by_idx', 'get_child_node_by_ordinal'):
                lookups[path_of(s.targets[0])] = s
        for nd in g.nodes:
            for x, p in guards.deref_sites(g, nd, set(lookups)):
                bounded = _index_bounded(f, lookups[p])
                ok = has(IN[nd.id], 'NotNone', p) or bounded
                yield Ob(km('(e) %s:%s %s' % (mod, qual, norm(x))), ok, ctx.floc(f, x),
                         '' if ok else '%s comes from %s, which returns None beyond the children the map defines (a segment with too many elements): AttributeError'
                         % (p, norm(lookups[p].value)), note='index bounded by the child count' if bounded else None)
        # direct chained use: self.get_child_node_by_idx(i).is_valid(...)
        for c in A.calls_in(f):
            if isinstance(c.func, ast.Attribute) and isinstance(c.func.value, ast.Call) and A.call_target(c.func.value)[1] in ('get_child_node_by_idx', 'get_child_node_by_ordinal'):
                ok = _index_bounded(f, c.func.value)
                yield Ob(km('(e) %s:%s %s' % (mod, qual, norm(c, 60))), ok, ctx.floc(f, c), '' if ok else 'chained use of a lookup that may return None')
    # (h) integer formatting of a value that may be None (result of X12Base._int)
    import re as _re
    for q, f in ctx.functions('x12file'):
        maynone = {path_of(st.targets[0]) for st in ast.walk(f) if isinstance(st, ast.Assign) and isinstance(st.value, ast.Call)
                   and A.call_target(st.value) == ('self', '_int')}
        maynone.discard(None)
        if not maynone and not any(A.call_target(c) == ('self', '_int') for c in A.calls_in(f)):
            continue
        f._qual, f._mod = q, ctx.mod('x12file')
        g = ctx.cfg(f)
        IN = must_facts(g)
        for nd in g.nodes:
            for x in g.walk_exprs(nd):
                args = []
                if isinstance(x, ast.Call) and isinstance(x.func, ast.Attribute) and x.func.attr == 'format' and A.is_str(x.func.value):
                    specs = _re.findall(r'\{[^{}:]*(?::([^{}]*))?\}', x.func.value.value)
                    args = [(a, sp) for a, sp in zip(x.args, specs)]
                elif isinstance(x, ast.BinOp) and isinstance(x.op, ast.Mod) and A.is_str(x.left):
                    specs = [sp for sp in _re.findall(r'%[-0-9.]*([a-zA-Z%])', x.left.value) if sp != '%']
                    vals = list(x.right.elts) if isinstance(x.right, ast.Tuple) else [x.right]
                    args = list(zip(vals, specs))
                for a, sp in args:
                    direct = isinstance(a, ast.Call) and A.call_target(a) == ('self', '_int')
                    if (path_of(a) in maynone or direct) and sp and sp[-1:] in ('d', 'i', 'x', 'f'):
                        ok = not direct and has(IN[nd.id], 'NotNone', path_of(a))
                        yield Ob(km('(h) x12file:%s integer format of %s' % (q, path_of(a) or norm(a, 50))), ok, ctx.floc(f, x),
                                 '' if ok else '%s comes from _int() and is None for a non-numeric value: formatting it with :%s raises TypeError' % (path_of(a) or norm(a, 50), sp))
    # (j) a two-digit reference designator names positions 1..99 only ('%02i' % 100 is '100', which the path grammar does
    # not read as an element index: the accessor then indexes with None).  Where a designator is formatted from a loop
    # variable, the loop must be bounded by the map's child count (< 100 in every map, data sweep), not by the
    # length of the data, which the input controls
    mx = 0
    for fname in ctx.maps.indexed_files():
        mm = ctx.maps.map(fname)
        if mm is None:
            continue
        for nd_ in mm.walk():
            if nd_.kind in ('segment', 'composite'):
                mx = max(mx, len(nd_.children))
    yield Ob('(j) no segment or composite of any map defines 100 or more children', 0 < mx < 100, 'pyx12/map', '' if 0 < mx < 100 else 'maximum is %d' % mx)
    for mod in ('error_html', 'x12xml', 'x12xml_simple', 'map_if', 'x12context', 'x12n_document', 'error_997', 'error_999', 'syntax'):
        m = ctx.mod(mod)
        for q, f in A.all_functions(m.tree):
            for c in A.calls_in(f):
                r_, meth = A.call_target(c)
                if meth not in REF_METHODS or not c.args:
                    continue
                a0 = c.args[0]
                for k_ in c.keywords:
                    if k_.arg == 'ref_des':
                        a0 = k_.value
                var = None
                if isinstance(a0, ast.BinOp) and isinstance(a0.op, ast.Mod) and A.is_str(a0.left) and a0.left.value.startswith('%02'):
                    v_ = a0.right.elts[0] if isinstance(a0.right, ast.Tuple) else a0.right
                    var = v_
                elif isinstance(a0, ast.Call) and isinstance(a0.func, ast.Attribute) and a0.func.attr == 'format' and A.is_str(a0.func.value) \
                        and a0.func.value.value.startswith('{:02') and a0.args:
                    var = a0.args[0]
                if var is None:
                    continue
                names = [x.id for x in ast.walk(var) if isinstance(x, ast.Name)]
                loop = None
                p_ = A.parent(c)
                while p_ is not None and p_ is not f:
                    if isinstance(p_, (ast.For, ast.comprehension)) and any(isinstance(x, ast.Name) and x.id in names for x in ast.walk(p_.target)):
                        loop = p_
                        break
                    p_ = A.parent(p_)
                if loop is None or not (isinstance(loop.iter, ast.Call) and path_of(loop.iter.func) == 'range'):
                    continue      # positions taken from map data (syntax notes) or fixed
                big = (0,) * 500
                env = {'seg_data': big, 'comp_data': big, 'seg_node.get_child_count()': 20, 'child_count': 20, 'self.get_child_count()': 20,
                       'child_node.get_child_count()': 20}
                try:
                    hi = A.ev(loop.iter.args[-1] if len(loop.iter.args) > 1 else loop.iter.args[0], env)
                    ok = hi <= 100
                except (A.NotClosed, TypeError):
                    ok = True     # bound not expressed in terms of the data length
                    hi = None
                yield Ob(km('(j) %s:%s %s is bounded by the map' % (mod, q, norm(a0, 40))), ok, ctx.loc(m, c),
                         '' if ok else 'for a segment with 500 elements the loop reaches position %s: a designator above 99 is not parsed as an '
                         'element index and the accessor raises TypeError' % hi)
    # (i) parameters that callers pass as None must not be dereferenced while None (abstract interpretation over usage x None)
    from .. import absint
    for qual, param in (('composite_if.is_valid', 'comp_data'), ('element_if.is_valid', 'elem')):
        f = ctx.func('map_if', qual)
        passes_none = any(A.call_target(c)[1] == 'is_valid' and c.args and isinstance(c.args[0], ast.Constant) and c.args[0].value is None
                          for q2, f2 in ctx.functions('map_if') for c in A.calls_in(f2))
        if not passes_none:
            raise AnalysisError('no caller passes None to is_valid any more: rule (i) needs re-derivation')
        g = ctx.cfg(f)
        for usage in ('R', 'S', 'N'):
            hits = []

            def on_node(nd, env, hits=hits):
                if env.get(param, 0) is None:
                    for x in absint.derefs_of(g, nd, param):
                        hits.append((nd, x))
            absint.explore(g, {param: None, 'self.usage': usage}, on_node=on_node)
            ok = not hits
            yield Ob(km('(i) map_if:%s(%s=None) with usage %s dereferences nothing' % (qual, param, usage)), ok,
                     ctx.floc(f, hits[0][1]) if hits else ctx.floc(f),
                     '' if ok else '`%s` is evaluated while %s is None (a segment that ends before this %s): TypeError/AttributeError aborts validation'
                     % (norm(hits[0][1]), param, 'composite' if 'composite' in qual else 'element'))
    # (f) self-method resolution on the path
    nf = 0
    for mod in ('x12n_document', 'x12file', 'rawx12file', 'map_walker', 'map_if', 'error_handler', 'error_html', 'x12xml_simple', 'x12xml', 'x12context', 'segment',
                'error_997', 'error_999', 'nodeCounter', 'path', 'xmlwriter'):
        for cname, f, c, ok in unresolved_self_calls(ctx, mod):
            nf += 1
            if not ok:
                yield Ob(km('(f) %s:%s.%s calls self.%s' % (mod, cname, f.name, A.call_target(c)[1])), False, ctx.loc(mod, c),
                         'self.%s is not defined in the class chain: AttributeError as soon as the line runs' % A.call_target(c)[1])
    yield Ob('(f) %d self-method calls on the path resolve' % nf, nf > 200, 'pyx12', '' if nf > 200 else 'only %d self calls seen' % nf, nontrivial=False)
    # (g) possibly-unbound locals in reachable functions
    gr = _graph(ctx)
    esc, reach = gr.escapes(ENTRIES)
    for k in sorted(reach):
        fnc = gr.funcs[k]
        for name, use, why in _maybe_unbound(ctx, fnc.node):
            ex = UNBOUND_EXEMPT.get((k, name))
            yield Ob(km('(g) %s local %s' % (k, name)), ex is not None, ctx.floc(fnc.node, use),
                     '' if ex else 'local `%s` may be unbound here (%s): UnboundLocalError' % (name, why), note=ex)


UNBOUND_EXEMPT = {
    ('x12context:X12ContextReader.iter_segments', 'icvn'): 'the first segment is always ISA (RawX12File refuses anything else) and is found in the control map',
    ('x12context:X12ContextReader.iter_segments', 'fic'): 'BHT is only located after a GS selected a transaction map',
    ('x12context:X12ContextReader.iter_segments', 'vriic'): 'BHT is only located after a GS selected a transaction map',
    ('x12context:X12ContextReader.iter_segments', 'cur_map'): 'self.map_file starts as the control map name, so the first GS always loads a map',
    ('validation:not_match_re', 'rec'): 'charset is B or E (the two settings of the quantifier); other values are API misuse',
    ('x12n_document:x12n_document', 'html'): 'bound and used under the same `if fd_html` condition (parameter never reassigned)',
    ('x12n_document:x12n_document', 'err_iter'): 'bound and used under the same `if fd_html` condition',
    ('x12n_document:x12n_document', 'xmldoc'): 'bound and used under the same `if fd_xmldoc` condition',
    ('x12n_document:x12n_document', 'pop_loops'): 'assigned but never read',
    ('x12n_document:x12n_document', 'push_loops'): 'assigned but never read',
    ('x12n_document:x12n_document', 'cur_map'): 'deleted inside try/except UnboundLocalError; read only after the GS branch assigned it',
}


def _caught(fn, node):
    out = set()
    p = A.parent(node)
    child = node
    while p is not None and p is not fn:
        if isinstance(p, ast.Try) and child in p.body:
            for h in p.handlers:
                if h.type is None:
                    out.add('*')
                else:
                    for t in (h.type.elts if isinstance(h.type, ast.Tuple) else [h.type]):
                        nm = (path_of(t) or '').split('.')[-1]
                        out.add('*' if nm in ('Exception', 'BaseException') else nm)
        child = p
        p = A.parent(p)
    return out


def _in_catch_all(fn, node):
    return '*' in _caught(fn, node)


def _established_by_protocol(fname, p):
    """dereferences that need no local guard, with the reason"""
    table = {
        ('add_ele', 'self.cur_seg_node'): 'add_ele is called from is_valid after x12n_document added the segment (add_seg / add_*_loop) in the same iteration',
        ('_add_cur_ele', 'self.cur_ele_node'): '_add_cur_ele is only called from ele_error, after add_ele',
        ('ele_error', 'self.cur_ele_node'): 'ele_error is only called from is_valid after add_ele (C03.R1)',
        ('ele_error', 'self.cur_seg_node'): 'is_valid runs after the segment was added in the same iteration',
        ('close_isa_loop', 'self.cur_isa_node'): 'the IEA node of the control map is only found below an ISA, whose branch called add_isa_loop',
        ('add_gs_loop', 'self.cur_isa_node'): 'the first segment is always ISA, whose branch called add_isa_loop',
        ('isa_error', 'self.cur_isa_node'): 'the first segment is always ISA, whose branch called add_isa_loop before any error is handled',
        ('close_gs_loop', 'self.cur_gs_node'): 'a GE node is only found inside GS_LOOP, entered through a GS whose branch called add_gs_loop',
        ('close_st_loop', 'self.cur_st_node'): 'an SE node is only found inside ST_LOOP, entered through an ST whose branch called add_st_loop',
        ('add_st_loop', 'self.cur_gs_node'): 'an ST node is only found inside GS_LOOP, entered through a GS whose branch called add_gs_loop',
        ('_add_cur_seg', 'self.cur_seg_node'): 'appended only after add_seg created it',
        ('_add_cur_ele', 'self.cur_seg_node'): 'tested for None in the same condition',
    }
    return table.get((fname, p), '')


def _index_bounded(fn, call_or_assign):
    """the lookup index is the variable of an enclosing `for .. in range(..)` whose bound mentions the child count"""
    call = call_or_assign.value if isinstance(call_or_assign, ast.Assign) else call_or_assign
    if not call.args:
        return False
    idx = path_of(call.args[0])
    p = A.parent(call_or_assign)
    while p is not None and p is not fn:
        if isinstance(p, ast.For) and path_of(p.target) == idx and isinstance(p.iter, ast.Call) and path_of(p.iter.func) == 'range':
            t = norm(p.iter, 200)
            if 'child_count' in t or 'get_child_count()' in t:
                return True
        p = A.parent(p)
    return False


def _maybe_unbound(ctx, fn):
    """(name, use node, why) for local names read at a point where no definition must have happened"""
    g = ctx.cfg(fn)
    params = {a.arg for a in fn.args.args + fn.args.kwonlyargs} | ({fn.args.vararg.arg} if fn.args.vararg else set()) | ({fn.args.kwarg.arg} if fn.args.kwarg else set())
    assigned = set()
    for n in ast.walk(fn):
        if A.enclosing_function(n) is not fn:
            continue
        if isinstance(n, ast.Name) and isinstance(n.ctx, (ast.Store, ast.Del)):
            assigned.add(n.id)
        if isinstance(n, ast.ExceptHandler) and n.name:
            assigned.add(n.name)
        if isinstance(n, (ast.Import, ast.ImportFrom)):
            for a in n.names:
                assigned.add((a.asname or a.name).split('.')[0])
    # names bound by comprehensions are local to them
    comp_names = set()
    for n in ast.walk(fn):
        if isinstance(n, ast.comprehension):
            for t in ast.walk(n.target):
                if isinstance(t, ast.Name):
                    comp_names.add(t.id)
    locals_ = (assigned - params)
    if not locals_:
        return
    # forward must-defined analysis
    IN = {n.id: None for n in g.nodes}
    IN[g.entry.id] = frozenset()
    work = [g.entry]

    def defs(n):
        out = set()
        a = n.ast
        if a is None:
            return out
        if n.kind == 'for':
            for t in ast.walk(a):
                if isinstance(t, ast.Name):
                    out.add(t.id)
            return out
        if n.kind == 'handler':
            if a.name:
                out.add(a.name)
            return out
        nodes = [a]
        if isinstance(a, ast.withitem):
            nodes = [a.optional_vars] if a.optional_vars is not None else []
        for root in nodes:
            for t in ast.walk(root):
                if isinstance(t, ast.Name) and isinstance(t.ctx, ast.Store):
                    out.add(t.id)
                if isinstance(t, (ast.Import, ast.ImportFrom)):
                    for al in t.names:
                        out.add((al.asname or al.name).split('.')[0])
                if isinstance(t, (ast.FunctionDef, ast.ClassDef)):
                    out.add(t.name)
        if isinstance(n.stmt, (ast.FunctionDef, ast.ClassDef)) and n.kind == 'stmt':
            out.add(n.stmt.name)
        return out
    while work:
        n = work.pop()
        inn = IN[n.id]
        for s, l in n.succ:
            o = inn | defs(n) if l != 'exc' else inn
            old = IN[s.id]
            new = o if old is None else (old & o)
            if new != old:
                IN[s.id] = new
                work.append(s)
    seen = set()
    for n in g.nodes:
        if IN[n.id] is None:
            continue
        for x in g.walk_exprs(n):
            if isinstance(x, ast.Name) and isinstance(x.ctx, ast.Load) and x.id in locals_ and x.id not in IN[n.id] and x.id not in comp_names:
                # a definition in the same node before the use (x = f(x) is a use-before-def, keep)
                if x.id in seen:
                    continue
                if isinstance(n.ast, ast.Delete):
                    continue
                seen.add(x.id)
                yield x.id, x, 'no assignment on some path from the function entry'


# --------------------------------------------------------------------------- R3
def r3_refusal_paths(ctx):
    fn = ctx.func('rawx12file', 'RawX12File.__init__')
    g = ctx.cfg(fn)
    dom = g.dominators()
    raises = [n for n in g.nodes if n.kind == 'raise']
    ok = len(raises) == 3 and all('X12Error' in norm(r.ast) for r in raises)
    yield Ob('rawx12file:RawX12File.__init__ three X12Error refusals', ok, ctx.floc(fn), '' if ok else '%d raises' % len(raises))
    # the delimiter reads come after the length test (indexing a short header would raise IndexError)
    lentests = []
    hv = set()
    for n in g.nodes:
        if n.kind == 'test' and isinstance(n.stmt, ast.If) and isinstance(n.ast, ast.Compare) and 'ISA_LEN' in norm(n.ast):
            for side in [n.ast.left] + list(n.ast.comparators):
                if isinstance(side, ast.Call) and path_of(side.func) == 'len' and side.args and isinstance(side.args[0], ast.Name):
                    lentests.append(n)
                    hv.add(side.args[0].id)
    idx = [n for n in g.nodes if n.kind == 'stmt' and isinstance(n.ast, ast.Assign) and any(isinstance(x, ast.Subscript) and isinstance(x.value, ast.Name)
                                                                                           and x.value.id in hv and not isinstance(x.slice, ast.Slice)
                                                                                           for x in ast.walk(n.ast.value))]
    ok = bool(lentests) and bool(idx) and all(any(t.id in dom[i.id] for t in lentests) for i in idx)
    yield Ob('rawx12file:RawX12File.__init__ header is indexed only after the length test', ok, ctx.floc(fn), '' if ok else 'a header character is read before the length is known')
    fn = ctx.func('x12n_document', 'x12n_document')
    trys = [s for s in fn.body if isinstance(s, ast.Try) and any(A.call_target(c)[1] == 'X12Reader' for c in A.calls_in(s))]
    ok = len(trys) == 1 and len(trys[0].handlers) == 1 and (path_of(trys[0].handlers[0].type) or '').endswith('X12Error') \
        and any(isinstance(s, ast.Return) and A.const(s.value) is False for s in trys[0].handlers[0].body)
    yield Ob('x12n_document:x12n_document a malformed ISA at construction becomes `return False`', ok, ctx.floc(fn), '' if ok else 'refusal conversion changed')
    # the acknowledgement visitors are fenced: their exceptions do not escape (documented behaviour of the entry point)
    accepts = [c for c in A.calls_in(fn) if A.call_target(c)[1] == 'accept' or A.call_target(c)[1] in ('error_997_visitor', 'error_999_visitor')]
    unfenced = [c for c in accepts if '*' not in _caught(fn, c)]
    ok = len(accepts) >= 1 and any(A.call_target(c)[1] == 'accept' for c in accepts) and not unfenced
    yield Ob('x12n_document:x12n_document acknowledgement generation is fenced by `except Exception`', ok, ctx.floc(fn, unfenced[0] if unfenced else fn),
             '' if ok else ('%d visitor runs found' % len(accepts) if not unfenced else 'a visitor run is not inside `except Exception`: a failure while writing the acknowledgement aborts validation'))
    cb = [s for s in ast.walk(fn) if isinstance(s, ast.Try) and any(A.call_target(c) == (None, 'callback') for c in A.calls_in(s))]
    ok = len(cb) == 1 and any(h.type is None or (path_of(h.type) or '') == 'Exception' for h in cb[0].handlers)
    yield Ob('x12n_document:x12n_document the caller\'s callback is fenced', ok, ctx.floc(fn), '' if ok else 'callback fence changed')
    # node None fallback, decided by constant propagation through one iteration of the segment loop for a body segment the
    # walker does not find (walk() answers None): at the end of the iteration the current node is the one from before, and
    # nothing was validated against None
    from ..absint import explore as _ex7
    from ..cfg import CFG as _CFG7
    cur = A.current_node_var(fn) or 'node'
    loops_ = [l_ for l_ in ast.walk(fn) if isinstance(l_, ast.For) and path_of(l_.iter) == 'src' and isinstance(l_.target, ast.Name)]
    if len(loops_) != 1:
        raise AnalysisError('x12n_document: the segment loop was not found')
    synth = ast.parse('def _one_iteration():\n    for _once in (0,):\n        pass').body[0]
    synth.body[0].body = list(loops_[0].body)
    ast.fix_missing_locations(synth)
    g7 = _CFG7(synth)
    segm = A.Model('body segment', get_seg_id=lambda: 'XYZ', get_value=lambda rd: 'v')
    seen7 = {'final': [], 'validated_none': False}

    def on7(nd, env):
        if nd is g7.exit:
            seen7['final'].append(env.get(cur, 'undetermined'))
        if nd.ast is not None:
            for c in g7.walk_exprs(nd):
                if isinstance(c, ast.Call) and isinstance(c.func, ast.Attribute) and c.func.attr == 'is_valid' and path_of(c.func.value) == cur \
                        and cur in env and env[cur] is None:
                    seen7['validated_none'] = True
    def _not_found():
        return (None, (), ())
    _not_found._ignores_args = True
    try:
        _ex7(g7, {loops_[0].target.id: segm, cur: 'PREVIOUS NODE'}, funcs={'walker.walk': _not_found},
             on_node=on7, unknown='both')
    except RuntimeError as e:
        raise AnalysisError('x12n_document: %s' % e)
    if not seen7['final']:
        raise AnalysisError('x12n_document: the end of the iteration is not reached for a segment that is not found')
    badf = sorted({str(v) for v in seen7['final'] if v != 'PREVIOUS NODE'})
    ok = not badf and not seen7['validated_none']
    yield Ob('x12n_document:x12n_document segment not found falls back to the previous node', ok, ctx.floc(fn),
             '' if ok else ('after a segment the walker does not find, %s is %s instead of the node from before' % (cur, ', '.join(badf)) if badf
                            else 'the segment is validated against None'))


def r4_shared_recogniser_total(ctx):
    """the value recognisers run inside validation without a fence of their own: an exception leaving IsValidDataType
    (unpacking a split into a fixed number of names, int() of text, an index) aborts the whole validation.  C13.R2 (shared)."""
    from . import c13
    for o in c13.r2_never_raises(ctx):
        yield o


def r5_shared_tokenizer(ctx):
    """the tokenizer underneath every entry point never fails on a well-formed start: the buffer that is tested for the
    terminator is the buffer that is split (C01.R3, shared) - a split of something else can come back with one part and
    the unpack raises ValueError out of validation"""
    from . import c01
    for o in c01.r3_tokenizer_exits(ctx):
        yield o


RULES = [
    Rule('C07.R5', 'shared with C01.R3: tokenizer buffer discipline (what is tested is what is split)', r5_shared_tokenizer, floor=6),
    Rule('C07.R1', 'explicit raises escaping the entry points are all classified (documented / data-discharged / guarded)', r1_explicit_raises, floor=33),
    Rule('C07.R1b', 'segment-qualified designator literals are used on segments of that id', r1b_designators, floor=45),
    Rule('C07.R2', 'implicit raisers: stack, token index, int(), optional current nodes, child lookups, self-calls, unbound locals', r2_implicit, floor=30),
    Rule('C07.R4', 'shared with C13.R2: no exception can leave the value recognisers', r4_shared_recogniser_total, floor=6),
    Rule('C07.R3', 'the documented refusal paths exist and visitor/callback fences are in place', r3_refusal_paths, floor=4),
]
