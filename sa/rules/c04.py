"""C04 Envelope, control-number and counter checks are exact."""
import ast
import itertools

from ..core import Ob, Rule, AnalysisError, norm, KeyMaker
from ..cfg import path_of, skips_in_iteration
from .. import astutil as A
from .. import guards

META = {
    'explanation': (
        'R1 compare/reset wiring inside x12file.py, all derived from the branch labels of X12Base._parse_segment and '
        'X12Reader._parse_segment: every header pushes exactly one (type, control number) whose control number is the '
        'element the matching trailer is compared with (ISA13-IEA02, GS06-GE02, ST02-SE02); the counter a trailer '
        'compares its declared count with is incremented at the child header and reset in the header that opens the '
        'trailer\'s scope (gs_count@ISA, st_count@GS, seg_count@ST); the seen-id list consulted at a header is '
        'appended there and reset one level up (never for ISA); HL and LX counters are reset at ST / CLM and compared '
        'with HL01 / LX01; each trailer pops once; every failed comparison reaches the error sink of its level; the '
        'set of segment ids excluded from the segment count is the six envelope ids; cleanup handles exactly the '
        'pushed types. R2 every read/delete/pop of the top of an emptiable list attribute (loops, hl_stack, ...) in '
        'x12file.py holds the must-fact NonEmpty on the CFG (an orphan trailer must produce an envelope error, not '
        'IndexError). R3 the count parser _int handles both exceptions int() raises for str|None.'),
    'not_decided': 'that an envelope error is reported exactly when an independent recount finds the discrepancy '
                   '(equivalence of run-time counts); error codes',
    'trusted_base': ['sa/cfg.py must-fact analysis with class mod-summaries', 'X12 pairing of control-number elements (ISA13/IEA02, GS06/GE02, ST02/SE02) named by the standard'],
    'technique': 'static analysis: branch-label table extraction and agreement, CFG must-facts (typestate NonEmpty)',
}


META['explanation'] += ' Rounds 4-5: ' + 'R1 also: X12Reader.cleanup looks at the type of every open envelope (no iteration ends before the dispatch).'
META['explanation'] += ' After round 6: R6 trailer checks and R7 header bookkeeping of the reader are decided by constant propagation over stack shape x control number x declared count (R6) and header x reused/fresh control number (R7).'

HEADERS = {'ISA': ('ISA13', 'isa_ids', None, 'gs_count'),      # ctrl element, seen list, reset of seen list at, counter reset here
           'GS': ('GS06', 'gs_ids', 'ISA', 'st_count'),
           'ST': ('ST02', 'st_ids', 'GS', 'seg_count')}
TRAILERS = {'IEA': ('ISA', 'IEA01', 'IEA02', 'self.gs_count', '_isa_error'),
            'GE': ('GS', 'GE01', 'GE02', 'self.st_count', '_gs_error'),
            'SE': ('ST', 'SE01', 'SE02', '(1+self.seg_count)', '_st_error')}
CHILD_COUNTER = {'gs_count': 'GS', 'st_count': 'ST'}


class Arm(object):
    def __init__(self, label, body, extra, node):
        self.label = label
        self.body = body
        self.extra = extra
        self.node = node
        self.locals = {}       # name -> value expr (single assignment locals)
        self.assign = {}       # self attr -> [value expr]
        self.aug = {}          # self attr -> [(op, value)]
        self.appends = {}      # self attr -> [arg expr]
        self.member = []       # (left expr, self attr) for `x in self.attr` / `not in`
        self.errors = []       # (sink name, code, call)
        self.compares = []     # Compare nodes
        self.dels = []         # Delete statements
        mod = ast.Module(body=list(body), type_ignores=[])
        for n in ast.walk(mod):
            if isinstance(n, ast.Assign) and len(n.targets) == 1:
                t = n.targets[0]
                p = path_of(t)
                if isinstance(t, ast.Name):
                    self.locals[t.id] = n.value
                elif p and p.startswith('self.') and p.count('.') == 1:
                    self.assign.setdefault(p[5:], []).append(n.value)
            elif isinstance(n, ast.AugAssign):
                p = path_of(n.target)
                if p and p.startswith('self.'):
                    self.aug.setdefault(p[5:], []).append((type(n.op).__name__, n.value))
            elif isinstance(n, ast.Call):
                r, m = A.call_target(n)
                if m == 'append' and r and r.startswith('self.') and n.args:
                    self.appends.setdefault(r[5:], []).append(n.args[0])
                if r == 'self' and m in ('_isa_error', '_gs_error', '_st_error', '_seg_error'):
                    self.errors.append((m, A.const(n.args[0]) if n.args else None, n))
            elif isinstance(n, ast.Compare):
                self.compares.append(n)
                if len(n.ops) == 1 and isinstance(n.ops[0], (ast.In, ast.NotIn)):
                    p = path_of(n.comparators[0])
                    if p and p.startswith('self.'):
                        self.member.append((n.left, p[5:]))
            elif isinstance(n, ast.Delete):
                self.dels.append(n)

    def resolve(self, e):
        """inline single-assignment locals"""
        if isinstance(e, ast.Name) and e.id in self.locals:
            return self.locals[e.id]
        return e

    def refdes_of(self, e):
        """'XYZnn' if e (after inlining) is seg_data.get_value('XYZnn') possibly wrapped in self._int()"""
        e = self.resolve(e)
        if isinstance(e, ast.Call) and A.call_target(e) == ('self', '_int') and e.args:
            e = self.resolve(e.args[0])
        if isinstance(e, ast.Call) and A.call_target(e)[1] == 'get_value' and e.args and A.is_str(e.args[0]):
            return e.args[0].value
        return None


def _arms(ctx, qual):
    fn = ctx.func('x12file', qual)
    arms = {}
    for lab, body, extra, node in A.branch_chain(fn.body, A.name_or_call_pred('seg_id', 'seg_data.get_seg_id()')):
        if lab in (None, '?'):
            continue
        if lab in arms:
            raise AnalysisError('%s: two branches for %s' % (qual, lab))
        # the arm is judged by what stands in it: a call of a helper that the normal form could not expand there hides the
        # comparisons and reports the rule looks for - no verdict
        from .. import absint
        for st in body:
            for c in A.calls_in(st):
                if A.call_target(c)[1] in absint.OPAQUE_NAMES:
                    raise AnalysisError('%s[%s]: the work is done in %s(), a helper that could not be expanded in place' % (qual, lab, A.call_target(c)[1]))
        arms[lab] = Arm(lab, body, extra, node)
    return fn, arms


def r1_wiring(ctx):
    bfn, base = _arms(ctx, 'X12Base._parse_segment')
    rfn, rdr = _arms(ctx, 'X12Reader._parse_segment')
    W = lambda fn, arm: ctx.floc(fn, arm.node)
    # reader must run the common bookkeeping first
    first_call = None
    for s in rfn.body:
        for c in A.calls_in(s):
            if A.call_target(c)[1] == '_parse_segment':
                first_call = s
        if first_call is not None or isinstance(s, ast.If):
            break
    yield Ob('x12file:X12Reader._parse_segment runs X12Base._parse_segment first', first_call is not None, ctx.floc(rfn),
             '' if first_call is not None else 'the common header bookkeeping is not called before the trailer checks')
    for h, (ctrl, seen, seen_reset_at, counter_reset) in HEADERS.items():
        key = 'x12file:X12Base._parse_segment[%s]' % h
        arm = base.get(h)
        if arm is None:
            raise AnalysisError('%s branch vanished' % key)
        pushes = arm.appends.get('loops', [])
        ok = len(pushes) == 1 and isinstance(pushes[0], ast.Tuple) and len(pushes[0].elts) == 2 and A.const(pushes[0].elts[0]) == h
        yield Ob(key + ' pushes one (type, control number)', ok, W(bfn, arm),
                 '' if ok else 'pushes %s' % [norm(p) for p in pushes])
        if ok:
            rd = arm.refdes_of(pushes[0].elts[1])
            yield Ob(key + ' pushed control number is %s' % ctrl, rd == ctrl, W(bfn, arm),
                     '' if rd == ctrl else 'control number pushed comes from %s' % rd)
        # uniqueness test and seen list
        mem = [m for m in arm.member if m[1] == seen]
        ok = len(mem) == 1 and arm.refdes_of(mem[0][0]) == ctrl
        yield Ob(key + ' consults %s for %s' % (seen, ctrl), ok, W(bfn, arm),
                 '' if ok else 'membership tests: %s' % [(norm(arm.resolve(a)), b) for a, b in arm.member])
        app = arm.appends.get(seen, [])
        ok = len(app) == 1 and arm.refdes_of(app[0]) == ctrl
        yield Ob(key + ' records %s in %s' % (ctrl, seen), ok, W(bfn, arm),
                 '' if ok else 'appends to %s: %s' % (seen, [norm(a) for a in app]))
        # duplicate reported at the right level
        sink = {'ISA': '_isa_error', 'GS': '_gs_error', 'ST': '_st_error'}[h]
        ok = any(e[0] == sink for e in arm.errors)
        yield Ob(key + ' duplicate id reported through %s' % sink, ok, W(bfn, arm),
                 '' if ok else 'error sinks used: %s' % [e[0] for e in arm.errors])
        # seen list reset one level up / never for ISA
        for other, oarm in base.items():
            resets = [v for v in oarm.assign.get(seen, [])]
            should = (other == seen_reset_at)
            if should:
                ok = len(resets) == 1 and isinstance(resets[0], ast.List) and not resets[0].elts
                yield Ob('x12file:X12Base._parse_segment[%s] resets %s' % (other, seen), ok, W(bfn, oarm),
                         '' if ok else '%s is not reset to [] where %s opens' % (seen, other))
            elif resets:
                yield Ob('x12file:X12Base._parse_segment[%s] must not reset %s' % (other, seen), False, W(bfn, oarm),
                         '%s is reset at %s: ids would no longer be unique within their scope' % (seen, other))
        # the counter compared at the trailer of this level is reset here
        vals = arm.assign.get(counter_reset, [])
        want = 1 if counter_reset == 'seg_count' else 0
        ok = bool(vals) and A.const(vals[-1]) == want
        yield Ob(key + ' resets %s to %d' % (counter_reset, want), ok, W(bfn, arm),
                 '' if ok else '%s assigned %s' % (counter_reset, [norm(v) for v in vals]))
    # bookkeeping of a header branch is unconditional: push, count, record (a conditional one breaks the trailer comparison
    # for exactly the documents that take the other path)
    def top_level(arm, pred):
        return [st for st in arm.body if pred(st)]
    for hname, (ctrl, seen, _r, _c) in HEADERS.items():
        arm = base[hname]
        push = top_level(arm, lambda st: isinstance(st, ast.Expr) and isinstance(st.value, ast.Call) and A.call_target(st.value) == ('self.loops', 'append'))
        rec = top_level(arm, lambda st: isinstance(st, ast.Expr) and isinstance(st.value, ast.Call) and A.call_target(st.value) == ('self.' + seen, 'append'))
        ok = len(push) == 1 and len(rec) == 1
        yield Ob('x12file:X12Base._parse_segment[%s] pushes and records unconditionally' % hname, ok, W(bfn, arm),
                 '' if ok else 'the push of (%s, id) or the append to %s is nested in a condition' % (hname, seen))
    for cnt, at in CHILD_COUNTER.items():
        arm = base[at]
        inc = top_level(arm, lambda st: isinstance(st, ast.AugAssign) and path_of(st.target) == 'self.' + cnt)
        ok = len(inc) == 1
        yield Ob('x12file:X12Base._parse_segment[%s] counts every %s unconditionally' % (at, at), ok, W(bfn, arm),
                 '' if ok else '%s += 1 is nested in a condition: some %s segments are not counted although they are present' % (cnt, at))
    # child counters are incremented at the child header, by one, and nowhere else in the common code
    for cnt, at in CHILD_COUNTER.items():
        for lab, arm in base.items():
            incs = arm.aug.get(cnt, [])
            if lab == at:
                ok = len(incs) == 1 and incs[0][0] == 'Add' and A.const(incs[0][1]) == 1
                yield Ob('x12file:X12Base._parse_segment[%s] increments %s by one' % (lab, cnt), ok, W(bfn, arm),
                         '' if ok else 'increments: %s' % [(o, norm(v)) for o, v in incs])
            elif incs:
                yield Ob('x12file:X12Base._parse_segment[%s] must not change %s' % (lab, cnt), False, W(bfn, arm),
                         '%s is modified in the %s branch' % (cnt, lab))
    # ST resets HL bookkeeping
    st = base['ST']
    ok = any(A.const(v) == 0 for v in st.assign.get('hl_count', [])) and \
        any(isinstance(v, ast.List) and not v.elts for v in st.assign.get('hl_stack', []))
    yield Ob('x12file:X12Base._parse_segment[ST] resets hl_count and hl_stack', ok, W(bfn, st),
             '' if ok else 'hl_count/hl_stack are not both reset at ST')
    # HL
    hl = base.get('HL')
    if hl is None:
        raise AnalysisError('HL branch vanished')
    incs = hl.aug.get('hl_count', [])
    ok = len(incs) == 1 and incs[0][0] == 'Add' and A.const(incs[0][1]) == 1
    yield Ob('x12file:X12Base._parse_segment[HL] increments hl_count by one', ok, W(bfn, hl), '' if ok else str(incs))
    cmp_ok = False
    for c in hl.compares:
        if len(c.ops) == 1 and isinstance(c.ops[0], ast.NotEq):
            sides = [c.left, c.comparators[0]]
            if any(norm(s) == 'self.hl_count' for s in sides) and any(hl.refdes_of(s) == 'HL01' for s in sides):
                cmp_ok = True
    yield Ob('x12file:X12Base._parse_segment[HL] compares hl_count with HL01', cmp_ok, W(bfn, hl),
             '' if cmp_ok else 'no `self.hl_count != int(HL01)` comparison')
    mem = [m for m in hl.member if m[1] == 'hl_stack']
    ok = len(mem) == 1 and hl.refdes_of(mem[0][0]) == 'HL02'
    yield Ob('x12file:X12Base._parse_segment[HL] parent HL02 looked up in hl_stack', ok, W(bfn, hl),
             '' if ok else 'membership tests: %s' % [(norm(hl.resolve(a)), b) for a, b in hl.member])
    app = hl.appends.get('hl_stack', [])
    ok = len(app) == 1 and norm(app[0]) == 'self.hl_count'
    yield Ob('x12file:X12Base._parse_segment[HL] pushes its own number', ok, W(bfn, hl), '' if ok else str([norm(a) for a in app]))
    ok = sum(1 for e in hl.errors if e[0] == '_seg_error') >= 2
    yield Ob('x12file:X12Base._parse_segment[HL] sequence and parent errors reported', ok, W(bfn, hl),
             '' if ok else 'error calls: %s' % [(e[0], e[1]) for e in hl.errors])
    # LX / CLM
    clm, lx = base.get('CLM'), base.get('LX')
    if clm is None or lx is None:
        raise AnalysisError('CLM/LX branches vanished')
    ok = any(A.const(v) == 0 for v in clm.assign.get('lx_count', []))
    yield Ob('x12file:X12Base._parse_segment[CLM] resets lx_count', ok, W(bfn, clm), '' if ok else 'lx_count not reset at CLM')
    incs = lx.aug.get('lx_count', [])
    ok = len(incs) == 1 and incs[0][0] == 'Add' and A.const(incs[0][1]) == 1
    yield Ob('x12file:X12Base._parse_segment[LX] increments lx_count by one', ok, W(bfn, lx), '' if ok else str(incs))
    cmp_ok = False
    for c in lx.compares:
        if len(c.ops) == 1 and isinstance(c.ops[0], ast.NotEq):
            sides = [c.left, c.comparators[0]]
            if any(lx.refdes_of(s) == 'LX01' for s in sides) and any('self.lx_count' in norm(s) for s in sides):
                other = [s for s in sides if 'self.lx_count' in norm(s)][0]
                # the formatted counter must print the plain decimal number
                try:
                    vals = [A.ev(other, {'self.lx_count': i}) for i in (1, 9, 10, 123)]
                    cmp_ok = vals == ['1', '9', '10', '123']
                except A.NotClosed:
                    cmp_ok = False
    yield Ob('x12file:X12Base._parse_segment[LX] compares LX01 with the decimal count', cmp_ok, W(bfn, lx),
             '' if cmp_ok else 'no comparison of LX01 with the plainly formatted lx_count')
    same_guard = sorted(norm(x) for x in clm.extra) == sorted(norm(x) for x in lx.extra) and clm.extra
    yield Ob('x12file:X12Base._parse_segment CLM and LX under the same switch', bool(same_guard), W(bfn, lx),
             '' if same_guard else 'CLM guarded by %s, LX by %s' % ([norm(x) for x in clm.extra], [norm(x) for x in lx.extra]))
    # segment count excludes exactly the six envelope ids, increments by one
    found = None
    for n in ast.walk(bfn):
        if isinstance(n, ast.If) and isinstance(n.test, ast.Compare) and isinstance(n.test.ops[0], ast.NotIn) \
                and path_of(n.test.left) in ('seg_id', 'seg_data.get_seg_id()') and isinstance(n.test.comparators[0], (ast.Tuple, ast.List, ast.Set)):
            incs = [s for s in n.body if isinstance(s, ast.AugAssign) and path_of(s.target) == 'self.seg_count']
            if incs:
                found = (n, {A.const(x) for x in n.test.comparators[0].elts}, incs)
    ok = found is not None and found[1] == {'ISA', 'IEA', 'GS', 'GE', 'ST', 'SE'} and len(found[2]) == 1 \
        and A.const(found[2][0].value) == 1 and isinstance(found[2][0].op, ast.Add)
    yield Ob('x12file:X12Base._parse_segment counts every non-envelope segment once', ok, ctx.floc(bfn, found[0]) if found else ctx.floc(bfn),
             '' if ok else 'exclusion set is %s' % (sorted(found[1]) if found else None))
    if found:
        top = found[0] in bfn.body
        yield Ob('x12file:X12Base._parse_segment segment count is unconditional', top, ctx.floc(bfn, found[0]),
                 '' if top else 'the counting statement is nested inside another branch')
    # trailers
    for t, (htype, cnt_ref, id_ref, cnt_expr, sink) in TRAILERS.items():
        key = 'x12file:X12Reader._parse_segment[%s]' % t
        arm = rdr.get(t)
        if arm is None:
            raise AnalysisError('%s branch vanished' % key)
        type_ok = id_ok = cnt_ok = False
        for c in arm.compares:
            if len(c.ops) != 1 or not isinstance(c.ops[0], ast.NotEq):
                continue
            sides = [c.left, c.comparators[0]]
            texts = [norm(s) for s in sides]
            if 'self.loops[-1][0]' in texts and any(A.const(s) == htype for s in sides):
                type_ok = True
            if 'self.loops[-1][1]' in texts and any(arm.refdes_of(s) == id_ref for s in sides):
                id_ok = True
            if any(arm.refdes_of(s) == cnt_ref for s in sides):
                other = [s for s in sides if arm.refdes_of(s) != cnt_ref]
                if other and A.canon(other[0]) == cnt_expr:
                    # declared count must be converted with _int
                    conv = [s for s in sides if arm.refdes_of(s) == cnt_ref][0]
                    conv = arm.resolve(conv)
                    if isinstance(conv, ast.Call) and A.call_target(conv) == ('self', '_int'):
                        cnt_ok = True
        yield Ob(key + ' open envelope must be %s' % htype, type_ok, W(rfn, arm),
                 '' if type_ok else "no `self.loops[-1][0] != '%s'` test" % htype)
        yield Ob(key + ' control number %s compared with the open header' % id_ref, id_ok, W(rfn, arm),
                 '' if id_ok else 'no `self.loops[-1][1] != %s` test' % id_ref)
        # the mismatch is reported for EVERY pair of different counts: the whole condition that guards the report
        # (and the conditions around it inside the branch) is evaluated over declared x counted, the declared count
        # being None when it is not a number
        if cnt_ok:
            for c in arm.compares:
                if len(c.ops) != 1 or not isinstance(c.ops[0], ast.NotEq):
                    continue
                sides = [c.left, c.comparators[0]]
                if not any(arm.refdes_of(s_) == cnt_ref for s_ in sides):
                    continue
                decl = [s_ for s_ in sides if arm.refdes_of(s_) == cnt_ref][0]
                other = [s_ for s_ in sides if s_ is not decl][0]
                if A.canon(other) != cnt_expr:
                    continue
                ifn = A.enclosing(c, (ast.If,))
                tab = {ast.unparse(arm.resolve(decl)): 'DECL', ast.unparse(decl): 'DECL', ast.unparse(other): 'CNT'}
                conds = [(ifn.test, True)] + [(t_, pol) for t_, pol in A.path_condition(ifn, rfn)
                                              if any(x is t_ for b_ in arm.body for x in ast.walk(b_))]
                bad = []
                for d_, k_ in itertools.product((None, 0, 1, 2, 3), (0, 1, 2)):
                    try:
                        got = True
                        for t_, pol in conds:
                            e_ = A.abstract(t_, tab)
                            if not A.free_paths(e_) <= {'DECL', 'CNT'}:
                                continue
                            got = got and (bool(A.ev(e_, {'DECL': d_, 'CNT': k_})) == pol)
                    except (A.NotClosed, TypeError):
                        raise AnalysisError('%s: count condition cannot be evaluated: %s' % (key, norm(ifn.test)))
                    if got != (d_ != k_):
                        bad.append('declared %r, counted %d: %s' % (d_, k_, 'reported' if got else 'not reported'))
                yield Ob(key + ' a count mismatch is reported for every pair of different counts', not bad, ctx.floc(rfn, ifn),
                         '' if not bad else 'condition `%s`: %s' % (norm(ifn.test), bad[0]), detail={'evaluated': 15})
        yield Ob(key + ' declared count %s compared with %s' % (cnt_ref, cnt_expr), cnt_ok, W(rfn, arm),
                 '' if cnt_ok else 'no `self._int(%s) != %s` test; comparisons: %s' % (cnt_ref, cnt_expr, [norm(c) for c in arm.compares][:4]))
        sinks = {e[0] for e in arm.errors}
        ok = sinks == {sink}
        yield Ob(key + ' errors reported through %s' % sink, ok, W(rfn, arm),
                 '' if ok else 'error sinks used: %s' % sorted(sinks))
        nerr = len(arm.errors)
        yield Ob(key + ' each failed comparison has its own report', nerr >= 3 if t != 'SE' else nerr >= 2, W(rfn, arm),
                 '' if (nerr >= 3 if t != 'SE' else nerr >= 2) else 'only %d error call(s) for three comparisons' % nerr)
        # pops: last statement of the arm pops the stack unconditionally
        last = arm.body[-1]
        ok = (isinstance(last, ast.Delete) and norm(last) == 'del self.loops[-1]') or \
            (isinstance(last, ast.If) and any(norm(s) == 'del self.loops[-1]' for s in ast.walk(last) if isinstance(s, ast.Delete)))
        yield Ob(key + ' pops the envelope stack', ok, W(rfn, arm), '' if ok else 'the branch does not end by popping the stack')
    # cleanup handles exactly the pushed types
    cfn = ctx.func('x12file', 'X12Reader.cleanup')
    labels = set()
    sinks = {}
    for n in ast.walk(cfn):
        if isinstance(n, ast.If):
            for lab, body, extra, node in A.branch_chain([n], lambda e: isinstance(e, ast.Name)):
                if lab not in (None, '?'):
                    labels.add(lab)
                    local = {}
                    for st in body:
                        if isinstance(st, ast.Assign) and len(st.targets) == 1 and isinstance(st.targets[0], ast.Tuple) \
                                and isinstance(st.value, ast.Tuple) and len(st.value.elts) == len(st.targets[0].elts):
                            for tn, tv in zip(st.targets[0].elts, st.value.elts):
                                if isinstance(tn, ast.Name):
                                    local[tn.id] = tv
                        for c in A.calls_in(st):
                            fnx = c.func
                            if isinstance(fnx, ast.Name) and fnx.id in local:
                                fnx = local[fnx.id]
                            if isinstance(fnx, ast.Attribute) and path_of(fnx.value) == 'self' and fnx.attr.endswith('_error'):
                                sinks[lab] = fnx.attr
    if not labels:
        # table form: {'ST': (.., self._st_error, ..), ...}[seg] looked up per open envelope and the entry's sink called
        for d in ast.walk(cfn):
            if isinstance(d, ast.Dict) and d.keys and all(isinstance(k, ast.Constant) and isinstance(k.value, str) for k in d.keys):
                tab = {}
                for k, v in zip(d.keys, d.values):
                    refs = [x.attr for x in ast.walk(v) if isinstance(x, ast.Attribute) and path_of(x.value) == 'self' and x.attr.endswith('_error')]
                    if len(refs) == 1:
                        tab[k.value] = refs[0]
                indirect = [c for c in A.calls_in(cfn) if isinstance(c.func, ast.Name)
                            or (isinstance(c.func, ast.Subscript) and isinstance(c.func.value, ast.Subscript))]
                if len(tab) == len(d.keys) and indirect:
                    labels = set(tab)
                    sinks = tab
    if not labels:
        raise AnalysisError('X12Reader.cleanup: neither an if-chain nor a dispatch table over the envelope type was recognised')
    ok = labels == set(HEADERS)
    yield Ob('x12file:X12Reader.cleanup handles exactly the pushed types', ok, ctx.floc(cfn),
             '' if ok else 'handles %s, pushed types are %s' % (sorted(labels), sorted(HEADERS)))
    want = {'ISA': '_isa_error', 'GS': '_gs_error', 'ST': '_st_error'}
    ok = sinks == want
    yield Ob('x12file:X12Reader.cleanup reports each missing trailer at its level', ok, ctx.floc(cfn),
             '' if ok else 'sinks %s' % sinks)
    loops = [n for n in ast.walk(cfn) if isinstance(n, ast.For) and norm(n.iter) == 'self.loops']
    yield Ob('x12file:X12Reader.cleanup sweeps every open envelope', len(loops) == 1, ctx.floc(cfn),
             '' if len(loops) == 1 else 'no loop over self.loops')
    if len(loops) == 1:
        # no open envelope is passed over: every iteration reaches the dispatch on the envelope type (or a report)
        g = ctx.cfg(cfn)
        tv = {x.id for x in ast.walk(loops[0].target) if isinstance(x, ast.Name)}

        def dispatches(n):
            for x in g.walk_exprs(n):
                if isinstance(x, ast.Compare) and isinstance(x.left, ast.Name) and x.left.id in tv and any(
                        isinstance(c, ast.Constant) and c.value in HEADERS for c in x.comparators):
                    return True
                if isinstance(x, ast.Call) and (isinstance(x.func, ast.Attribute) and x.func.attr in want.values() or isinstance(x.func, (ast.Name, ast.Subscript))
                                                and not (isinstance(x.func, ast.Name) and x.func.id in ('set', 'len', 'str', 'list', 'tuple', 'dict', 'int'))):
                    return True
                if isinstance(x, ast.Subscript) and isinstance(x.value, (ast.Dict, ast.Name)) and isinstance(x.slice, ast.Name) and x.slice.id in tv:
                    return True
            return False
        skip = skips_in_iteration(g, loops[0], dispatches)
        yield Ob('x12file:X12Reader.cleanup reports every open envelope, none is passed over', skip is None, ctx.floc(cfn, loops[0]),
                 '' if skip is None else 'an iteration can end without looking at the envelope type (via %s): an envelope left open at the end '
                 'of input draws no missing-trailer error' % ' -> '.join('L%s' % getattr(n.ast, 'lineno', '?') for n in skip if n.ast is not None)[:160])


def r2_stack_safety(ctx):
    km = KeyMaker()
    for clsname in ('X12Base', 'X12Reader', 'X12Writer'):
        chain = guards.class_chain(ctx, 'x12file', clsname)
        em = set()
        for c in guards.class_chain(ctx, 'x12file', clsname):
            em |= guards.emptiable_attrs([c])
        cls = chain[0]
        for f in cls.body:
            if not isinstance(f, ast.FunctionDef):
                continue
            f._qual = clsname + '.' + f.name
            f._mod = ctx.mod('x12file')
            for nd, sub, p, kind, ok in guards.nonempty_obligations(ctx, f, chain, em):
                key = km('x12file:%s.%s' % (clsname, f.name), kind, norm(nd.stmt if nd.kind != 'test' else nd.ast))
                yield Ob(key, ok, ctx.floc(f, sub),
                         '' if ok else '%s of %s without a dominating non-empty test: IndexError when the list is empty '
                         '(e.g. an orphan trailer)' % (kind, norm(sub)))


def r3_int_total(ctx):
    fn = ctx.func('x12file', 'X12Base._int')
    trys = [n for n in ast.walk(fn) if isinstance(n, ast.Try)]
    calls = [c for c in A.calls_in(fn) if A.call_target(c) == (None, 'int')]
    if not calls:
        raise AnalysisError('X12Base._int no longer calls int()')
    caught = set()
    for t in trys:
        if any(c in list(ast.walk(ast.Module(body=t.body, type_ignores=[]))) for c in calls):
            for h in t.handlers:
                if h.type is None:
                    caught |= {'ValueError', 'TypeError'}
                else:
                    for x in (h.type.elts if isinstance(h.type, ast.Tuple) else [h.type]):
                        nm = (path_of(x) or '').split('.')[-1]
                        if nm in ('Exception', 'BaseException'):
                            caught |= {'ValueError', 'TypeError'}
                        caught.add(nm)
    for exc, why in (('ValueError', 'a non-numeric count'), ('TypeError', 'an absent element (get_value returns None)')):
        ok = exc in caught
        yield Ob('x12file:X12Base._int handles %s' % exc, ok, ctx.floc(fn),
                 '' if ok else 'int() raises %s for %s and _int does not catch it' % (exc, why))
    # what _int returns, decided by constant propagation (exceptions of int() included): the number for a decimal text,
    # None - never a number - for a blank, absent or non-numeric one: a declared count that cannot be read must not compare
    # equal to any true count (0 included)
    from ..absint import run_function, NotClosedTest
    bad = []
    for x, want in (('12', 12), ('0', 0), ('007', 7), ('', None), (None, None), ('X', None), ('1.5', None), ('2A', None)):
        try:
            got = run_function(ctx.cfg(fn), fn, [None, x], {})
        except (NotClosedTest, A.NotClosed) as e:
            raise AnalysisError('X12Base._int cannot be decided for %r: %s' % (x, e))
        if got != want or (got is not None and type(got) is not int):
            bad.append('_int(%r) is %r, not %r' % (x, got, want))
    yield Ob('x12file:X12Base._int is the number for a decimal text and None otherwise', not bad, ctx.floc(fn),
             '' if not bad else bad[0] + ': an unreadable count then equals a true count of that value and the count error is not raised')
    # every declared count in the reader goes through _int (no bare int() on segment values)
    for q, f in ctx.functions('x12file'):
        for c in A.calls_in(f):
            if A.call_target(c) == (None, 'int') and q != 'X12Base._int':
                arg = c.args[0] if c.args else None
                if arg is not None and not isinstance(arg, ast.Constant):
                    yield Ob('x12file:%s %s' % (q, norm(c)), False, ctx.floc(f, c),
                             'bare int() on a run-time value; use _int so that a malformed count becomes an envelope error')


def r4_pending_errors_kept(ctx):
    """a discrepancy the recount finds is reported through the pending-error list until the caller pops it: nothing
    but pop_errors (and the constructors) may empty or replace that list, and never inside a loop over the input"""
    allowed = {'X12Base.__init__', 'X12Base.pop_errors', 'X12Reader.__iter__', 'X12Reader.__init__', 'X12Writer.__init__'}
    n = 0
    for q, f in ctx.functions('x12file'):
        for s_ in ast.walk(f):
            tg = []
            if isinstance(s_, ast.Assign):
                tg = s_.targets
            elif isinstance(s_, ast.Delete):
                tg = s_.targets
            hit = [t for t in tg if (path_of(t) or path_of(getattr(t, 'value', None)) or '') == 'self.err_list']
            clear = isinstance(s_, ast.Expr) and isinstance(s_.value, ast.Call) and A.call_target(s_.value) in (('self.err_list', 'clear'), ('self.err_list', 'pop'))
            if not hit and not clear:
                continue
            n += 1
            in_loop = A.enclosing(s_, (ast.For, ast.While)) is not None
            ok = q in allowed and not in_loop
            yield Ob('x12file:%s empties the pending-error list: %s' % (q, norm(s_)), ok, ctx.floc(f, s_),
                     '' if ok else ('the list is emptied once per %s: errors the caller has not popped yet are lost' % ('iteration' if in_loop else 'call of %s' % q)))
    if n < 3:
        raise AnalysisError('x12file: stores to self.err_list not found')


class _SegM(object):
    _sa_model = True

    def __init__(self, sid, vals, n=16):
        self.sid, self.vals, self.n = sid, vals, n

    def get_seg_id(self):
        return self.sid

    def get_value(self, r):
        return self.vals.get(r)

    def is_empty(self):
        return False

    def is_seg_id_valid(self):
        return True

    def __len__(self):
        return self.n

    def __hash__(self):
        return hash((self.sid, tuple(sorted(self.vals.items()))))


def r7_header_semantics(ctx):
    """what the shared bookkeeping does at a header, decided by constant propagation through X12Base._parse_segment: ISA,
    GS and ST push their envelope with its own control number, report a control number already used in the enclosing
    scope (and only then), and start the counters of the level below (a GS counts one more group and starts the set
    count and the set ids afresh, and so on); any other segment counts once towards the segment count."""
    from ..absint import traces, NotClosedTest
    fn = ctx.func('x12file', 'X12Base._parse_segment')
    g = ctx.cfg(fn)
    base = {'self.loops': (('ISA', 'i0'),), 'self.isa_ids': ('i0',), 'self.gs_ids': ('g0',), 'self.st_ids': ('s0',), 'self.gs_count': 2, 'self.st_count': 3,
            'self.seg_count': 7, 'self.hl_count': 2, 'self.hl_stack': (1, 2), 'self.lx_count': 1, 'self.cur_line': 10, 'self.check_837_lx': False,
            'self.err_list': ()}
    CASES = []
    for dup in (False, True):
        CASES.append(('ISA', {'ISA13': 'i0' if dup else 'i9', 'ISA15': 'P'}, ('_isa_error', '025') if dup else None,
                      {'self.loops': base['self.loops'] + (('ISA', 'i0' if dup else 'i9'),), 'self.gs_count': 0, 'self.gs_ids': (),
                       'self.isa_ids': ('i0', 'i0' if dup else 'i9'), 'self.seg_count': 7}))
        CASES.append(('GS', {'GS06': 'g0' if dup else 'g9'}, ('_gs_error', '6') if dup else None,
                      {'self.loops': base['self.loops'] + (('GS', 'g0' if dup else 'g9'),), 'self.gs_count': 3, 'self.st_count': 0, 'self.st_ids': (),
                       'self.gs_ids': ('g0', 'g0' if dup else 'g9'), 'self.seg_count': 7}))
        CASES.append(('ST', {'ST02': 's0' if dup else 's9'}, ('_st_error', '23') if dup else None,
                      {'self.loops': base['self.loops'] + (('ST', 's0' if dup else 's9'),), 'self.st_count': 4, 'self.seg_count': 1, 'self.hl_count': 0,
                       'self.hl_stack': (), 'self.st_ids': ('s0', 's0' if dup else 's9')}))
    CASES.append(('NM1', {}, None, {'self.seg_count': 8, 'self.loops': base['self.loops'], 'self.gs_count': 2, 'self.st_count': 3}))
    CASES.append(('SE', {}, None, {'self.seg_count': 7, 'self.loops': base['self.loops']}))
    # LS / LE bracket a loop inside the set: ordinary segments for the count (once each), not envelopes
    for sid_ in ('LS', 'LE', 'REF', 'CLM'):
        CASES.append((sid_, {sid_ + '01': '2120'}, None, {'self.seg_count': 8, 'self.loops': base['self.loops'], 'self.cur_line': 11}))
    # HL: own running number, parent must be open; the stack of open levels is cut back to the parent
    CASES.append(('HL', {'HL01': '3', 'HL02': '2'}, None, {'self.hl_count': 3, 'self.hl_stack': (1, 2, 3), 'self.seg_count': 8}))
    CASES.append(('HL', {'HL01': '4', 'HL02': '2'}, ('_seg_error', 'HL1'), {'self.hl_count': 3, 'self.hl_stack': (1, 2, 3), 'self.seg_count': 8}))
    CASES.append(('HL', {'HL01': 'x', 'HL02': '2'}, ('_seg_error', 'HL1'), {'self.hl_count': 3, 'self.hl_stack': (1, 2, 3)}))
    CASES.append(('HL', {'HL01': '3', 'HL02': '1'}, None, {'self.hl_count': 3, 'self.hl_stack': (1, 3)}))
    CASES.append(('HL', {'HL01': '3', 'HL02': '9'}, ('_seg_error', 'HL2'), {'self.hl_count': 3, 'self.hl_stack': (3,)}))
    CASES.append(('HL', {'HL01': '3', 'HL02': ''}, None, {'self.hl_count': 3, 'self.hl_stack': (1, 2, 3)}))
    # LX numbering is checked only when the 837 option is on
    CASES.append(('LX', {'LX01': '2', '@lx': True}, None, {'self.lx_count': 2, 'self.seg_count': 8}))
    CASES.append(('LX', {'LX01': '3', '@lx': True}, ('_seg_error', 'LX'), {'self.lx_count': 2, 'self.seg_count': 8}))
    CASES.append(('LX', {'LX01': '3', '@lx': False}, None, {'self.lx_count': 1, 'self.seg_count': 8}))
    CASES.append(('CLM', {'@lx': True}, None, {'self.lx_count': 0, 'self.seg_count': 8}))
    CASES.append(('CLM', {'@lx': False}, None, {'self.lx_count': 1, 'self.seg_count': 8}))
    bad = []
    for sid, vals, want_err, want_state in CASES:
        env = dict(base)
        env['seg_data'] = _SegM(sid, {k: v for k, v in vals.items() if not k.startswith('@')})
        env['self.check_837_lx'] = vals.get('@lx', False)

        def key(c):
            r, m = A.call_target(c)
            return m if r == 'self' and m in ('_isa_error', '_gs_error', '_st_error', '_seg_error') else None
        try:
            res = traces(g, env, key, funcs={'self._int': lambda x: int(x) if x not in (None, '') and str(x).isdigit() else None})
        except NotClosedTest as e:
            raise AnalysisError('X12Base._parse_segment[%s] cannot be decided: %s' % (sid, e))
        for tr, e_ in res:
            got = {(a_[0], a_[1][0] if a_[1] else None) for a_ in tr}
            fin = dict(e_)
            diffs = [(k, fin.get(k), v) for k, v in want_state.items() if fin.get(k) != v]
            if got != ({want_err} if want_err else set()) or diffs:
                bad.append('%s %s: reports %s (expected %s)%s' % (sid, vals, sorted(got), want_err,
                                                                  ''.join('; %s becomes %r, expected %r' % d for d in diffs[:2])))
    yield Ob('x12file:X12Base._parse_segment headers push, report reuse and start the counters below; other segments count once', not bad, ctx.floc(fn),
             '' if not bad else bad[0], note='%d cases' % len(CASES))


def r8_lx_option_follows_map(ctx):
    """the 837 service-line check (LX01 against the reader's own count) is an option of the reader that the driver
    switches with the map: wherever the driver loads a map, the statements that follow in the same block leave
    `check_837_lx` true exactly when the map loaded is an 837 - whatever it was before (a flag that is only ever set
    makes the LX of a later 835 group an envelope error).  Decided by constant propagation over map id x previous value
    on the statements after each load."""
    from ..absint import explore
    drivers = (('x12n_document', 'x12n_document'), ('x12context', 'X12ContextReader.iter_segments'))
    n = 0
    for mod, q in drivers:
        for fn in ctx.region(mod, q):
            for st in ast.walk(fn):
                if not (isinstance(st, ast.Assign) and isinstance(st.value, ast.Call) and A.call_target(st.value)[1] == 'load_map_file'
                        and len(st.targets) == 1 and isinstance(st.targets[0], ast.Name)):
                    continue
                var = st.targets[0].id
                owner = A.parent(st)
                blk = None
                for field in ('body', 'orelse', 'finalbody'):
                    b_ = getattr(owner, field, None)
                    if isinstance(b_, list) and st in b_:
                        blk = b_
                if blk is None:
                    raise AnalysisError('x12n_document: the block of `%s` was not found' % norm(st))
                rest = blk[blk.index(st) + 1:]
                uses_flag = [x for x in ast.walk(ast.Module(body=rest, type_ignores=[])) if isinstance(x, ast.Attribute) and x.attr == 'check_837_lx'
                             and isinstance(x.ctx, ast.Store)]
                if A.enclosing(st, (ast.For, ast.While)) is None:
                    continue          # the control map, loaded before the first segment is read: no document map yet
                n += 1
                recv = path_of(uses_flag[0].value) if uses_flag else 'src'
                synth = ast.parse('def _after_load():\n    pass').body[0]
                synth.body = list(rest) or synth.body
                ast.fix_missing_locations(synth)
                from ..cfg import CFG
                g = CFG(synth)
                bad = []
                for mid in ('837', '835', '270'):
                    for prior in (True, False):
                        fin = []

                        def on_node(nd, env, g=g):
                            if nd is g.exit:
                                fin.append(env.get(recv + '.check_837_lx', 'unknown'))
                        explore(g, {var: A.Model('map', id=mid), recv + '.check_837_lx': prior}, on_node=on_node)
                        want = mid == '837'
                        for v in fin:
                            if v is not want:
                                bad.append('after loading a %s map with the option %s before, the option is %s' % (mid, 'on' if prior else 'off',
                                                                                                              {True: 'on', False: 'off'}.get(v, 'undetermined')))
                yield Ob('%s:%s the 837 LX option follows the map loaded (%s)' % (mod, q, 'line %d' % st.lineno), not bad, ctx.floc(fn, st),
                         '' if not bad else bad[0] + ': LX segments of that group are checked against the wrong rule')
    if n == 0:
        raise AnalysisError('no map load followed by a check_837_lx assignment was found in the driver')


def r9_missing_trailer_sweep(ctx):
    """at end of input every envelope still open is reported once, at its own level, with the code of a missing trailer
    (SE: set code 2, GE: group code 3, IEA: interchange code 023) - decided by constant propagation through
    X12Reader.cleanup for every stack of open envelopes (nothing, ISA, ISA/GS, ISA/GS/ST, a second interchange left
    open inside the first)."""
    from ..absint import traces, NotClosedTest
    fn = ctx.func('x12file', 'X12Reader.cleanup')
    g = ctx.cfg(fn)
    WANT = {'ISA': ('_isa_error', '023'), 'GS': ('_gs_error', '3'), 'ST': ('_st_error', '2')}
    full = (('ISA', 'i1'), ('GS', 'g1'), ('ST', 's1'))
    bad = []
    stacks = [full[:k] for k in range(4)] + [(('ISA', 'i1'), ('ISA', 'i2'), ('GS', 'g2'))]
    for stack in stacks:
        def key(c):
            r, m = A.call_target(c)
            return m if r == 'self' and m in ('_isa_error', '_gs_error', '_st_error', '_seg_error') else None
        try:
            res = traces(g, {'self.loops': stack}, key)
        except NotClosedTest as e:
            raise AnalysisError('X12Reader.cleanup cannot be decided for open envelopes %s: %s' % ([t for t, _ in stack], e))
        want = sorted(WANT[t] for t, _ in stack)
        for tr, _e in res:
            got = sorted((a_[0], a_[1][0] if a_[1] else None) for a_ in tr)
            if got != want:
                bad.append('with %s open at end of input the reports are %s, expected %s' % ([t for t, _ in stack] or 'nothing', got, want))
            # the message names the control number of the envelope it is about
            for a_, (t, i) in zip(tr, stack):
                if len(a_[1]) > 1 and isinstance(a_[1][1], str) and i not in a_[1][1] and len(bad) < 3:
                    bad.append('the report for the open %s %s does not name it: %r' % (t, i, a_[1][1]))
    yield Ob('x12file:X12Reader.cleanup reports every envelope left open, once, at its level', not bad, ctx.floc(fn), '' if not bad else bad[0], note='%d stacks' % len(stacks))


def r10_popped_errors_reach_a_node(ctx):
    """the context reader takes the reader's pending envelope errors (pop_errors) into a per-segment error list; they
    reach the caller only if that list is attached to the node that is yielded.  In X12ContextReader.iter_segments every
    way from a pop_errors() call to the end of the iteration passes the attachment (handle_errh_errors of that list): a
    pop on a path that builds a tree instead throws the discrepancy away (must-pass-through on the CFG)."""
    fn = ctx.func('x12context', 'X12ContextReader.iter_segments')
    g = ctx.cfg(fn)
    loops = [n for n in ast.walk(fn) if isinstance(n, ast.For) and path_of(n.iter) == 'self.src']
    if len(loops) != 1:
        raise AnalysisError('X12ContextReader.iter_segments: the segment loop was not found')
    heads = [nd for nd in g.nodes if nd.kind == 'for' and nd.stmt is loops[0]]
    pops = [nd for nd in g.nodes if nd.ast is not None and any(isinstance(c, ast.Call) and A.call_target(c)[1] == 'pop_errors' for c in g.walk_exprs(nd))]
    if not pops or not heads:
        raise AnalysisError('X12ContextReader.iter_segments: no pop_errors() call in the segment loop')

    def attaches(nd):
        return nd.ast is not None and any(isinstance(c, ast.Call) and A.call_target(c)[1] == 'handle_errh_errors' for c in g.walk_exprs(nd))
    for p_ in pops:
        path = g.find_path(p_, lambda n: n is heads[0] or n is g.exit, blocked=attaches, edge_ok=lambda a_, l, b_: l != 'exc')
        yield Ob('x12context:X12ContextReader.iter_segments errors taken from the reader are attached to the yielded node', path is None, ctx.floc(fn, p_.stmt),
                 '' if path is None else 'the iteration can end (line %s) after pop_errors() without handle_errh_errors(): an envelope discrepancy found while '
                 'a tree is being built is reported by no node and is no longer pending in the reader' % ([n.lineno for n in path if n.lineno][-1:] or ['?'])[0])


def r6_trailer_semantics(ctx):
    """what the reader reports at a trailer, decided by constant propagation through X12Reader._parse_segment for SE, GE and
    IEA over: the stack of open envelopes (well nested, a level left open, nothing open), a control number that does or
    does not match, a declared count that is right, off by one, blank or not a number.  Expected: no error exactly when
    the trailer closes the envelope on top of the stack with its own control number and the true count; otherwise the
    code of the discrepancy at the trailer's level; the closed envelope (and one left open above it) leaves the stack."""
    from ..absint import traces, NotClosedTest
    import itertools as _it
    fn = ctx.func('x12file', 'X12Reader._parse_segment')
    g = ctx.cfg(fn)
    SPEC = {'SE': ('ST', 'st', 'seg_count', 1, {'open': None, 'none': '3', 'id': '3', 'count': '4'}),
            'GE': ('GS', 'gs', 'st_count', 0, {'open': '3', 'none': '4', 'id': '4', 'count': '5'}),
            'IEA': ('ISA', 'isa', 'gs_count', 0, {'open': '024', 'none': '024', 'id': '001', 'count': '021'})}

    def _int(x):
        try:
            return int(x)
        except (ValueError, TypeError):
            return None
    for sid, (hdr, lvl, counter, plus, codes) in SPEC.items():
        full = (('ISA', 'i1'), ('GS', 'g1'), ('ST', 's1'))
        depth = {'ST': 3, 'GS': 2, 'ISA': 1}[hdr]
        nested = full[:depth]
        stacks = {'nested': nested, 'none': (), 'open': full[:depth + 1] if depth < 3 else None}
        bad = []
        runs = 0
        for sname, stack in stacks.items():
            if stack is None:
                continue
            for idok, cnt in _it.product((True, False, None), ('ok', 'off', 'blank', 'text')):
                true = 4 + plus
                own_id = dict(nested)[hdr] if True else None
                decl = {'ok': str(true), 'off': str(true + 1), 'blank': '', 'text': 'X'}[cnt]
                vals = {sid + '01': decl, sid + '02': own_id if idok else ('zz' if idok is False else '')}
                seg = A.Model('seg', get_seg_id=lambda sid=sid: sid, get_value=lambda r, vals=vals: vals.get(r))
                env = {'seg_data': seg, 'self.loops': stack, 'self.' + counter: 4, 'self.seg_count': 4, 'self.st_count': 4, 'self.gs_count': 4,
                       'seg_id': sid}
                funcs = {'X12Base._parse_segment': lambda *a_: None, 'self._int': _int}

                def key(c):
                    r, m = A.call_target(c)
                    return m if r == 'self' and m in ('_isa_error', '_gs_error', '_st_error', '_seg_error') else None
                try:
                    res = traces(g, env, key, funcs=funcs)
                except NotClosedTest as e:
                    raise AnalysisError('X12Reader._parse_segment[%s] cannot be decided (stack %s): %s' % (sid, [t for t, _ in stack], e))
                runs += 1
                want = set()
                rest = list(stack)
                if sid != 'SE' and rest and rest[-1][0] != hdr:
                    want.add(('_%s_error' % lvl, codes['open']))
                    rest.pop()
                if not rest:
                    want.add(('_%s_error' % lvl, codes['none']))
                else:
                    if (sid == 'SE' and rest[-1][0] != hdr) or rest[-1][1] != vals[sid + '02']:
                        want.add(('_%s_error' % lvl, codes['id']))
                    if _int(decl) != true:
                        want.add(('_%s_error' % lvl, codes['count']))
                    rest.pop()
                for tr, e_ in res:
                    got = {(a_[0], a_[1][0] if a_[1] else None) for a_ in tr}
                    left = dict(e_).get('self.loops')
                    if (got != want or left != tuple(rest)) and len(bad) < 3:
                        bad.append('%s with %s open, control number %s, declared count %r (true %d): reports %s, stack left %s; expected %s, %s' % (
                            sid, [t for t, _ in stack] or 'nothing', 'matching' if idok else ('different' if idok is False else 'blank'), decl, true, sorted(got),
                            [t for t, _ in (left or ())], sorted(want), [t for t, _ in rest]))
        yield Ob('x12file:X12Reader._parse_segment[%s] reports exactly the discrepancies of the trailer' % sid, not bad, ctx.floc(fn),
                 '' if not bad else bad[0], note='%d combinations' % runs)


def r5_shared_tokenizer(ctx):
    """an envelope segment that the tokenizer hands over damaged (a line break glued to its id at a buffer boundary) is not recognised as a trailer: C01.R3 / R5 (shared)"""
    from . import c01
    for fn in (c01.r3_tokenizer_exits, c01.r5_strip_set, c01.r11_reader_iteration):
        for o in fn(ctx):
            yield o

def _ownership_runs(fn, attr, nonempty):
    """every way `fn` can end, by a walk over its statements with object identities: [(returned, attr_obj, objects)].
    Objects are numbered; each has 'content' ('orig' = the list as it was, 'empty', 'copy' = a copy of the original).
    `nonempty` says whether the list held errors on entry (decides tests on the list)."""
    class Undecided(Exception):
        pass
    results = []

    def ev(e, st):
        vars_, objs = st
        p = path_of(e)
        if p == attr:
            return vars_['@attr']
        if isinstance(e, ast.Name) and e.id in vars_:
            return vars_[e.id]
        if isinstance(e, (ast.List, ast.Tuple)) and not e.elts:
            objs.append('empty')
            return len(objs) - 1
        if isinstance(e, ast.Call) and isinstance(e.func, ast.Name) and e.func.id in ('list', 'tuple') and len(e.args) <= 1 and not e.keywords:
            if not e.args:
                objs.append('empty')
                return len(objs) - 1
            src = ev(e.args[0], st)
            objs.append({'orig': 'copy'}.get(objs[src], objs[src]))
            return len(objs) - 1
        if isinstance(e, ast.Subscript) and isinstance(e.slice, ast.Slice) and e.slice.lower is None and e.slice.upper is None and e.slice.step is None:
            src = ev(e.value, st)
            objs.append({'orig': 'copy'}.get(objs[src], objs[src]))
            return len(objs) - 1
        if isinstance(e, ast.Call) and isinstance(e.func, ast.Attribute) and e.func.attr == 'copy' and not e.args:
            src = ev(e.func.value, st)
            objs.append({'orig': 'copy'}.get(objs[src], objs[src]))
            return len(objs) - 1
        raise Undecided(norm(e))

    def truth(e, st):
        vars_, objs = st
        if isinstance(e, ast.UnaryOp) and isinstance(e.op, ast.Not):
            t = truth(e.operand, st)
            return None if t is None else not t
        if isinstance(e, ast.Call) and isinstance(e.func, ast.Name) and e.func.id == 'len' and len(e.args) == 1:
            return truth(e.args[0], st)
        if isinstance(e, ast.Compare) and len(e.ops) == 1 and isinstance(e.left, ast.Call) and isinstance(e.left.func, ast.Name) and e.left.func.id == 'len' \
                and A.const(e.comparators[0]) == 0 and isinstance(e.ops[0], (ast.Gt, ast.NotEq, ast.Eq)):
            t = truth(e.left.args[0], st)
            return None if t is None else (t if not isinstance(e.ops[0], ast.Eq) else not t)
        try:
            o = ev(e, (dict(vars_), list(objs)))
        except Undecided:
            return None
        c = objs[o] if o < len(objs) else 'empty'
        return (nonempty if c in ('orig', 'copy') else False)

    def run(stmts, st, cont):
        if not stmts:
            return cont(st)
        s0, rest = stmts[0], stmts[1:]
        vars_, objs = st
        if isinstance(s0, ast.Expr) and isinstance(s0.value, ast.Constant):
            return run(rest, st, cont)
        if isinstance(s0, ast.Pass):
            return run(rest, st, cont)
        if isinstance(s0, ast.Return):
            r = ev(s0.value, st) if s0.value is not None else None
            results.append((r, vars_['@attr'], list(objs)))
            return
        if isinstance(s0, ast.Assign) and len(s0.targets) == 1:
            t = s0.targets[0]
            if isinstance(t, (ast.Tuple, ast.List)) and isinstance(s0.value, (ast.Tuple, ast.List)) and len(t.elts) == len(s0.value.elts):
                vals = [ev(v, st) for v in s0.value.elts]
                pairs = list(zip(t.elts, vals))
            else:
                pairs = [(t, ev(s0.value, st))]
            vars_ = dict(vars_)
            for tg, v in pairs:
                if path_of(tg) == attr:
                    vars_['@attr'] = v
                elif isinstance(tg, ast.Name):
                    vars_[tg.id] = v
                else:
                    raise Undecided(norm(s0))
            return run(rest, (vars_, objs), cont)
        if isinstance(s0, ast.Expr) and isinstance(s0.value, ast.Call) and isinstance(s0.value.func, ast.Attribute) and s0.value.func.attr == 'clear' and not s0.value.args:
            o = ev(s0.value.func.value, st)
            objs = list(objs)
            objs[o] = 'empty'
            return run(rest, (vars_, objs), cont)
        if isinstance(s0, ast.Delete) and len(s0.targets) == 1 and isinstance(s0.targets[0], ast.Subscript) and isinstance(s0.targets[0].slice, ast.Slice) \
                and s0.targets[0].slice.lower is None and s0.targets[0].slice.upper is None:
            o = ev(s0.targets[0].value, st)
            objs = list(objs)
            objs[o] = 'empty'
            return run(rest, (vars_, objs), cont)
        if isinstance(s0, ast.If):
            t = truth(s0.test, st)
            for branch, take in ((s0.body, True), (s0.orelse, False)):
                if t is None or t == take:
                    run(list(branch) + rest, (dict(vars_), list(objs)), cont)
            return
        raise Undecided(norm(s0))

    def end(st):
        results.append((None, st[0]['@attr'], list(st[1])))
    try:
        run(list(fn.body), ({'@attr': 0}, ['orig']), end)
    except Undecided as e:
        raise AnalysisError('%s: ownership of %s cannot be followed through `%s`' % (fn.name, attr, e))
    return results


def r11_error_transport(ctx):
    """a discrepancy the recount finds reaches the caller exactly once: (a) each of the four recorders appends its entry -
    level tag, code, message, value, line - to the pending list on every path, whatever was recorded before (an entry
    dropped because it looks like the previous one hides a real second discrepancy); (b) pop_errors hands the pending
    list over: it returns the errors recorded so far and leaves the reader with a new, empty list that is not the object
    it returned - a caller that keeps the list it got must not see later errors arrive in it, nor the reader report them
    again.  (a) by constant propagation over both outcomes of every test, (b) by following object identities."""
    from ..absint import explore, helper_oracles
    hf = helper_oracles(ctx, 'x12file', all_methods_of='X12Base')
    for tag, nm, extra in (('isa', '_isa_error', ()), ('gs', '_gs_error', ()), ('st', '_st_error', ()), ('seg', '_seg_error', ('VAL', 7))):
        fn = ctx.func('x12file', 'X12Base.' + nm)
        g = ctx.cfg(fn)
        prior = ((tag, 'C', 'S') + (extra if extra else (None, None)),)
        fin = []

        def on_node(nd, e, g=g):
            if nd is g.exit:
                fin.append(e.get('self.err_list'))
        env = {'self.err_list': prior, 'err_cde': 'C', 'err_str': 'S'}
        if extra:
            env['err_value'], env['src_line'] = extra
        explore(g, env, funcs=hf, on_node=on_node)
        want = prior + ((tag, 'C', 'S') + (extra if extra else (None, None)),)
        bad = [f for f in fin if f != want]
        if not fin:
            raise AnalysisError('X12Base.%s: no outcome' % nm)
        yield Ob('x12file:X12Base.%s appends its entry to the pending errors on every path' % nm, not bad, ctx.floc(fn),
                 '' if not bad else 'after the same %s error was recorded before, the pending list can be %s, expected %s: a discrepancy is not reported%s'
                 % (tag, 'left as it was' if bad[0] == prior else (list(bad[0]) if isinstance(bad[0], tuple) else 'undetermined'), list(want),
                    '' if bad[0] is not None else ' (the list is handed to code the analysis cannot follow)'))
    fn = ctx.func('x12file', 'X12Base.pop_errors')
    msg = ''
    for nonempty in (False, True):
        for ret, cur, objs in _ownership_runs(fn, 'self.err_list', nonempty):
            what = 'with %s pending' % ('errors' if nonempty else 'nothing')
            if ret is None:
                msg = msg or '%s: nothing is returned' % what
            elif objs[ret] not in ('orig', 'copy'):
                msg = msg or '%s: the list returned does not hold the errors recorded so far' % what
            elif cur == ret:
                msg = msg or ('%s: the list returned is still the reader\'s own pending list - errors recorded later arrive in the list '
                              'the caller already holds, and are handed out again by the next pop_errors' % what)
            elif objs[cur] != 'empty':
                msg = msg or '%s: the reader keeps the errors it handed out: they are reported again' % what
    yield Ob('x12file:X12Base.pop_errors hands the pending list over and starts a new one', not msg, ctx.floc(fn), msg)


def r12_context_node_keeps_each_level(ctx):
    """through the context reader an envelope error is found on the yielded node under its own level: handle_errh_errors
    decided by constant propagation - the node's isa / gs / st / seg / ele lists each grow by exactly the collector's
    list of the same level (a group error filed under another level is an envelope error lost and another invented)."""
    from ..absint import explore, helper_oracles
    fn = ctx.func('x12context', 'X12SegmentDataNode.handle_errh_errors')
    g = ctx.cfg(fn)
    LV = ('isa', 'gs', 'st', 'seg', 'ele')
    errh = A.Model('errh', **{'err_' + l: (('%s-error' % l, 1), ('%s-error' % l, 2)) for l in LV})
    env = {'self.err_' + l: (('old-%s' % l, 0),) for l in LV}
    env['errh'] = errh
    fin = []

    def on_node(nd, e):
        if nd is g.exit:
            fin.append(dict(e))

    def unk(nd, e):
        raise AnalysisError('handle_errh_errors: a test cannot be decided: %s' % norm(nd.ast))
    explore(g, env, funcs=helper_oracles(ctx, 'x12context'), on_node=on_node, on_unknown=unk)
    if not fin:
        raise AnalysisError('handle_errh_errors: no outcome')
    msg = ''
    for e in fin:
        for l in LV:
            want = (('old-%s' % l, 0), ('%s-error' % l, 1), ('%s-error' % l, 2))
            got = e.get('self.err_' + l)
            if got != want and not msg:
                msg = 'the node\'s %s errors become %s, expected its own plus the collector\'s %s errors %s' % (l, list(got) if isinstance(got, tuple) else got, l, list(want))
    yield Ob('x12context:X12SegmentDataNode.handle_errh_errors files every collected error under its own level', not msg, ctx.floc(fn), msg)


RULES = [
    Rule('C04.R1', 'header/trailer compare-reset wiring derived from the branch labels of _parse_segment', r1_wiring, floor=37),
    Rule('C04.R2', 'top-of-stack reads/deletes/pops of emptiable lists hold NonEmpty (typestate on the CFG)', r2_stack_safety, floor=13),
    Rule('C04.R3', '_int is total over str|None; no bare int() on run-time values in x12file', r3_int_total, floor=1),
    Rule('C04.R7', 'header bookkeeping decided by constant propagation: push, control-number reuse, counters of the level below', r7_header_semantics, floor=1),
    Rule('C04.R8', 'the reader option check_837_lx is switched with every map load, both ways (constant propagation)', r8_lx_option_follows_map, floor=4),
    Rule('C04.R9', 'missing-trailer sweep at end of input decided by constant propagation over the stacks of open envelopes', r9_missing_trailer_sweep, floor=1),
    Rule('C04.R10', 'context reader: popped reader errors always reach the yielded node (must-pass-through)', r10_popped_errors_reach_a_node, floor=1),
    Rule('C04.R6', 'trailer checks decided by constant propagation: stack shape x control number x declared count', r6_trailer_semantics, floor=2),
    Rule('C04.R5', 'shared with C01.R3/R5: no segment is damaged or lost at a buffer boundary', r5_shared_tokenizer, floor=6),
    Rule('C04.R11', 'recorders append on every path; pop_errors returns the pending errors and leaves a new, distinct, empty list', r11_error_transport, floor=5),
    Rule('C04.R12', 'context reader: collected errors are filed on the node under their own level (constant propagation)', r12_context_node_keeps_each_level, floor=1),
    Rule('C04.R4', 'pending reader errors are only removed by pop_errors, never per segment', r4_pending_errors_kept, floor=2),
]
