"""C02 Every map-conformant document is accepted with zero errors (preconditions only)."""
import ast

from ..core import require_idiom, Ob, Rule, AnalysisError, norm, KeyMaker
from ..cfg import path_of
from .. import astutil as A
from . import datarules as D

META = {
    'explanation': (
        'The property as a whole (language inclusion between a document generator and the walker) is out of reach of '
        'static analysis; decided are four preconditions without which NO conformant document of some selectable type '
        'can be accepted. R1 selectability: for every maps.xml entry the interchange version is in the reader\'s '
        'whitelist, the map file\'s own ISA12/GS01/GS08/ST01 (and BHT02 for tspc entries) code lists contain the index '
        'keys, and the vriic of tspc entries is in the literal tuple the code tests before the second lookup. R2 every '
        'literal map path passed to getnodebypath in non-test code resolves (lookup rule modelled on the XML) in every '
        'map it can be applied to. R3 every data_type of dataele.xml, every inline code of a 1250 element and every '
        'DTP02 code that names a format is a type name IsValidDataType dispatches on. R4 the constant child indices '
        'used by the segment matchers (extracted from their AST with their segment-id guards) exist in every segment '
        'node of every indexed map to which the guard applies. R5 walker wiring: the repeat-limit tests report iff count > limit '
        '(finite evaluation), counts below a loop are reset before the loop is counted, a skipped node is pending-missing iff required '
        'and unseen, the search covers positions >= the current one, limits are parsed as the map declares them, counts restart at ISA/GS.'),
    'not_decided': 'acceptance of any particular document; position ordering, repeat limits and counter resets in the walker',
    'trusted_base': ['sa/xmlmodel.py', 'dispatch-label extraction from IsValidDataType'],
    'technique': 'static analysis: code<->data agreement over the shipped XML maps (index, code lists, literal paths, constant indices)',
}


META['explanation'] += ' Rounds 4-5: ' + "R5: is_child_path decided by constant propagation on path pairs (helpers followed). R9 (= C16.R13) the loader's qualifier-suffix loop and guess_unique_key_id_element are interpreted over every loop of every shipped map: same-position segments get distinct counter paths. R10 _is_loop_match decided recursively on wrapper loops: matches iff any child loop matches."
META['explanation'] += ' After round 6: R12 repeat limits of segments and loops decided by constant propagation (error exactly beyond the limit).'
META['technique'] = META.get('technique', 'static analysis: AST/CFG rules over /repo source + shipped XML data') + '; conditional constant propagation over the CFG on finite, complete input domains (DESIGN.md 10.4.1)'


def _whitelist(ctx):
    """the interchange versions RawX12File.__init__ lets through: the literal collection self.icvn is tested against, or
    the members / keys of the module-level constant it is tested against"""
    fn = ctx.func('rawx12file', 'RawX12File.__init__')
    modc = A.module_constants(ctx.mod('rawx12file').tree)
    # (the version tested is the one kept in self.icvn: the attribute itself or the expression / local stored into it)
    same = {'self.icvn'} | {norm(st.value) for st in ast.walk(fn) if isinstance(st, ast.Assign) and any(path_of(t) == 'self.icvn' for t in st.targets)}
    for n in ast.walk(fn):
        if isinstance(n, ast.Compare) and isinstance(n.ops[0], (ast.NotIn, ast.In)) and norm(n.left) in same:
            c = n.comparators[0]
            if isinstance(c, (ast.Tuple, ast.List, ast.Set)):
                return {A.const(x) for x in c.elts}
            if isinstance(c, ast.Name) and isinstance(modc.get(c.id), (tuple, frozenset, dict)):
                return set(modc[c.id])
    raise AnalysisError('RawX12File.__init__: version whitelist not found')


def _codes_at(ms, m, path, idx):
    n = ms.getnodebypath(m, path)
    if n is None or len(n.children) <= idx:
        return None
    return n.children[idx].codes


def r1_selectable(ctx):
    from .c16 import _bht_vriics
    ms = ctx.maps
    wl = _whitelist(ctx)
    bht = _bht_vriics(ctx)
    for e in ms.index:
        if not e['vriic'] and not e['fic']:
            continue    # control-map pseudo entries cannot be selected through GS01/GS08
        key = 'maps.xml icvn=%s vriic=%s fic=%s tspc=%s -> %s' % (e['icvn'], e['vriic'], e['fic'], e['tspc'], e['file'])
        W = 'pyx12/map/maps.xml'
        ok = e['icvn'] in wl
        yield Ob(key + ' version readable', ok, W,
                 '' if ok else 'icvn %s is not in the reader\'s whitelist %s: an interchange of that version is refused before any map is selected'
                 % (e['icvn'], sorted(wl)))
        m = ms.map(e['file'])
        if m is None:
            yield Ob(key + ' file', False, W, 'map file missing')
            continue
        checks = [('ISA12', '/ISA_LOOP/ISA', 11, e['icvn']), ('GS01', '/ISA_LOOP/GS_LOOP/GS', 0, e['fic']),
                  ('GS08', '/ISA_LOOP/GS_LOOP/GS', 7, e['vriic'])]
        st = ms.getnodebypath(m, '/ISA_LOOP/GS_LOOP/ST_LOOP/ST')
        yield Ob(key + ' has an ST node', st is not None, D.where(m), '' if st is not None else 'no /ISA_LOOP/GS_LOOP/ST_LOOP/ST')
        if e['tspc']:
            checks.append(('BHT02', '/ISA_LOOP/GS_LOOP/ST_LOOP/HEADER/BHT', 1, e['tspc']))
        for name, path, idx, val in checks:
            codes = _codes_at(ms, m, path, idx)
            if codes is None:
                yield Ob(key + ' ' + name, False, D.where(m), '%s not found in the map (path %s)' % (name, path))
                continue
            ok = (not codes) or val in codes
            yield Ob(key + ' ' + name, ok, D.where(m),
                     '' if ok else 'the index selects this map for %s=%s but the map\'s own %s code list is %s: every such document gets a code error'
                     % (name, val, name, codes[:6]))
        if e['tspc']:
            for site, vals in bht.items():
                ok = e['vriic'] in vals
                yield Ob(key + ' second lookup armed in %s' % site, ok, W,
                         '' if ok else 'vriic %s is not in the tuple %s tested before the BHT02 lookup' % (e['vriic'], sorted(vals)))


PATH_CALLS = ('getnodebypath', 'getnodebypath2')


def _nearest_const(call, name):
    """the string constant most recently assigned to `name` before the statement containing `call`
    (same block first, then enclosing blocks)"""
    node = call
    while node is not None:
        par = A.parent(node)
        if par is None:
            break
        for field in ('body', 'orelse', 'finalbody'):
            lst = getattr(par, field, None)
            if isinstance(lst, list) and node in lst:
                for st in reversed(lst[:lst.index(node)]):
                    if isinstance(st, ast.Assign) and len(st.targets) == 1 and path_of(st.targets[0]) == name:
                        return [st.value.value] if A.is_str(st.value) else []
        node = par
    return []


def r2_literal_paths(ctx):
    ms = ctx.maps
    km = KeyMaker()
    files_all = ms.indexed_files()
    ctrl = ms.control_files()
    bht_files = [e['file'] for e in ms.index if e['tspc']]
    for name in ctx.module_names():
        m = ctx.mod(name)
        consts = {}
        for n in ast.walk(m.tree):
            if isinstance(n, ast.Assign) and len(n.targets) == 1 and isinstance(n.targets[0], ast.Name) and A.is_str(n.value):
                consts.setdefault(n.targets[0].id, set()).add(n.value.value)
        for c in A.calls_in(m.tree):
            r, meth = A.call_target(c)
            if meth not in PATH_CALLS or not c.args:
                continue
            a = c.args[0]
            if name.startswith(('examples.', 'scripts.')) or name in ('x12metadata',):
                continue   # not on the validation / context-reader path
            vals = [a.value] if A.is_str(a) else _nearest_const(c, a.id) if isinstance(a, ast.Name) else []
            for v in vals:
                if not v.startswith('/'):
                    continue
                recv = r or ''
                if 'control_map' in recv:
                    files = ctrl
                elif v.endswith('/BHT') and name in ('x12n_document', 'x12context'):
                    files = bht_files
                elif recv in ('cur_map', 'self.cur_map') or recv == 'self' and name == 'map_if':
                    files = files_all + ctrl
                else:
                    files = files_all
                for f in files:
                    mp = ms.map(f)
                    if mp is None:
                        continue
                    ok = ms.getnodebypath(mp, v) is not None
                    yield Ob(km('%s %s(%r) in %s' % (name, meth, v, f)), ok, ctx.loc(m, c),
                             '' if ok else 'literal path %s does not resolve in %s: EngineError for every document of that type' % (v, f))


def dispatch_labels(ctx):
    fn = ctx.func('validation', 'IsValidDataType')
    trys = [s for s in fn.body if isinstance(s, ast.Try)]
    body = trys[0].body if trys else fn.body
    labels = set()
    prefix = set()
    for lab, b, extra, node in A.branch_chain_all(ast.Module(body=body, type_ignores=[]), lambda e: norm(e) in ('data_type', 'data_type[0]')):
        if lab in (None, '?'):
            continue
        # label compared with data_type[0] is a prefix label
        t = node.test
        if isinstance(t, ast.Compare) and norm(t.left) == 'data_type[0]':
            prefix.add(lab)
        else:
            # 'B' passes without check; still dispatched
            labels.add(lab)
    if not labels:
        raise AnalysisError('IsValidDataType: no dispatch labels found')
    return labels, prefix


def r3_dispatch_covers_data(ctx):
    ms = ctx.maps
    labels, prefix = dispatch_labels(ctx)

    def handled(t):
        return t in labels or (t and t[0] in prefix)
    types = {}
    for num, d in ms.dataele.items():
        types.setdefault(d['data_type'], []).append(num)
    for t, nums in sorted(types.items(), key=lambda x: str(x[0])):
        ok = handled(t)
        yield Ob('dataele.xml data_type=%s' % t, ok, 'pyx12/map/dataele.xml',
                 '' if ok else 'type %r (elements %s) is not dispatched by IsValidDataType: every value is rejected' % (t, nums[:5]))
    seen = set()
    for n in D.all_nodes(ctx):
        if n.kind == 'element' and n.data_ele == '1250':
            for c in n.codes:
                if c not in seen:
                    seen.add(c)
                    ok = handled(c)
                    yield Ob('date/time format qualifier %s (data element 1250)' % c, ok, D.where(n),
                             '' if ok else 'format %r listed by %s is not a type IsValidDataType dispatches on: the dependent 1251 value is always rejected' % (c, D.nodekey(n)))
    # the DTP02 literal tuple in segment_if.is_valid must be within the dispatch set
    fn = ctx.func('map_if', 'segment_if.is_valid')
    for n in ast.walk(fn):
        if isinstance(n, ast.Compare) and isinstance(n.ops[0], ast.In) and "get_value('02')" in norm(n.left) \
                and isinstance(n.comparators[0], (ast.Tuple, ast.List)):
            for x in n.comparators[0].elts:
                v = A.const(x)
                ok = handled(v)
                yield Ob('map_if:segment_if.is_valid DTP02 format %s is dispatched' % v, ok, ctx.floc(fn, n), '' if ok else 'not a dispatch label')


MATCHERS = ('is_match', 'is_match_qual', 'guess_unique_key_id_element', 'get_unique_key_id_element')


def _index_uses(ctx):
    """[(function, guard seg id or None, needs_composite, index chain)] extracted from the matcher ASTs:
    every `self.children[k]` / `self.children[k].children[j]` with the segment-id guard of its if-arm."""
    out = []
    for q in MATCHERS:
        fn = ctx.func('map_if', 'segment_if.' + q)
        for n in ast.walk(fn):
            if isinstance(n, ast.Subscript) and isinstance(n.slice, ast.Constant) and norm(n.value).endswith('children'):
                chain = []
                e = n
                while isinstance(e, ast.Subscript) and isinstance(e.slice, ast.Constant):
                    chain.insert(0, e.slice.value)
                    inner = e.value
                    if isinstance(inner, ast.Attribute) and inner.attr == 'children':
                        e = inner.value
                    else:
                        break
                if path_of(e) != 'self':
                    continue
                # maximal chains only
                par = A.parent(n)
                if isinstance(par, ast.Attribute) and par.attr == 'children' and isinstance(A.parent(par), ast.Subscript):
                    continue
                # guard: the enclosing BoolOp(And) operands evaluated before this one
                guard = None
                comp = len(chain) > 1
                p = n
                while p is not None and p is not fn:
                    pp = A.parent(p)
                    if isinstance(pp, ast.BoolOp) and isinstance(pp.op, ast.And):
                        for v in pp.values:
                            if v is p:
                                break
                            t = norm(v, 400)
                            for sid in ('ENT', 'HL', 'CTX'):
                                if "== '%s'" % sid in t:
                                    guard = sid
                    if isinstance(pp, ast.If) and p in pp.body:
                        t = norm(pp.test, 400)
                        for sid in ('ENT', 'HL', 'CTX'):
                            if "== '%s'" % sid in t:
                                guard = guard or sid
                    p = pp
                out.append((q, guard, comp, tuple(chain), n))
    if len(out) < 10:
        raise AnalysisError('matcher index uses not recognised (%d found)' % len(out))
    return out


def r4_matcher_indices(ctx):
    uses = _index_uses(ctx)
    shapes = sorted({(g, c, ch) for q, g, c, ch, n in uses}, key=str)
    nseg = 0
    for nd in D.all_nodes(ctx):
        if nd.kind != 'segment':
            continue
        nseg += 1
        probs = []
        for guard, comp, chain in shapes:
            if guard is not None and guard != nd.id:
                continue
            cur = nd
            okc = True
            for depth, k in enumerate(chain):
                if depth == 1 and cur.kind != 'composite':
                    okc = None      # the composite branch does not apply to this node
                    break
                if len(cur.children) <= k:
                    okc = False
                    break
                cur = cur.children[k]
            if okc is False:
                probs.append('children%s missing%s' % (''.join('[%d]' % k for k in chain), ' (guard %s)' % guard if guard else ''))
        yield Ob('%s matcher indices' % D.nodekey(nd), not probs, D.where(nd),
                 '' if not probs else 'segment_if.is_match would raise IndexError: %s' % '; '.join(sorted(set(probs))))


def _definitely_returns_const(body, val):
    return bool(body) and isinstance(body[-1], ast.Return) and A.const(body[-1].value) is val


def r5_walker_wiring(ctx):
    """counting / ordering atoms of the walker that every conformant document depends on"""
    import itertools
    MAXINT = 2147483647
    # --- repeat limits: reported iff count > limit
    for qual, cnt_path, lim_path, code in (('walk_tree._check_seg_usage', 'self.counter.get_count(seg_node.x12path)', 'seg_node.get_max_repeat()', '5'),
                                           ('walk_tree._check_loop_usage', 'self.counter.get_count(loop_node.x12path)', 'loop_node.get_max_repeat()', '4')):
        fn = ctx.func('map_walker', qual)
        tests = [n for n in ast.walk(fn) if isinstance(n, ast.If) and 'get_max_repeat()' in norm(n.test, 200)]
        if len(tests) != 1:
            raise AnalysisError('%s: repeat-limit test not found' % qual)
        t = tests[0]
        bad = []
        for c, m in itertools.product(range(0, 5), (1, 2, 3, MAXINT)):
            funcs = {'self.counter.get_count': lambda p, c=c: c, 'seg_node.get_max_repeat': lambda m=m: m, 'loop_node.get_max_repeat': lambda m=m: m}
            try:
                got = bool(A.ev(t.test, {'seg_node.x12path': 'p', 'loop_node.x12path': 'p'}, funcs))
            except A.NotClosed as e:
                raise AnalysisError('%s: limit test not closed: %s' % (qual, e))
            if got != (c > m):
                bad.append('count=%d limit=%s: %s' % (c, m, 'reported' if got else 'accepted'))
        codes = [A.const(c.args[0]) for c in A.calls_in(ast.Module(body=t.body, type_ignores=[])) if A.call_target(c) == ('errh', 'seg_error')]
        ok = not bad and codes == [code]
        yield Ob('map_walker:%s over-limit reported iff count > limit (code %s)' % (qual, code), ok, ctx.floc(fn, t),
                 '' if ok else (bad[0] if bad else 'codes %s' % codes))
    # --- loop repeat: children counts are reset before the loop's own count is incremented
    fn = ctx.func('map_walker', 'walk_tree._check_loop_usage')
    seq = [(A.call_target(c)[1], norm(c.args[0])) for c in A.calls_in(fn) if A.call_target(c)[0] == 'self.counter' and A.call_target(c)[1] in ('reset_to_node', 'increment')]
    ok = seq == [('reset_to_node', 'loop_node.x12path'), ('increment', 'loop_node.x12path')]
    yield Ob('map_walker:walk_tree._check_loop_usage resets the counts below the loop, then counts the loop', ok, ctx.floc(fn),
             '' if ok else 'counter calls %s: counts of a previous instance would leak into the next one' % seq)
    fn = ctx.func('map_walker', 'walk_tree._goto_seg_match')
    order = []
    for n in ast.walk(fn):
        if isinstance(n, ast.Call):
            r, m = A.call_target(n)
            if (r, m) in (('self', '_check_loop_usage'), ('self.counter', 'increment'), ('self', '_flush_mandatory_segs')):
                order.append((n.lineno, m, norm(n.args[0]) if n.args else ''))
    order = [(m, a) for _, m, a in sorted(order)]
    # the segment counted is the loop's first segment, whatever the local holding it is called
    first_names = {path_of(st.targets[0]) for st in ast.walk(fn) if isinstance(st, ast.Assign) and isinstance(st.value, ast.Call)
                   and A.call_target(st.value) == ('loop_node', 'get_first_seg')}
    order = [(m, 'loop_node.get_first_seg().x12path' if m == 'increment' and a.endswith('.x12path') and a[:-8] in first_names else a) for m, a in order]
    ok = order == [('_check_loop_usage', 'loop_node'), ('increment', 'loop_node.get_first_seg().x12path'), ('_flush_mandatory_segs', 'errh')]
    yield Ob('map_walker:walk_tree._goto_seg_match counts the loop, then its first segment, then flushes pending errors', ok, ctx.floc(fn), '' if ok else 'order %s' % order)
    # --- walk: matched plain segment is counted before its usage check; search covers positions >= current
    fn = ctx.func('map_walker', 'walk_tree.walk')
    # (with the helpers a refactoring split off from it, where the normal form could not inline them)
    fn_reg = ast.Module(body=ctx.region('map_walker', 'walk_tree.walk'), type_ignores=[])
    comps = [n for n in ast.walk(fn_reg) if isinstance(n, (ast.ListComp, ast.GeneratorExp)) and 'node.pos_map' in norm(n.generators[0].iter, 200)]
    ok = False
    if len(comps) == 1 and comps[0].generators[0].ifs:
        cond = comps[0].generators[0].ifs[0]
        var = path_of(comps[0].generators[0].target)
        try:
            ok = [bool(A.ev(cond, {var: a, 'node_pos': 20})) for a in (10, 20, 30)] == [False, True, True]
        except A.NotClosed:
            ok = False
    yield Ob('map_walker:walk_tree.walk searches positions >= the current one (same position included)', ok, ctx.floc(fn),
             '' if ok else 'position filter changed: repeats of the current segment or later siblings would not be found')
    txt = ast.unparse(fn_reg)
    i1, i2, i3 = txt.find('self.counter.increment(child.x12path)'), txt.find('self._check_seg_usage(child'), txt.find('self._flush_mandatory_segs(errh, child.pos)')
    ok = 0 <= i1 < i2 < i3
    yield Ob('map_walker:walk_tree.walk counts a matched segment, checks its usage, then flushes pending errors', ok, ctx.floc(fn), '' if ok else 'statement order changed')
    # mandatory-missing condition
    conds = [n for n in ast.walk(fn_reg) if isinstance(n, ast.If) and "child.usage == 'R'" in norm(n.test, 200) and 'get_count' in norm(n.test, 200)]
    ok = len(conds) == 1
    if ok:
        bad = []
        for u, c in itertools.product(('R', 'S', 'N'), (0, 1, 2)):
            got = bool(A.ev(conds[0].test, {'child.usage': u, 'child.x12path': 'p'}, {'self.counter.get_count': lambda p, c=c: c}))
            if got != (u == 'R' and c < 1):
                bad.append((u, c, got))
        ok = not bad
    yield Ob('map_walker:walk_tree.walk a skipped segment is pending-missing iff required and not yet seen', ok, ctx.floc(fn), '' if ok else 'condition changed')
    fn = ctx.func('map_walker', 'walk_tree._is_loop_match')
    conds = [n for n in ast.walk(fn) if isinstance(n, ast.If) and "loop_node.usage == 'R'" in norm(n.test, 200)]
    ok = len(conds) == 1
    if ok:
        bad = []
        for u, c in itertools.product(('R', 'S', 'N'), (0, 1, 2)):
            got = bool(A.ev(conds[0].test, {'loop_node.usage': u, 'loop_node.x12path': 'p'}, {'self.counter.get_count': lambda p, c=c: c}))
            if got != (u == 'R' and c < 1):
                bad.append((u, c, got))
        ok = not bad
    yield Ob('map_walker:walk_tree._is_loop_match a skipped loop is pending-missing iff required and not yet seen', ok, ctx.floc(fn), '' if ok else 'condition changed')
    # flush: pending errors at the position just matched are kept, the others reported - decided by constant propagation
    # on a list of pending entries at three positions, for every current position (and for "no position": report all)
    fn = ctx.func('map_walker', 'walk_tree._flush_mandatory_segs')
    from ..absint import traces as _tr, NotClosedTest as _NCT2
    gfl = ctx.cfg(fn)
    pend = tuple((A.Model('node@%d' % p_, pos=p_, id='S%d' % p_), 'seg%d' % i_, str(i_), 'missing %d' % i_, i_, i_, None) for i_, p_ in enumerate((10, 20, 20, 30)))
    badf = []
    for cur in (10, 20, 30, 40, None):
        def key(c):
            r_, m_ = A.call_target(c)
            return m_ if r_ == 'errh' and m_ in ('add_seg', 'seg_error') else None
        try:
            res = _tr(gfl, {'self.mandatory_segs_missing': pend, 'cur_pos': cur}, key)
        except _NCT2 as e_:
            raise AnalysisError('walk_tree._flush_mandatory_segs cannot be decided: %s' % e_)
        want_rep = [x for x in pend if x[0].pos != cur]
        want_left = tuple(x for x in pend if x[0].pos == cur)
        for tr, e_ in res:
            reps = [a_[1][0] for a_ in tr if a_[0] == 'seg_error']
            regs = [a_[1][0] for a_ in tr if a_[0] == 'add_seg']
            left = dict(e_).get('self.mandatory_segs_missing')
            if reps != [x[2] for x in want_rep] or regs != [x[0] for x in want_rep] or (left is not None and tuple(left) != want_left) or left is None:
                badf.append('pending at positions [10, 20, 20, 30], current position %s: reports %s, keeps %s; expected reports for %s, kept %s' % (
                    cur, reps, [x[0].pos for x in (left or ())], [x[0].pos for x in want_rep], [x[0].pos for x in want_left]))
    ok = not badf
    yield Ob('map_walker:walk_tree._flush_mandatory_segs reports pending errors of other positions only', ok, ctx.floc(fn), '' if ok else badf[0])
    # --- limits as the map declares them
    for cls, attr in (('segment_if', 'max_use'), ('loop_if', 'repeat')):
        fn = ctx.func('map_if', cls + '.get_max_repeat')
        ok = 'MAXINT' in ast.unparse(fn) and ('int(self.%s)' % attr) in ast.unparse(fn) and "'>1'" in ast.unparse(fn)
        require_idiom(ok, 'c02.py:369')
        yield Ob('map_if:%s.get_max_repeat: absent or ">1" is unlimited, otherwise the declared integer' % cls, ok, ctx.floc(fn), '' if ok else 'limit parsing changed')
    # --- the counter itself, decided by constant propagation: a table from path to count driven through a history of
    # increments, reads and resets - an unseen path reads 0, each increment adds one to that path alone, a reset to a
    # node drops exactly the counts strictly below it (the node's own count and everything beside or above it stay)
    from ..absint import explore as _explore, run_function as _run, helper_oracles as _ho, NotClosedTest as _NCT

    class _PK(object):
        _sa_model = True

        def __init__(self, text):
            self.text = text

        def format(self):
            return self.text

        def is_child_path(self, child):
            r, c = self.text.split('/'), child.split('/')
            return len(c) > len(r) and c[:len(r)] == r

        def __hash__(self):
            return hash(self.text)

        def __eq__(self, o):
            return isinstance(o, _PK) and o.text == self.text

        def __repr__(self):
            return self.text
    mk = lambda x: x if isinstance(x, _PK) else _PK(x)
    nfuncs = _ho(ctx, 'nodeCounter', {'NodeCounter.makeX12Path': mk, 'self.makeX12Path': mk, 'makeX12Path': mk, 'pyx12.path.X12Path': mk, 'path.X12Path': mk})

    def step(meth, table, arg):
        fn_ = ctx.func('nodeCounter', 'NodeCounter.' + meth)
        g__ = ctx.cfg(fn_)
        fin = []

        def on_node(nd, e):
            if nd is g__.exit:
                fin.append(e.get('self._dict'))

        def unk(nd, e):
            raise AnalysisError('nodeCounter:NodeCounter.%s cannot be decided: %s' % (meth, norm(nd.ast)))
        _explore(g__, {'self._dict': A.FrozenDict(table), 'xpath': arg}, funcs=nfuncs, on_node=on_node, on_unknown=unk)
        fin = [f for i, f in enumerate(fin) if f not in fin[:i]]
        if len(fin) != 1 or not isinstance(fin[0], dict):
            raise AnalysisError('nodeCounter:NodeCounter.%s: the table after the call is not determined (%d outcomes)' % (meth, len(fin)))
        return dict(fin[0])

    def read(table, arg):
        fn_ = ctx.func('nodeCounter', 'NodeCounter.get_count')
        try:
            return _run(ctx.cfg(fn_), fn_, [None, arg], nfuncs, env={'self._dict': A.FrozenDict(table)})
        except (_NCT, A.NotClosed) as e:
            raise AnalysisError('nodeCounter:NodeCounter.get_count cannot be decided: %s' % e)
    bad = {'get_count': [], 'increment': [], 'reset_to_node': []}
    table, model = {}, {}
    history = [('increment', '/A'), ('increment', '/A'), ('increment', '/A/B'), ('increment', '/A/B/C'), ('increment', '/A/B/C/D'), ('increment', '/A/BB'),
               ('increment', '/A/B/C'), ('reset_to_node', '/A/B'), ('increment', '/A/B/C'), ('reset_to_node', '/A'), ('increment', '/X'),
               ('reset_to_node', '/A/B/C')]
    for meth, arg in history:
        table = step(meth, table, arg)
        if meth == 'increment':
            model[arg] = model.get(arg, 0) + 1
        else:
            model = {k: v for k, v in model.items() if not _PK(arg).is_child_path(k)}
        got = {k.text if isinstance(k, _PK) else k: v for k, v in table.items()}
        if got != model and not bad[meth]:
            bad[meth].append('after %s(%s) the counts are %s, expected %s' % (meth, arg, sorted(got.items()), sorted(model.items())))
            table = {_PK(k): v for k, v in model.items()}
        for probe in ('/A', '/A/B', '/A/B/C', '/NEVER'):
            r = read(table, probe)
            if r != model.get(probe, 0) and not bad['get_count']:
                bad['get_count'].append('get_count(%s) is %r with the counts %s' % (probe, r, sorted(model.items())))
    fn = ctx.func('nodeCounter', 'NodeCounter.get_count')
    yield Ob('nodeCounter:NodeCounter.get_count is 0 for an unseen path', not bad['get_count'], ctx.floc(fn), '' if not bad['get_count'] else bad['get_count'][0])
    fn = ctx.func('nodeCounter', 'NodeCounter.increment')
    yield Ob('nodeCounter:NodeCounter.increment counts from 1 in steps of 1', not bad['increment'], ctx.floc(fn), '' if not bad['increment'] else bad['increment'][0])
    fn = ctx.func('nodeCounter', 'NodeCounter.reset_to_node')
    yield Ob('nodeCounter:NodeCounter.reset_to_node drops exactly the counts below the node', not bad['reset_to_node'], ctx.floc(fn),
             '' if not bad['reset_to_node'] else bad['reset_to_node'][0])
    fn = ctx.func('path', 'X12Path.is_child_path')
    # decided by constant propagation through is_child_path (and any helper it was split into) on concrete path pairs:
    # a strict descendant is a child; the path itself, an ancestor, a sibling with a common text prefix and a foreign path are not
    from ..absint import run_function, helper_oracles, NotClosedTest
    funcs = helper_oracles(ctx, 'path', all_methods_of='X12Path')
    funcs.pop('self.is_child_path', None)
    g_ = ctx.cfg(fn)
    bad = []
    from . import c17
    for root, child, want in (('/A/B', '/A/B', False), ('/A/B', '/A/B/C', True), ('/A/B', '/A/B/C/D', True), ('/A/B', '/A', False),
                              ('/A/B', '/A/BB', False), ('/A/B', '/A/BB/C', False), ('/A/B', '/X/B/C', False), ('/A', '/A/B', True), ('/A/B/C', '/A/B', False),
                              # (a loop id may spell like a segment id: the 997 has loops AK2 and AK3)
                              ('/ST_LOOP/HEADER/AK2', '/ST_LOOP/HEADER/AK2/AK5', True), ('/ST_LOOP/HEADER/AK2', '/ST_LOOP/HEADER/AK2/AK3/AK4', True),
                              ('/ST_LOOP/HEADER/AK2', '/ST_LOOP/HEADER/AK9', False)):
        try:
            env_ = dict(c17.parse_path_fields(ctx, root) or {})
            env_['self.format()'] = root
            fx = dict(funcs)
            fx['self.format'] = lambda root=root: root
            fx['self.__repr__'] = lambda root=root: root
            got = run_function(g_, fn, [None, child], fx, env=env_)
        except (NotClosedTest, A.NotClosed) as e:
            raise AnalysisError('path:X12Path.is_child_path cannot be decided for %s / %s: %s' % (root, child, e))
        if bool(got) != want:
            bad.append('is_child_path of %s for %s is %s' % (root, child, got))
    ok = not bad
    yield Ob('path:X12Path.is_child_path a path is not its own child', ok, ctx.floc(fn),
             '' if ok else bad[0] + ': reset_to_node would delete the wrong counts')
    fn = ctx.func('x12n_document', 'x12n_document')
    calls = [(norm(c.args[0]), norm(c.args[1])) for c in A.calls_in(fn) if A.call_target(c) == ('walker', 'forceWalkCounterToLoopStart')]
    ok = sorted(calls) == sorted([("'/ISA_LOOP'", "'/ISA_LOOP/ISA'"), ("'/ISA_LOOP/GS_LOOP'", "'/ISA_LOOP/GS_LOOP/GS'")])
    yield Ob('x12n_document:x12n_document restarts loop counts at ISA and GS', ok, ctx.floc(fn), '' if ok else 'calls %s' % calls)
    fn = ctx.func('map_walker', 'walk_tree.forceWalkCounterToLoopStart')
    seq = [(A.call_target(c)[1], norm(c.args[0])) for c in A.calls_in(fn)]
    ok = seq == [('reset_to_node', 'x12_path'), ('increment', 'x12_path'), ('increment', 'child_path')]
    yield Ob('map_walker:walk_tree.forceWalkCounterToLoopStart resets below the loop and counts loop and first segment', ok, ctx.floc(fn), '' if ok else 'calls %s' % seq)


def r6_shared_recognisers(ctx):
    """a conformant value must be accepted by its recogniser: C13.R1 (languages), R3 (field atoms), R4 (lengths) (shared)"""
    from . import c13
    for fn in (c13.r1_languages, c13.r3_atoms, c13.r4_lengths):
        for o in fn(ctx):
            yield o

class _LoopM(object):
    """a loop of the map as _is_loop_match sees it: its children in order, the first of them, usage, path"""
    _sa_model = True

    def __init__(self, name, children=(), first_matches=None):
        self.id = self.name = name
        self.kids = tuple(children)
        self.usage = 'S'
        self.x12path = name
        self.first = A.Model(name + '.first', id=name + '1', matches=bool(first_matches), is_loop=lambda: False) if first_matches is not None else None

    def is_loop(self):
        return True

    def __len__(self):
        return len(self.kids) + (1 if self.first is not None else 0)

    def get_first_node(self):
        return self.first if self.first is not None else (self.kids[0] if self.kids else None)

    def childIterator(self):
        return ((self.first,) if self.first is not None else ()) + self.kids

    def __repr__(self):
        return self.name


def r12_repeat_limits(ctx):
    """a segment or loop is reported as repeated too often exactly when its count exceeds the declared limit - a count equal
    to the limit is conformant: _check_seg_usage / _check_loop_usage decided by constant propagation for usage R/S, counts
    limit-1, limit, limit+1 (limits 1, 2, 50 and "unlimited")."""
    from ..absint import traces, NotClosedTest
    for meth, code, pname in (('_check_seg_usage', '5', 'seg_node'), ('_check_loop_usage', '4', 'loop_node')):
        fn = ctx.func('map_walker', 'walk_tree.' + meth)
        g = ctx.cfg(fn)
        bad = []
        runs = 0
        for usage in ('R', 'S'):
            for limit in (1, 2, 50, 2147483647):
                for cnt in (max(limit - 1, 0), limit, limit + 1) if limit < 2147483647 else (1, 5000):
                    node = A.Model('node', usage=usage, id='X', x12path='p', name='n', get_max_repeat=lambda limit=limit: limit, is_loop=lambda: True)
                    counter = A.Model('counter', get_count=lambda p_, cnt=cnt: cnt, reset_to_node=lambda p_: None, increment=lambda p_: None)
                    seg = A.Model('seg', get_seg_id=lambda: 'X')
                    env = {pname: node, 'self.counter': counter, 'seg_data': seg, 'seg_count': 1, 'cur_line': 1, 'ls_id': None}

                    def key(c):
                        r, m = A.call_target(c)
                        return 'report' if r == 'errh' and m == 'seg_error' else None
                    try:
                        res = traces(g, env, key)
                    except NotClosedTest as e:
                        raise AnalysisError('walk_tree.%s cannot be decided: %s' % (meth, e))
                    runs += 1
                    want = {code} if cnt > limit else set()
                    for tr, _e in res:
                        got = {a_[1][0] for a_ in tr}
                        if got != want and len(bad) < 3:
                            bad.append('usage %s, limit %d, occurrence %d: reports %s, expected %s' % (usage, limit, cnt, sorted(got), sorted(want)))
        yield Ob('map_walker:walk_tree.%s reports a repeat exactly beyond the declared limit (code %s)' % (meth, code), not bad, ctx.floc(fn),
                 '' if not bad else bad[0], note='%d combinations' % runs)


def r10_wrapper_loops(ctx):
    """a loop that only wraps other loops (DETAIL, TABLE2AREA3 ...) matches a segment when ANY of its child loops does -
    a document may start with the second kind of detail loop.  walk_tree._is_loop_match decided by constant
    propagation (recursive calls answered the same way) on wrapper loops whose first, second or no child loop starts
    with the segment, also two levels deep."""
    from ..absint import run_function, NotClosedTest
    fn = ctx.func('map_walker', 'walk_tree._is_loop_match')
    g = ctx.cfg(fn)

    def match(loop):
        funcs = {'is_first_seg_match2': lambda first, seg: first.matches,
                 'self._is_loop_match': lambda lp, *a_: match(lp),
                 'self.counter.get_count': lambda p_: 1}
        return run_function(g, fn, [None, loop, 'SEG', None, 1, 1, None], funcs)
    cases = []
    for pattern in ((True, False), (False, True), (False, False), (False, False, True), (True, True)):
        kids = [_LoopM('L%d' % i, first_matches=m_) for i, m_ in enumerate(pattern)]
        cases.append((_LoopM('W', kids), any(pattern), 'child loops starting with the segment: %s' % list(pattern)))
    inner = _LoopM('W2', [_LoopM('X0', first_matches=False), _LoopM('X1', first_matches=True)])
    cases.append((_LoopM('W', [_LoopM('Y0', first_matches=False), inner]), True, 'second child wraps loops, its second child starts with the segment'))
    cases.append((_LoopM('E', []), False, 'empty loop'))
    cases.append((_LoopM('P', first_matches=True), True, 'plain loop whose first segment matches'))
    cases.append((_LoopM('P', first_matches=False), False, 'plain loop whose first segment does not match'))
    bad = []
    for loop, want, what in cases:
        try:
            got = match(loop)
        except (NotClosedTest, A.NotClosed) as e:
            raise AnalysisError('walk_tree._is_loop_match cannot be decided (%s): %s' % (what, e))
        if bool(got) != want:
            bad.append('%s: %s' % (what, 'matches' if got else 'does not match'))
    yield Ob('map_walker:walk_tree._is_loop_match a wrapper loop matches when any child loop does', not bad, ctx.floc(fn),
             '' if not bad else bad[0] + ' - a conformant document that starts with that loop is reported "segment not found"')


def r9_shared_path_suffix(ctx):
    """the walker counts occurrences per node path: two different segments of one loop that share a path share a counter,
    and a conformant document with one of each is reported as exceeding the limit.  C16.R13 (shared): the loader's
    qualifier-suffix code, interpreted over every shipped map, gives same-position segments distinct paths."""
    from . import c16
    for o in c16.r13_suffix_code_over_data(ctx):
        yield o


def stale_segment_values(ctx, modname, qual, loop_iter):
    """In the segment loop of a driver, a value read from a non-envelope segment (BHT02 ...) describes the CURRENT
    transaction set only.  Envelope values (ISA/GS/ST elements) legitimately live across iterations, they are
    re-read at the next header; anything else that is read in a later iteration than it was stored in is stale: every
    use of such a variable must be preceded, in the same iteration, by its assignment."""
    fn = ctx.func(modname, qual)
    g = ctx.cfg(fn)
    from ..cfg import reaching_defs
    IN, DEFS = reaching_defs(g)
    dom = g.dominators()
    loops = [n for n in ast.walk(fn) if isinstance(n, ast.For) and path_of(n.iter) == loop_iter]
    if len(loops) != 1:
        raise AnalysisError('%s: segment loop not found' % qual)
    lp = loops[0]
    inside = set()
    for nd in g.nodes:
        p_ = nd.stmt
        while p_ is not None:
            if p_ is lp:
                inside.add(nd.id)
                break
            p_ = getattr(p_, '_parent', None)
    ENVELOPE = ('ISA', 'GS', 'ST', 'SE', 'GE', 'IEA')
    carried = {}
    for nd in g.nodes:
        if nd.id not in inside:
            continue
        for nm, v in DEFS[nd.id]:
            if v is None or isinstance(v, tuple):
                continue
            for c in A.calls_in(v):
                if A.call_target(c)[1] == 'get_value' and c.args and A.is_str(c.args[0]):
                    rd = c.args[0].value
                    sid = rd[:-2] if rd[-2:].isdigit() else rd
                    if sid and sid not in ENVELOPE and not sid.isdigit():
                        carried.setdefault(nm, []).append((nd, rd))
    n = 0
    for nm, defs in sorted(carried.items()):
        def_ids = {d.id for d, _ in defs}
        for nd in g.nodes:
            if nd.id not in inside:
                continue
            for x in g.walk_exprs(nd):
                if isinstance(x, ast.Name) and x.id == nm and isinstance(x.ctx, ast.Load):
                    n += 1
                    rd = (IN.get(nd.id) or {}).get(nm, frozenset())
                    # every definition reaching the use is one of this iteration: it dominates the use
                    stale = [d for d in rd if d not in dom[nd.id] or d not in inside]
                    ok = not stale
                    yield Ob('%s:%s use of %s (from %s) follows its assignment in the same iteration' % (modname, qual, nm, defs[0][1]), ok,
                             ctx.floc(fn, x), '' if ok else 'the value of %s read here can be the one stored while an EARLIER transaction set was '
                             'processed (it is taken from %s, which is not an envelope element): a decision about this set is made from the previous one'
                             % (nm, defs[0][1]))
    yield Ob('%s:%s values of non-envelope segments are not carried across iterations' % (modname, qual), True, ctx.floc(fn, lp),
             note='%d use(s) of %d such variable(s) examined' % (n, len(carried)), nontrivial=False)


def r7_no_stale_map_key(ctx):
    for o in stale_segment_values(ctx, 'x12n_document', 'x12n_document', 'src'):
        yield o


def r8_shared_tokenizer(ctx):
    """a conformant document is only accepted if its segments reach the validator intact: tokenizer loop exits, buffer
    conservation and the CR/LF strip set are the obligations of C01.R3/R5"""
    from . import c01
    for fn in (c01.r3_tokenizer_exits, c01.r5_strip_set, c01.r11_reader_iteration):
        for o in fn(ctx):
            yield o


def r11_no_state_between_documents(ctx):
    """a conformant document is accepted whatever was validated before in the process: C15.R9 / C18.R2 (shared)"""
    from . import c15
    for o in c15.validator_keeps_no_state(ctx):
        yield o


class _MEle(object):
    _sa_model = True

    def __init__(self, dtype='AN', usage='S', codes=(), kids=None):
        self.dtype, self.usage, self.valid_codes, self.children = dtype, usage, tuple(codes), tuple(kids or ())

    def is_element(self):
        return not self.children

    def is_composite(self):
        return bool(self.children)

    def get_data_type(self):
        return self.dtype


def r14_is_match_semantics(ctx):
    """segment_if.is_match decided by constant propagation on model map nodes of every shape the matcher distinguishes
    (first element a required ID, ENT, CTX, first element a composite, HL, anything else), each with and without an
    inline code list, against segments whose discriminating value is / is not in the list: a segment matches the node of
    its id unless the node HAS a code list at its discriminating position and the value is not in it - a node without
    inline codes (codes kept in an external table) matches every segment of its id."""
    from ..absint import run_function, helper_oracles, NotClosedTest
    fn = ctx.func('map_if', 'segment_if.is_match')
    hf = helper_oracles(ctx, 'map_if')
    bad = []
    n = 0
    shapes = []
    for codes in ((), ('A1', 'B2')):
        shapes.append(('first element a required ID', 'REF', lambda c=codes: (_MEle('ID', 'R', c), _MEle('AN', 'S'), _MEle('AN', 'S')), '01', codes, True))
        shapes.append(('first element a situational ID', 'REF', lambda c=codes: (_MEle('ID', 'S', c), _MEle('AN', 'S'), _MEle('AN', 'S')), '01', codes, False))
        shapes.append(('ENT (second element)', 'ENT', lambda c=codes: (_MEle('N0', 'S'), _MEle('ID', 'R', c), _MEle('AN', 'S')), '02', codes, True))
        shapes.append(('CTX (first component, AN)', 'CTX', lambda c=codes: (_MEle(kids=(_MEle('AN', 'R', c), _MEle('AN', 'S'))), _MEle('AN', 'S'), _MEle('AN', 'S')), '01-1', codes, True))
        shapes.append(('first element a composite (first component ID)', 'HI', lambda c=codes: (_MEle(kids=(_MEle('ID', 'R', c), _MEle('AN', 'S'))), _MEle('AN', 'S'), _MEle('AN', 'S')), '01-1', codes, True))
        shapes.append(('HL (third element)', 'HL', lambda c=codes: (_MEle('AN', 'R'), _MEle('AN', 'S'), _MEle('ID', 'R', c)), '03', codes, True))
    for label, sid, mk, rd, codes, discr in shapes:
        for val in ('A1', 'ZZ', None):
            for seg_id in (sid, 'XYZ'):
                kids = mk()
                seg = A.Model('segment', get_seg_id=lambda seg_id=seg_id: seg_id, get_value=lambda r, rd=rd, val=val: val if r == rd else 'other')
                try:
                    got = run_function(ctx.cfg(fn), fn, [None, seg], hf, env={'self.id': sid, 'self.children': kids})
                except (NotClosedTest, A.NotClosed) as e:
                    raise AnalysisError('segment_if.is_match cannot be decided (%s): %s' % (label, e))
                n += 1
                want = seg_id == sid and not (discr and codes and val not in codes)
                if bool(got) != want and len(bad) < 3:
                    bad.append('node %s, %s, %s: a %s segment with %s=%r %s' % (sid, label, 'codes %s' % list(codes) if codes else 'no inline codes', seg_id, rd, val,
                                                                       'matches' if got else 'does not match'))
    yield Ob('map_if:segment_if.is_match: a segment matches the node of its id unless an inline code list excludes it', not bad, ctx.floc(fn),
             '' if not bad else bad[0], note='%d combinations' % n)


def r13_shared_length_atoms(ctx):
    """a conformant value must not be reported as too short / too long: the length of a numeric value is measured without
    sign and point, whatever the numeric type is called (C15.R3, shared)"""
    from . import c15
    for o in c15.r3_sources_and_atoms(ctx):
        yield o


def r15_shared_envelope_counters(ctx):
    """a conformant document may hold several interchanges, groups and sets: the reader's counters restart at each header
    (groups at ISA, sets at GS, segments at ST) and are compared with the trailer's own count, or the second, correct,
    envelope of a file draws a count error.  C04.R1 (shared)."""
    from . import c04
    for o in c04.r1_wiring(ctx):
        yield o


RULES = [
    Rule('C02.R14', 'segment_if.is_match decided by constant propagation over node shapes x code lists x values', r14_is_match_semantics, floor=1),
    Rule('C02.R13', 'shared with C15.R3: length atoms measure the right string (numeric types without sign and point)', r13_shared_length_atoms, floor=8),
    Rule('C02.R1', 'every index entry is selectable: whitelist, the map\'s own envelope code lists, BHT tuple', r1_selectable, floor=90),
    Rule('C02.R2', 'literal map paths in code resolve in every map they are applied to', r2_literal_paths, floor=22),
    Rule('C02.R3', 'recogniser dispatch covers every data type / format qualifier in the data', r3_dispatch_covers_data, floor=7),
    Rule('C02.R4', 'constant child indices of the segment matchers exist in every applicable segment node', r4_matcher_indices, floor=2000),
    Rule('C02.R5', 'walker counting/ordering atoms: limits, resets, pending-missing conditions, position filter', r5_walker_wiring, floor=12),
    Rule('C02.R6', 'shared with C13.R1/R3/R4: the recognisers accept every value of the X12 value languages', r6_shared_recognisers, floor=33),
    Rule('C02.R7', 'the map-switch key (BHT02) is never carried from one transaction set to the next', r7_no_stale_map_key, floor=1),
    Rule('C02.R11', 'shared with C18.R2: the validating modules keep no module/class-level state and cache nothing across calls', r11_no_state_between_documents, floor=8),
    Rule('C02.R12', 'repeat limits: an error exactly when the count exceeds the limit (constant propagation)', r12_repeat_limits, floor=1),
    Rule('C02.R10', '_is_loop_match: a wrapper loop matches iff any child loop matches (constant propagation, recursive)', r10_wrapper_loops, floor=1),
    Rule('C02.R9', 'shared with C16.R13: same-position segments get distinct counter paths (loader suffix code interpreted over the maps)', r9_shared_path_suffix, floor=100),
    Rule('C02.R15', 'shared with C04.R1: envelope counters restart at their header and are compared at their trailer', r15_shared_envelope_counters, floor=37),
    Rule('C02.R8', 'shared with C01.R3/R5: no segment is damaged at a buffer boundary', r8_shared_tokenizer, floor=6),
]
