"""C20 The normaliser preserves content, is idempotent and repairs counts."""
import ast

from ..core import Ob, Rule, AnalysisError, norm
from ..cfg import path_of
from .. import astutil as A
from . import c04, c01

META = {
    'explanation': (
        'R1 the reader the normaliser relies on opens a path in a valid text read mode (same obligation as C01.R1). '
        'R2 on each of the three output options (--output, --inplace, stdout) a write whose argument derives from the '
        'temporary buffer is reached on every normal path (must-pass-through on the CFG of main). R3 for each '
        '(segment id, error code) tested in the fix-counting branch the reader raises that code in the branch of that '
        'segment id, the code is read from the position where the reader stores it, and the value written into '
        'element 01 is - after renaming src to self - the expression the reader compares element 01 with (gs_count, '
        'st_count, seg_count+1, hl_count), formatted as a plain decimal. R4 segments are re-formatted with format() '
        'without literal delimiters, eol is a line feed or empty, and every segment read is written exactly once.'),
    'not_decided': 'idempotence; "no other value is altered" (equality of run-time strings)',
    'trusted_base': ['the reader\'s compare expressions (checked by C04.R1) are the oracle for the repair table'],
    'technique': 'static analysis: must-pass-through on the CFG, table agreement between the script and the reader',
}


META['explanation'] += ' Rounds 4-5: ' + 'R5 now also shares C01.R4, R6, R8.'


def r1_open_mode(ctx):
    for o in c01.r1_open_modes(ctx):
        if o.key.startswith('x12file:X12Reader.__init__'):
            yield o
    fn = ctx.func('scripts.x12norm', 'main')
    rd = [c for c in A.calls_in(fn) if A.call_target(c)[1] == 'X12Reader']
    ok = len(rd) == 1 and path_of(rd[0].args[0]) == 'file_in'
    yield Ob('scripts.x12norm:main reads the input by path through X12Reader', ok, ctx.floc(fn), '' if ok else 'reader construction changed')


def r2_outputs(ctx):
    fn = ctx.func('scripts.x12norm', 'main')
    g = ctx.cfg(fn)
    # the temporary buffer
    tmp = None
    for n in ast.walk(fn):
        if isinstance(n, ast.Assign) and isinstance(n.value, ast.Call) and 'TemporaryFile' in norm(n.value.func):
            tmp = path_of(n.targets[0])
    if tmp is None:
        raise AnalysisError('x12norm.main: temporary buffer not found')
    # the rewind: after it, the content must reach one write per option
    seek = [n for n in g.nodes if any(isinstance(x, ast.Call) and A.call_target(x) == (tmp, 'seek') for x in g.walk_exprs(n))]
    if len(seek) != 1:
        raise AnalysisError('x12norm.main: rewind of the buffer not found')
    # tests on the options
    def is_final_write(n):
        for x in g.walk_exprs(n):
            if isinstance(x, ast.Call) and A.call_target(x)[1] == 'write' and x.args:
                if any(isinstance(y, ast.Call) and A.call_target(y) == (tmp, 'read') for y in ast.walk(x.args[0])):
                    return True
        return False
    rebind = [n for n in g.nodes if n.kind == 'stmt' and isinstance(n.ast, ast.Assign) and path_of(n.ast.targets[0]) == tmp
              and n.id > seek[0].id]
    for n in rebind:
        yield Ob('scripts.x12norm:main buffer variable rebound before its content is written', False, ctx.floc(fn, n.ast),
                 '`%s` replaces the buffer: nothing is written to the new file' % norm(n.ast))
    # every path from the rewind to the end of the iteration (loop head / exit) passes a final write
    def stop(n):
        return n.kind in ('for', 'loophead') or n is g.exit
    path = g.find_path(seek[0], stop, blocked=is_final_write)
    ok = path is None
    opt = ''
    if path:
        tests = [p for p in path if p.kind == 'test']
        opt = ' / '.join('%s=%s' % (norm(t.ast), [l for s, l in t.succ if s in path and l in 'TF'][:1]) for t in tests)
    yield Ob('scripts.x12norm:main every output option receives the buffer', ok, ctx.floc(fn, seek[0].ast),
             '' if ok else 'a path from the rewind to the next file writes nothing from the buffer (%s)' % opt,
             detail={'path': [repr(p) for p in (path or [])]})
    # the three sinks: named file, input file, stdout
    sinks = set()
    for n in g.nodes:
        if is_final_write(n):
            for x in g.walk_exprs(n):
                if isinstance(x, ast.Call) and A.call_target(x)[1] == 'write':
                    sinks.add(A.call_target(x)[0])
    yield Ob('scripts.x12norm:main has a stdout sink', 'sys.stdout' in sinks, ctx.floc(fn), '' if 'sys.stdout' in sinks else 'sinks: %s' % sorted(sinks))
    opens = {}
    for c, mode in c01.open_calls(fn):
        tgt = path_of(c.args[0]) if c.args else None
        opens[tgt] = mode.value if (mode is not None and A.is_str(mode)) else None
    for tgt, why in (('args.outputfile', '--output'), ('file_in', '--inplace')):
        ok = opens.get(tgt) is not None and 'w' in opens[tgt]
        yield Ob('scripts.x12norm:main %s opens %s for writing' % (why, tgt), ok, ctx.floc(fn), '' if ok else 'opens: %s' % opens)


def _reader_expectations(ctx):
    """{seg id: (error code raised when element 01 disagrees, canonical compared expression)}"""
    rfn, rdr = c04._arms(ctx, 'X12Reader._parse_segment')
    bfn, base = c04._arms(ctx, 'X12Base._parse_segment')
    out = {}
    for arms in (rdr, base):
        for sid, arm in arms.items():
            body_mod = ast.Module(body=list(arm.body), type_ignores=[])
            for n in ast.walk(body_mod):
                if isinstance(n, ast.If) and isinstance(n.test, ast.Compare) and len(n.test.ops) == 1 \
                        and isinstance(n.test.ops[0], ast.NotEq):
                    sides = [n.test.left, n.test.comparators[0]]
                    for s in sides:
                        rd = arm.refdes_of(s)
                        if rd == sid + '01':
                            other = [x for x in sides if x is not s][0]
                            code = None
                            for c in A.calls_in(ast.Module(body=n.body, type_ignores=[])):
                                r, m = A.call_target(c)
                                if r == 'self' and m.endswith('_error'):
                                    code = A.const(c.args[0])
                            out[sid] = (code, A.canon(other))
    return out


def r3_repair_table(ctx):
    fn = ctx.func('scripts.x12norm', 'main')
    exp = _reader_expectations(ctx)
    # position of the code inside the reader's error tuples
    pos = set()
    for q in ('X12Base._isa_error', 'X12Base._gs_error', 'X12Base._st_error', 'X12Base._seg_error'):
        f = ctx.func('x12file', q)
        for c in A.calls_in(f):
            if A.call_target(c) == ('self.err_list', 'append') and isinstance(c.args[0], ast.Tuple):
                names = [path_of(x) for x in c.args[0].elts]
                pos.add(names.index('err_cde') if 'err_cde' in names else -1)
    if len(pos) != 1:
        raise AnalysisError('reader error tuples do not store the code at one position: %s' % pos)
    code_pos = pos.pop()
    codes_var = None
    for n in ast.walk(fn):
        if isinstance(n, ast.Assign) and isinstance(n.value, ast.ListComp) and 'pop_errors' in norm(n.value):
            elt = n.value.elt
            idx = A.const(elt.slice) if isinstance(elt, ast.Subscript) else None
            codes_var = path_of(n.targets[0])
            ok = idx == code_pos
            yield Ob('scripts.x12norm:main reads the error code from the reader\'s tuple position', ok, ctx.floc(fn, n),
                     '' if ok else 'reads x[%s], the reader stores the code at position %d' % (idx, code_pos))
    if codes_var is None:
        raise AnalysisError('x12norm.main: error code list not found')
    arms = []
    for n in ast.walk(fn):
        if isinstance(n, ast.If):
            got = list(A.branch_chain([n], A.name_or_call_pred('seg_data.get_seg_id()')))
            if got and len(got) >= len(arms):
                arms = got
    seen = set()
    for lab, body, extra, node in arms:
        if lab in (None, '?') or lab in seen:
            continue
        seen.add(lab)
        key = 'scripts.x12norm:main fix[%s]' % lab
        code = None
        for e in extra:
            if isinstance(e, ast.Compare) and isinstance(e.ops[0], ast.In) and path_of(e.comparators[0]) == codes_var:
                code = A.const(e.left)
        if lab not in exp:
            yield Ob(key + ' reader counts this segment', False, ctx.floc(fn, node), 'the reader has no count comparison for %s' % lab)
            continue
        ok = code == exp[lab][0]
        yield Ob(key + ' triggered by the code the reader raises', ok, ctx.floc(fn, node),
                 '' if ok else 'script tests %r, the reader raises %r for a wrong %s01' % (code, exp[lab][0], lab))
        sets = [c for st in body for c in A.calls_in(st) if A.call_target(c) == ('seg_data', 'set')]
        ok = len(sets) == 1 and A.const(sets[0].args[0]) in (lab + '01', '01')
        yield Ob(key + ' rewrites element 01', ok, ctx.floc(fn, node), '' if ok else 'set calls: %s' % [norm(c) for c in sets])
        if len(sets) == 1:
            v = sets[0].args[1]
            inner = None
            if isinstance(v, ast.BinOp) and isinstance(v.op, ast.Mod) and A.is_str(v.left):
                inner = v.right
                fmt = v.left.value
                try:
                    okf = [fmt % i for i in (0, 7, 12, 345)] == ['0', '7', '12', '345']
                except Exception:
                    okf = False
            elif isinstance(v, ast.Call) and isinstance(v.func, ast.Attribute) and v.func.attr == 'format' and A.is_str(v.func.value):
                inner = v.args[0] if v.args else None
                try:
                    okf = [v.func.value.value.format(i) for i in (0, 7, 12, 345)] == ['0', '7', '12', '345']
                except Exception:
                    okf = False
            elif isinstance(v, ast.Call) and path_of(v.func) == 'str':
                inner = v.args[0]
                okf = True
            else:
                okf = False
            yield Ob(key + ' writes a plain decimal', okf, ctx.floc(fn, sets[0]), '' if okf else 'value expression %s' % norm(v))
            if inner is not None:
                if isinstance(inner, ast.Tuple) and len(inner.elts) == 1:
                    inner = inner.elts[0]
                got = A.canon(inner, {'src': 'self'})
                ok = got == exp[lab][1]
                yield Ob(key + ' value = what the reader compares %s01 with' % lab, ok, ctx.floc(fn, sets[0]),
                         '' if ok else 'writes %s, the reader expects %s' % (got, exp[lab][1]))
    need = {'IEA', 'GE', 'SE', 'HL'}
    ok = need <= seen
    yield Ob('scripts.x12norm:main repairs IEA, GE, SE and HL counts', ok, ctx.floc(fn), '' if ok else 'no repair for %s' % sorted(need - seen))


def r4_format(ctx):
    fn = ctx.func('scripts.x12norm', 'main')
    loops = [n for n in ast.walk(fn) if isinstance(n, ast.For) and path_of(n.iter) == 'src']
    if len(loops) != 1:
        raise AnalysisError('x12norm.main: loop over the reader not found')
    lp = loops[0]
    writes = [c for st in lp.body for c in A.calls_in(st) if A.call_target(c)[1] == 'write']
    top = [st for st in lp.body if isinstance(st, ast.Expr) and isinstance(st.value, ast.Call) and A.call_target(st.value)[1] == 'write']
    ok = len(writes) == 1 and len(top) == 1
    yield Ob('scripts.x12norm:main every segment read is written exactly once', ok, ctx.floc(fn, lp),
             '' if ok else '%d write(s), %d unconditional' % (len(writes), len(top)))
    if writes:
        a = writes[0].args[0]
        fm = [c for c in A.calls_in(a) if A.call_target(c)[1] == 'format']
        ok = len(fm) == 1 and path_of(fm[0].func.value) == path_of(lp.target) and not fm[0].args and not fm[0].keywords
        yield Ob('scripts.x12norm:main segments keep the source delimiters', ok, ctx.floc(fn, writes[0]),
                 '' if ok else 'written expression %s' % norm(a))
        suffix = a.right if isinstance(a, ast.BinOp) and isinstance(a.op, ast.Add) else None
        ok = suffix is not None and any(x is fm[0] for x in ast.walk(a.left)) if fm else False
        yield Ob('scripts.x12norm:main appends eol', ok, ctx.floc(fn, writes[0]), '' if ok else 'written expression %s' % norm(a))
        # what is appended: a line feed when -e was given, nothing otherwise (held in a local or computed in place)
        vals = None
        if suffix is not None:
            e = suffix
            if isinstance(e, ast.Name):
                defs = [n.value for n in ast.walk(fn) if isinstance(n, ast.Assign) and path_of(n.targets[0]) == e.id]
                e = defs[0] if len(defs) == 1 else None
            if e is not None:
                try:
                    vals = [A.ev(e, {'args.eol': True}), A.ev(e, {'args.eol': False})]
                except A.NotClosed:
                    vals = None
        ok = vals == ['\n', '']
        yield Ob('scripts.x12norm:main eol is a line feed when asked, else empty', ok, ctx.floc(fn), '' if ok else 'suffix evaluates to %r for -e / no -e' % (vals,))


def r3b_reader_counters(ctx):
    """the counters the normaliser copies into element 01 are the reader's: their wiring is C04.R1 (shared)"""
    for o in c04.r1_wiring(ctx):
        yield o
    # the repair is triggered by the reader's count error: an unreadable declared count must raise it (C04.R3, shared)
    for o in c04.r3_int_total(ctx):
        yield o

def r5_shared_tokenizer(ctx):
    """the segments the normaliser writes are the ones the tokenizer yields: no loss or stray line break at a buffer
    boundary (C01.R3 exits/buffer conservation, C01.R5 strip set), and each Segment is built from the token as the
    tokenizer cut it (C01.R4: no further trimming of the text, source delimiters)"""
    for fn in (c01.r3_tokenizer_exits, c01.r4_delimiter_provenance, c01.r5_strip_set, c01.r6_isa_not_subsplit, c01.r8_format_keeps_values, c01.r11_reader_iteration):
        for o in fn(ctx):
            yield o


def r6_buffer_per_file(ctx):
    """each input file is normalised into its own scratch buffer: the buffer that is written to and copied out was
    created inside the iteration for that file (a buffer shared between files keeps the tail of a longer earlier
    output)"""
    fn = ctx.func('scripts.x12norm', 'main')
    g = ctx.cfg(fn)
    from ..cfg import reaching_defs
    IN, DEFS = reaching_defs(g)
    loops = [n for n in ast.walk(fn) if isinstance(n, ast.For) and 'iglob' in norm(n.iter)]
    if len(loops) != 1:
        raise AnalysisError('x12norm.main: per-file loop not found')
    lp = loops[0]
    inside = set()
    for nd in g.nodes:
        p_ = nd.stmt
        while p_ is not None:
            if p_ is lp:
                inside.add(nd.id)
                break
            p_ = getattr(p_, '_parent', None)
    n = 0
    for nd in g.nodes:
        if nd.id not in inside:
            continue
        for x in g.walk_exprs(nd):
            if isinstance(x, ast.Call) and isinstance(x.func, ast.Attribute) and x.func.attr in ('write', 'read', 'seek') \
                    and isinstance(x.func.value, ast.Name):
                nm = x.func.value.id
                defs = (IN.get(nd.id) or {}).get(nm, frozenset())
                created = [d for d in defs if d != -1 and any(v is not None and not isinstance(v, tuple) and isinstance(v, ast.Call)
                                                              and 'TemporaryFile' in norm(v) for k_, v in DEFS[d] if k_ == nm)]
                if not created:
                    continue
                n += 1
                ok = all(d in inside for d in defs)
                yield Ob('scripts.x12norm:main %s.%s uses the buffer created for this file' % (nm, x.func.attr), ok, ctx.floc(fn, x),
                         '' if ok else 'the buffer reaching this call is created outside the per-file loop: a second input file is written over the '
                         'first one\'s output and its copy-out includes the stale tail')
    if n < 2:
        raise AnalysisError('x12norm.main: uses of the scratch buffer not found')

def r7_shared_error_transport(ctx):
    """the repair is triggered by the reader's count / HL errors, fetched with pop_errors once per segment: a discrepancy
    that is not recorded (dropped as a repeat of the previous one), or a pending list that is not handed over cleanly,
    leaves a wrong count in the output.  C04.R11 (shared)."""
    for o in c04.r11_error_transport(ctx):
        yield o


def r8_shared_set(ctx):
    """a count is repaired with Segment.set on the plain element designator: the whole element becomes the new value (a
    wrong count that carries a component separator must not keep its other components) and no other value is altered.
    C10.R8 (shared)."""
    from . import c10
    for o in c10.r8_set_changes_one_value(ctx):
        yield o


RULES = [
    Rule('C20.R1', 'input is read by path through X12Reader, which opens it in a valid text read mode', r1_open_mode, floor=2),
    Rule('C20.R2', 'every output option receives the buffer (must-pass-through)', r2_outputs, floor=3),
    Rule('C20.R3', 'repair table agrees with the reader: codes, tuple position, expressions', r3_repair_table, floor=10),
    Rule('C20.R3b', 'shared with C04.R1: the reader counters the repair reads are reset/incremented where the envelope says', r3b_reader_counters, floor=37),
    Rule('C20.R4', 'segments re-formatted with source delimiters, once each, eol = LF or empty', r4_format, floor=3),
    Rule('C20.R5', 'shared with C01.R3-R6, R8: tokenizer exits, buffer conservation, strip set, Segment built from the untrimmed token, ISA not sub-split, format keeps every value', r5_shared_tokenizer, floor=14),
    Rule('C20.R7', 'shared with C04.R11: every discrepancy is recorded and handed over exactly once', r7_shared_error_transport, floor=5),
    Rule('C20.R8', 'shared with C10.R8: Segment.set replaces exactly the designated element / component', r8_shared_set, floor=1),
    Rule('C20.R6', 'the scratch buffer is created per input file', r6_buffer_per_file, floor=2),
]
